;
; ctxprobe.asm - dynamic probes for C03 (DESIGN.md §4 C03).  TEST EVIDENCE, not proof: these routines compare the
; instruction semantics written in lean/CimbaModel/Ctx/X86.lean with what the CPU does, on seeded register files.
;
;   ctx_roundtrip    calls cmi_coroutine_context_switch directly, twice (out to a scratch context that destroys
;                    every callee-saved register, MXCSR and the flags, and back), exactly the situation of theorem
;                    switch_roundtrip; register file in, register file out.
;   ctx_probe_call   loads the callee-saved registers and MXCSR with a pattern, calls a C function (which yields
;                    through the library at some call depth), stores them afterwards.
;   ctx_entry_shim   used as coroutine function: records rsp, rdi, rsi, MXCSR, RFLAGS and the return address at
;                    function entry (theorem first_entry), then continues in C.
;   ctx_exit_shim    used as exit function: records rsp and rdi at entry (theorem return_goes_to_exit).
;
bits 64
default rel

extern cmi_coroutine_context_switch

global ctx_roundtrip
global ctx_probe_call
global ctx_entry_shim
global ctx_exit_shim
global ctx_entry_rec
global ctx_exit_rec
global ctx_entry_target
global ctx_exit_target

section .bss
alignb 16
rt_slot_a:      resq 1
rt_slot_b:      resq 1
rt_in:          resq 1
rt_out:         resq 1
rt_rsp:         resq 1
rt_other_msg:   resq 1
rt_tmp:         resq 1
ctx_entry_rec:  resq 8
ctx_exit_rec:   resq 4
ctx_entry_target: resq 1
ctx_exit_target:  resq 1

section .text

;-------------------------------------------------------------------------------
; void ctx_roundtrip(const uint64_t in[10], uint64_t out[12], void *other_stack_top)
;   in : rbx rbp r12 r13 r14 r15 mxcsr rflags msg_out msg_back
;   out: rbx rbp r12 r13 r14 r15 mxcsr rflags rax msg_seen_by_other rsp_after-rsp_before  [11] unused
ctx_roundtrip:
    push rbx
    push rbp
    push r12
    push r13
    push r14
    push r15
    pushfq
    sub rsp, 16
    stmxcsr [rsp]
    mov [rt_in], rdi
    mov [rt_out], rsi
    ; the scratch context: a frame as the switch expects it, "returning" to rt_other
    lea rax, [rdx - 72]
    mov rcx, 0x1515151515151515
    mov [rax], rcx
    mov rcx, 0x1414141414141414
    mov [rax + 8], rcx
    mov rcx, 0x1313131313131313
    mov [rax + 16], rcx
    mov rcx, 0x1212121212121212
    mov [rax + 24], rcx
    mov rcx, 0x0b0b0b0b0b0b0b0b
    mov [rax + 32], rcx
    mov rcx, 0x0505050505050505
    mov [rax + 40], rcx
    mov dword [rax + 48], 0
    mov dword [rax + 52], 0x1f80
    mov qword [rax + 56], 0x2
    lea rcx, [rt_other]
    mov [rax + 64], rcx
    mov [rt_slot_b], rax
    mov [rt_rsp], rsp
    ; load the pattern
    mov rax, rdi
    mov rbx, [rax]
    mov rbp, [rax + 8]
    mov r12, [rax + 16]
    mov r13, [rax + 24]
    mov r14, [rax + 32]
    mov r15, [rax + 40]
    ldmxcsr [rax + 48]
    push qword [rax + 56]
    popfq
    ; no flag-changing instruction from here to the call
    lea rdi, [rt_slot_a]
    lea rsi, [rt_slot_b]
    mov rdx, [rax + 64]
    call cmi_coroutine_context_switch
    ; back again: flags first
    pushfq
    mov rcx, [rt_out]
    pop qword [rcx + 56]
    mov [rcx], rbx
    mov [rcx + 8], rbp
    mov [rcx + 16], r12
    mov [rcx + 24], r13
    mov [rcx + 32], r14
    mov [rcx + 40], r15
    mov qword [rcx + 48], 0
    stmxcsr [rcx + 48]
    mov [rcx + 64], rax
    mov rdx, [rt_other_msg]
    mov [rcx + 72], rdx
    mov rdx, rsp
    sub rdx, [rt_rsp]
    mov [rcx + 80], rdx
    ; use the stack pointer we know to be right, whatever the switch did
    mov rsp, [rt_rsp]
    ldmxcsr [rsp]
    add rsp, 16
    popfq
    pop r15
    pop r14
    pop r13
    pop r12
    pop rbp
    pop rbx
    ret

rt_other:
    ; arrived here by the RET of the first switch; rax = msg_out
    mov [rt_other_msg], rax
    ; destroy everything the switch is supposed to keep for the other side
    mov rbx, 0xdeadbeefdeadbe01
    mov rbp, 0xdeadbeefdeadbe02
    mov r12, 0xdeadbeefdeadbe03
    mov r13, 0xdeadbeefdeadbe04
    mov r14, 0xdeadbeefdeadbe05
    mov r15, 0xdeadbeefdeadbe06
    mov rax, [rt_in]
    mov ecx, [rax + 48]
    xor ecx, 0xffc0
    and ecx, 0xffc0
    mov [rt_tmp], rcx
    ldmxcsr [rt_tmp]
    mov rcx, [rax + 56]
    xor rcx, 0xcd5
    and rcx, 0xcd5
    or rcx, 0x2
    push rcx
    popfq
    lea rdi, [rt_slot_b]
    lea rsi, [rt_slot_a]
    mov rdx, [rax + 72]
    call cmi_coroutine_context_switch
    ud2

;-------------------------------------------------------------------------------
; void ctx_probe_call(const uint64_t in[7], uint64_t out[7], void (*fn)(uint64_t), uint64_t arg)
;   in/out: rbx rbp r12 r13 r14 r15 mxcsr
ctx_probe_call:
    push rbx
    push rbp
    push r12
    push r13
    push r14
    push r15
    sub rsp, 40
    stmxcsr [rsp + 16]
    mov [rsp], rsi
    mov rax, rdi
    mov rbx, [rax]
    mov rbp, [rax + 8]
    mov r12, [rax + 16]
    mov r13, [rax + 24]
    mov r14, [rax + 32]
    mov r15, [rax + 40]
    ldmxcsr [rax + 48]
    mov rdi, rcx
    call rdx
    mov rcx, [rsp]
    mov [rcx], rbx
    mov [rcx + 8], rbp
    mov [rcx + 16], r12
    mov [rcx + 24], r13
    mov [rcx + 32], r14
    mov [rcx + 40], r15
    mov qword [rcx + 48], 0
    stmxcsr [rcx + 48]
    ldmxcsr [rsp + 16]
    add rsp, 40
    pop r15
    pop r14
    pop r13
    pop r12
    pop rbp
    pop rbx
    ret

;-------------------------------------------------------------------------------
; coroutine function shim: record the machine state at function entry, continue in *ctx_entry_target
ctx_entry_shim:
    mov [ctx_entry_rec], rsp
    mov [ctx_entry_rec + 8], rdi
    mov [ctx_entry_rec + 16], rsi
    mov qword [ctx_entry_rec + 24], 0
    stmxcsr [ctx_entry_rec + 24]
    pushfq
    pop qword [ctx_entry_rec + 32]
    mov rax, [rsp]
    mov [ctx_entry_rec + 40], rax
    mov [ctx_entry_rec + 48], rbp
    mov [ctx_entry_rec + 56], r15
    xor eax, eax
    jmp [ctx_entry_target]

; exit function shim: record rsp and rdi at entry, continue in *ctx_exit_target
ctx_exit_shim:
    mov [ctx_exit_rec], rsp
    mov [ctx_exit_rec + 8], rdi
    jmp [ctx_exit_target]

section .note.GNU-stack noalloc noexec nowrite progbits
