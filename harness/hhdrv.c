/*
 * hhdrv - correspondence driver for src/cmi_hashheap.c (exact state), see DESIGN.md §2.3, App. B.
 * Reads one operation per line on stdin, performs it on the real hashheap, prints one canonical
 * result line, followed by " h=<digest of the whole visible state>".  `dump` prints the state.
 *
 * Built against the library compiled from /repo's current working tree with -DCIMBA_VERIF.
 */
#include <inttypes.h>
#include <stdio.h>
#include <stdlib.h>
#include <string.h>

#include "cmb_event.h"
#include "cmb_logger.h"
#include "cmb_priorityqueue.h"
#include "cmb_resourceguard.h"
#include "cmb_resourcepool.h"
#include "cmi_hashheap.h"
#include "cmi_resourcebase.h"

extern struct cmi_hashheap *cmi_verif_event_queue(void);

static struct cmi_hashheap *hp = NULL;

static uint64_t fnv(uint64_t h, uint64_t x)
{
    for (int i = 0; i < 8; i++) {
        h ^= (x >> (8 * i)) & 0xffu;
        h *= UINT64_C(1099511628211);
    }
    return h;
}

static uint64_t digest(void)
{
    uint64_t h = UINT64_C(14695981039346656037);
    h = fnv(h, hp->heap_count);
    h = fnv(h, hp->heap_exp_cur);
    h = fnv(h, hp->item_counter);
    for (uint64_t i = 0; i <= hp->heap_count; i++) {
        const struct cmi_heap_tag *t = &hp->heap[i];
        h = fnv(h, t->key);
        h = fnv(h, t->hash_index);
        for (int j = 0; j < 4; j++) h = fnv(h, (uint64_t)t->item[j]);
        h = fnv(h, (uint64_t)(int64_t)t->dsortkey);
        h = fnv(h, (uint64_t)t->isortkey);
    }
    for (uint64_t i = 0; i < hp->hash_size; i++) {
        h = fnv(h, hp->hash_map[i].key);
        h = fnv(h, hp->hash_map[i].heap_index);
    }
    return h;
}

static void dump(void)
{
    printf("state count=%" PRIu64 " exp=%u counter=%" PRIu64 " heapsz=%" PRIu64 " hashsz=%" PRIu64 "\n",
           hp->heap_count, (unsigned)hp->heap_exp_cur, hp->item_counter, hp->heap_size, hp->hash_size);
    for (uint64_t i = 0; i <= hp->heap_count; i++) {
        const struct cmi_heap_tag *t = &hp->heap[i];
        printf(" heap[%" PRIu64 "] key=%" PRIu64 " hidx=%" PRIu64 " item=%" PRIu64 ",%" PRIu64 ",%" PRIu64 ",%" PRIu64
               " d=%" PRId64 " i=%" PRId64 "\n", i, t->key, t->hash_index,
               (uint64_t)t->item[0], (uint64_t)t->item[1], (uint64_t)t->item[2], (uint64_t)t->item[3],
               (int64_t)t->dsortkey, t->isortkey);
    }
    for (uint64_t i = 0; i < hp->hash_size; i++) {
        if (hp->hash_map[i].key != 0u || hp->hash_map[i].heap_index != 0u) {
            printf(" hash[%" PRIu64 "] key=%" PRIu64 " idx=%" PRIu64 "\n", i, hp->hash_map[i].key,
                   hp->hash_map[i].heap_index);
        }
    }
}

static cmi_heap_compare_func *order_by_name(const char *name)
{
    if (strcmp(name, "default") == 0) {
        return NULL;
    }
    if (strcmp(name, "event") == 0) {
        cmb_event_queue_initialize(0.0);
        return cmi_verif_event_queue()->heap_compare;
    }
    if (strcmp(name, "guard") == 0) {
        static struct cmb_resourceguard g;
        static struct cmi_resourcebase rb;
        memset(&g, 0, sizeof g);
        cmi_resourcebase_initialize(&rb, "rb");
        cmb_resourceguard_initialize(&g, &rb);
        return ((struct cmi_hashheap *)&g)->heap_compare;
    }
    if (strcmp(name, "holder") == 0) {
        struct cmb_resourcepool *rpp = cmb_resourcepool_create();
        cmb_resourcepool_initialize(rpp, "pool", 4u);
        return rpp->holders.heap_compare;
    }
    if (strcmp(name, "pq") == 0) {
        struct cmb_priorityqueue *pqp = cmb_priorityqueue_create();
        cmb_priorityqueue_initialize(pqp, "pq", 4u);
        return pqp->queue.heap_compare;
    }
    fprintf(stderr, "unknown order %s\n", name);
    exit(2);
}

static void *pat(const char *s)
{
    if (strcmp(s, "*") == 0) return CMI_ANY_ITEM;
    return (void *)(uintptr_t)strtoull(s, NULL, 10);
}

static void print_tag_fields(uint64_t key, void **item, double d, int64_t i)
{
    printf("ok %" PRIu64 " %" PRIu64 " %" PRIu64 " %" PRIu64 " %" PRIu64 " %" PRId64 " %" PRId64,
           key, (uint64_t)item[0], (uint64_t)item[1], (uint64_t)item[2], (uint64_t)item[3], (int64_t)d, i);
}

int main(void)
{
    char line[512];
    cmb_logger_flags_off(CMB_LOGGER_INFO);
    cmb_logger_flags_off(CMB_LOGGER_WARNING);

    while (fgets(line, sizeof line, stdin) != NULL) {
        char op[32] = "", s1[64] = "", s2[64] = "", s3[64] = "", s4[64] = "";
        uint64_t k = 0;
        int64_t d = 0, ik = 0;
        if (sscanf(line, "%31s", op) != 1) continue;

        if (strcmp(op, "init") == 0) {
            unsigned e = 0;
            sscanf(line, "%*s %u %63s", &e, s1);
            cmi_heap_compare_func *cmp = order_by_name(s1);
            hp = cmi_hashheap_create();
            cmi_hashheap_initialize(hp, (uint16_t)e, cmp);
            printf("ok");
        }
        else if (strcmp(op, "enq") == 0) {
            sscanf(line, "%*s %" SCNu64 " %63s %63s %63s %63s %" SCNd64 " %" SCNd64, &k, s1, s2, s3, s4, &d, &ik);
            const uint64_t r = cmi_hashheap_enqueue(hp, pat(s1), pat(s2), pat(s3), pat(s4), k, (double)d, ik);
            printf("ok %" PRIu64, r);
        }
        else if (strcmp(op, "deq") == 0) {
            void **item = cmi_hashheap_dequeue(hp);
            if (item == NULL) {
                printf("none");
            }
            else {
                const struct cmi_heap_tag *t = &hp->heap[0];
                if ((void **)t->item != item) { printf("BAD-POINTER "); }
                print_tag_fields(t->key, item, t->dsortkey, t->isortkey);
            }
        }
        else if (strcmp(op, "peek") == 0) {
            void **item = cmi_hashheap_peek_item(hp);
            if (item == NULL) {
                printf("none");
            }
            else {
                print_tag_fields(hp->heap[1].key, item, cmi_hashheap_peek_dkey(hp), cmi_hashheap_peek_ikey(hp));
            }
        }
        else if (strcmp(op, "rm") == 0) {
            sscanf(line, "%*s %" SCNu64, &k);
            printf("ok %d", (int)cmi_hashheap_remove(hp, k));
        }
        else if (strcmp(op, "rep") == 0) {
            sscanf(line, "%*s %" SCNu64 " %" SCNd64 " %" SCNd64, &k, &d, &ik);
            cmi_hashheap_reprioritize(hp, k, (double)d, ik);
            printf("ok");
        }
        else if (strcmp(op, "item") == 0) {
            sscanf(line, "%*s %" SCNu64, &k);
            void **item = cmi_hashheap_item(hp, k);
            printf("ok %" PRIu64 " %" PRIu64 " %" PRIu64 " %" PRIu64, (uint64_t)item[0], (uint64_t)item[1],
                   (uint64_t)item[2], (uint64_t)item[3]);
        }
        else if (strcmp(op, "dk") == 0) {
            sscanf(line, "%*s %" SCNu64, &k);
            printf("ok %" PRId64, (int64_t)cmi_hashheap_dkey(hp, k));
        }
        else if (strcmp(op, "ik") == 0) {
            sscanf(line, "%*s %" SCNu64, &k);
            printf("ok %" PRId64, cmi_hashheap_ikey(hp, k));
        }
        else if (strcmp(op, "isq") == 0) {
            sscanf(line, "%*s %" SCNu64, &k);
            printf("ok %d", (int)cmi_hashheap_is_enqueued(hp, k));
        }
        else if (strcmp(op, "pf") == 0 || strcmp(op, "pc") == 0 || strcmp(op, "px") == 0) {
            sscanf(line, "%*s %63s %63s %63s %63s", s1, s2, s3, s4);
            uint64_t r;
            if (op[1] == 'f') r = cmi_hashheap_pattern_find(hp, pat(s1), pat(s2), pat(s3), pat(s4));
            else if (op[1] == 'c') r = cmi_hashheap_pattern_count(hp, pat(s1), pat(s2), pat(s3), pat(s4));
            else r = cmi_hashheap_pattern_cancel(hp, pat(s1), pat(s2), pat(s3), pat(s4));
            printf("ok %" PRIu64, r);
        }
        else if (strcmp(op, "count") == 0) {
            printf("ok %" PRIu64, cmi_hashheap_count(hp));
        }
        else if (strcmp(op, "clear") == 0) {
            cmi_hashheap_clear(hp);
            printf("ok");
        }
        else if (strcmp(op, "reset") == 0) {
            cmi_hashheap_reset(hp);
            printf("ok");
        }
        else if (strcmp(op, "dump") == 0) {
            dump();
            printf("ok");
        }
        else {
            printf("bad-op");
        }
        printf(" h=%016" PRIx64 "\n", digest());
    }
    return 0;
}
