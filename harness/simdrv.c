/*
 * simdrv - scenario interpreter for the process layer against the real library (DESIGN.md §3.4).
 *
 * Scenario text (one item per line):
 *   res | pool CAP | buf CAP | oq CAP | pq CAP | cond            declare one object (CAP may be U = unlimited)
 *   sub C KIND IDX WHICH                                         condition C observes the guard of an object
 *   proc PRIO AUTOSTART N   followed by N command lines           declare a process with its script
 * Every command is self-guarding (documented preconditions are evaluated with public queries; when one does
 * not hold the command is logged as skipped), so every scenario is a valid program.
 * Log: "c pid pc t <cmd>" at a call, "r pid pc t <ret> [extra]" at its return, "s pid pc t" skipped,
 *      "e pid t 0" function returns, "x pid t <v|stop>" exit / stop-self; then a state dump at quiescence.
 */
#include <inttypes.h>
#include <signal.h>
#include <stdio.h>
#include <stdlib.h>
#include <string.h>
#include <fcntl.h>
#include <unistd.h>
#include <sys/resource.h>
#include <unistd.h>

#include "cmb_buffer.h"
#include "cmb_condition.h"
#include "cmb_event.h"
#include "cmb_logger.h"
#include "cmb_objectqueue.h"
#include "cmb_priorityqueue.h"
#include "cmb_process.h"
#include "cmb_resource.h"
#include "cmb_resourceguard.h"
#include "cmb_resourcepool.h"
#include "cmb_timeseries.h"
#include "cmi_hashheap.h"

#define MAXP 32
#define MAXO 16
#define MAXC 3000
#define NVAR 16
#define DISPATCH_CAP 3000

struct cmd { char text[96]; char w[6][24]; int n; struct { int kind, a, b; } pred; };
struct pctx { int pid; int ncmd; int autostart; int64_t prio; struct cmd cmds[MAXC]; uint64_t vars[NVAR]; };

static struct cmb_process *procs;
static struct pctx *pctx;
static int nproc = 0;
static struct cmb_resource *res[MAXO];        static int nres = 0;
static struct cmb_resourcepool *pools[MAXO];  static int npool = 0;
static struct cmb_buffer *bufs[MAXO];         static int nbuf = 0;
static struct cmb_objectqueue *oqs[MAXO];     static int noq = 0;
static struct cmb_priorityqueue *pqs[MAXO];   static int npq = 0;
static struct cmb_condition *conds[MAXO];     static int ncond = 0;
static int64_t flags[8];
static uint64_t gvars[NVAR];
/* handle variables 8..15 are shared between the processes, 0..7 are private */
#define VAR(i) (*((i) >= 8 ? &gvars[(i)] : &cx->vars[(i)]))

static int64_t now(void) { return (int64_t)cmb_time(); }

static void user_action(void *s, void *o) { (void)s; (void)o; }

static uint64_t parse_cap(const char *s) { return (s[0] == 'U') ? CMB_UNLIMITED : strtoull(s, NULL, 10); }

static bool cond_demand(const struct cmb_condition *cnd, const struct cmb_process *prc, const void *ctx)
{
    (void)cnd; (void)prc;
    const struct cmd *c = ctx;
    const int a = c->pred.a;
    const uint64_t b = (uint64_t)c->pred.b;
    switch (c->pred.kind) {
        case 0: return flags[a] != 0;
        case 1: return cmb_resource_available(res[a]) > 0u;
        case 2: return cmb_resourcepool_available(pools[a]) >= b;
        case 3: return cmb_buffer_level(bufs[a]) >= b;
        case 4: return cmb_objectqueue_length(oqs[a]) >= b;
        default: return false;
    }
}

static int running(int q) { return q >= 0 && q < nproc && cmb_process_status(&procs[q]) == CMB_PROCESS_RUNNING; }

#define RET(v) do { printf("r %d %d %" PRId64 " %" PRId64 "\n", me, pc, now(), (int64_t)(v)); } while (0)
#define RETX(v, fmt, x) do { printf("r %d %d %" PRId64 " %" PRId64 " " fmt "\n", me, pc, now(), (int64_t)(v), (x)); } while (0)
#define SKIP() do { printf("s %d %d %" PRId64 "\n", me, pc, now()); } while (0)

static void *procfunc(struct cmb_process *self, void *vctx)
{
    struct pctx *cx = vctx;
    const int me = cx->pid;
    for (int pc = 0; pc < cx->ncmd; pc++) {
        struct cmd *c = &cx->cmds[pc];
        const char *o = c->w[0];
        const long long a1 = strtoll(c->w[1], NULL, 10), a2 = strtoll(c->w[2], NULL, 10),
                        a3 = strtoll(c->w[3], NULL, 10), a4 = strtoll(c->w[4], NULL, 10);
        printf("c %d %d %" PRId64 " %s\n", me, pc, now(), c->text);
        if (!strcmp(o, "hold")) { RET(cmb_process_hold((double)a1)); }
        else if (!strcmp(o, "yield")) { RET(cmb_process_yield()); }
        else if (!strcmp(o, "tadd")) { VAR(a1) = cmb_process_timer_add(self, (double)a2, a3); RETX(0, "h=%" PRIu64, VAR(a1)); }
        else if (!strcmp(o, "tset")) { VAR(a1) = cmb_process_timer_set(self, (double)a2, a3); RETX(0, "h=%" PRIu64, VAR(a1)); }
        else if (!strcmp(o, "tcancel")) { if (VAR(a1) == 0u) SKIP(); else RET(cmb_process_timer_cancel(self, VAR(a1)) ? 1 : 0); }
        else if (!strcmp(o, "tclear")) { cmb_process_timers_clear(self); RET(0); }
        /* the timer API applied to ANOTHER process (typically suspended in a wait, its awaits list holding non-timer entries too) */
        else if (!strcmp(o, "tclearo")) { if (!running((int)a1)) SKIP(); else { cmb_process_timers_clear(&procs[a1]); RET(0); } }
        else if (!strcmp(o, "taddo")) { if (!running((int)a1)) SKIP(); else { const uint64_t h = cmb_process_timer_add(&procs[a1], (double)a2, a3); RETX(0, "h=%" PRIu64, h); } }
        else if (!strcmp(o, "resume")) { if (!running((int)a1) || a2 == 0) SKIP(); else { cmb_process_resume(&procs[a1], a2); RET(0); } }
        else if (!strcmp(o, "intr")) { if (!running((int)a1) || a2 == 0) SKIP(); else { cmb_process_interrupt(&procs[a1], a2, a3); RET(0); } }
        else if (!strcmp(o, "stop")) {
            if (a1 == me) { printf("x %d %" PRId64 " stop\n", me, now()); cmb_process_stop(self, (void *)(intptr_t)a2); printf("BAD stop-self returned\n"); }
            else if (a1 >= 0 && a1 < nproc) { cmb_process_stop(&procs[a1], (void *)(intptr_t)a2); RET(0); }
            else SKIP();
        }
        else if (!strcmp(o, "start")) {
            if (a1 < 0 || a1 >= nproc || running((int)a1) || cmb_event_pattern_count(CMB_ANY_ACTION, &procs[a1], CMB_ANY_OBJECT) > 0u) SKIP();
            else { cmb_process_start(&procs[a1]); RET(0); }
        }
        else if (!strcmp(o, "exit")) { printf("x %d %" PRId64 " %lld\n", me, now(), a1); cmb_process_exit((void *)(intptr_t)a1); }
        else if (!strcmp(o, "prio")) { if (a1 < 0 || a1 >= nproc) SKIP(); else { cmb_process_priority_set(&procs[a1], a2); RET(0); } }
        else if (!strcmp(o, "waitp")) { if (a1 < 0 || a1 >= nproc) SKIP(); else RET(cmb_process_wait_process(&procs[a1])); }
        else if (!strcmp(o, "usched")) { VAR(a1) = cmb_event_schedule(user_action, NULL, NULL, cmb_time() + (double)a2, a3); RETX(0, "h=%" PRIu64, VAR(a1)); }
        else if (!strcmp(o, "ucancel")) { if (VAR(a1) == 0u) SKIP(); else RET(cmb_event_cancel(VAR(a1)) ? 1 : 0); }
        else if (!strcmp(o, "upcancel")) { RET(cmb_event_pattern_cancel(user_action, CMB_ANY_SUBJECT, CMB_ANY_OBJECT)); }
        else if (!strcmp(o, "waite")) { if (VAR(a1) == 0u || !cmb_event_is_scheduled(VAR(a1))) SKIP(); else RET(cmb_process_wait_event(VAR(a1))); }
        else if (!strcmp(o, "acq")) { if (a1 >= nres) SKIP(); else RET(cmb_resource_acquire(res[a1])); }
        else if (!strcmp(o, "pre")) { if (a1 >= nres || cmb_resource_held_by_process(res[a1], self)) SKIP(); else RET(cmb_resource_preempt(res[a1])); }
        else if (!strcmp(o, "rel")) { if (a1 >= nres || !cmb_resource_held_by_process(res[a1], self)) SKIP(); else { cmb_resource_release(res[a1]); RET(0); } }
        else if (!strcmp(o, "pacq") || !strcmp(o, "ppre")) {
            if (a1 >= npool || a2 <= 0 || (uint64_t)a2 > pools[a1]->capacity) SKIP();
            else RET(o[1] == 'a' ? cmb_resourcepool_acquire(pools[a1], (uint64_t)a2) : cmb_resourcepool_preempt(pools[a1], (uint64_t)a2));
        }
        else if (!strcmp(o, "prel")) {
            if (a1 >= npool || a2 <= 0 || (uint64_t)a2 > cmb_resourcepool_held_by_process(pools[a1], self)) SKIP();
            else { cmb_resourcepool_release(pools[a1], (uint64_t)a2); RET(0); }
        }
        else if (!strcmp(o, "bget")) { if (a1 >= nbuf) SKIP(); else { uint64_t amt = strtoull(c->w[2], NULL, 10); const int64_t r = cmb_buffer_get(bufs[a1], &amt); RETX(r, "amt=%" PRIu64, amt); } }
        else if (!strcmp(o, "bput")) { if (a1 >= nbuf || strtoull(c->w[2], NULL, 10) == 0u) SKIP(); else { uint64_t amt = strtoull(c->w[2], NULL, 10); const int64_t r = cmb_buffer_put(bufs[a1], &amt); RETX(r, "amt=%" PRIu64, amt); } }
        else if (!strcmp(o, "oget")) { if (a1 >= noq) SKIP(); else { void *obj = (void *)(uintptr_t)77; const int64_t r = cmb_objectqueue_get(oqs[a1], &obj); RETX(r, "obj=%" PRIu64, (uint64_t)(uintptr_t)obj); } }
        else if (!strcmp(o, "oput")) { if (a1 >= noq) SKIP(); else RET(cmb_objectqueue_put(oqs[a1], (void *)(uintptr_t)a2)); }
        else if (!strcmp(o, "kget")) { if (a1 >= npq) SKIP(); else { void *obj = (void *)(uintptr_t)77; const int64_t r = cmb_priorityqueue_get(pqs[a1], &obj); RETX(r, "obj=%" PRIu64, (uint64_t)(uintptr_t)obj); } }
        else if (!strcmp(o, "kput")) {
            if (a1 >= npq) SKIP();
            else { uint64_t h = 0; const int64_t r = cmb_priorityqueue_put(pqs[a1], (void *)(uintptr_t)a2, a3, &h);
                   if (r == 0) { VAR(a4) = h; RETX(r, "h=%" PRIu64, h); } else RET(r); }
        }
        else if (!strcmp(o, "kcancel")) { if (a1 >= npq || VAR(a2) == 0u) SKIP(); else RET(cmb_priorityqueue_cancel(pqs[a1], VAR(a2)) ? 1 : 0); }
        else if (!strcmp(o, "kreprio")) {
            if (a1 >= npq || VAR(a2) == 0u || cmb_priorityqueue_position(pqs[a1], VAR(a2)) == 0u) SKIP();
            else { cmb_priorityqueue_reprioritize(pqs[a1], VAR(a2), a3); RET(0); }
        }
        else if (!strcmp(o, "kpos")) { if (a1 >= npq || VAR(a2) == 0u) SKIP(); else RET(cmb_priorityqueue_position(pqs[a1], VAR(a2))); }
        else if (!strcmp(o, "cwait")) {
            if (a1 >= ncond) SKIP();
            else { c->pred.kind = (int)a2; c->pred.a = (int)a3; c->pred.b = (int)a4; RET(cmb_condition_wait(conds[a1], cond_demand, c)); }
        }
        else if (!strcmp(o, "csig")) { if (a1 >= ncond) SKIP(); else RET(cmb_condition_signal(conds[a1]) ? 1 : 0); }
        else if (!strcmp(o, "ccancel")) { if (a1 >= ncond || a2 < 0 || a2 >= nproc) SKIP(); else RET(cmb_condition_cancel(conds[a1], &procs[a2]) ? 1 : 0); }
        else if (!strcmp(o, "cremove")) { if (a1 >= ncond || a2 < 0 || a2 >= nproc) SKIP(); else RET(cmb_condition_remove(conds[a1], &procs[a2]) ? 1 : 0); }
        else if (!strcmp(o, "flag")) { flags[a1] = a2; RET(0); }
        else if (!strcmp(o, "rstart") || !strcmp(o, "rstop")) {
            const int on = (o[3] == 'a');
            int ok = 1;
            switch (a1) {
                case 0: if (a2 >= nres) ok = 0; else if (on) cmb_resource_start_recording(res[a2]); else cmb_resource_stop_recording(res[a2]); break;
                case 1: if (a2 >= npool) ok = 0; else if (on) cmb_resourcepool_start_recording(pools[a2]); else cmb_resourcepool_stop_recording(pools[a2]); break;
                case 2: if (a2 >= nbuf) ok = 0; else if (on) cmb_buffer_recording_start(bufs[a2]); else cmb_buffer_recording_stop(bufs[a2]); break;
                case 3: if (a2 >= noq) ok = 0; else if (on) cmb_objectqueue_recording_start(oqs[a2]); else cmb_objectqueue_recording_stop(oqs[a2]); break;
                default: if (a2 >= npq) ok = 0; else if (on) cmb_priorityqueue_recording_start(pqs[a2]); else cmb_priorityqueue_recording_stop(pqs[a2]); break;
            }
            if (ok) RET(0); else SKIP();
        }
        else { printf("bad-cmd %s\n", o); }
    }
    printf("e %d %" PRId64 " 0\n", me, now());
    return NULL;
}

static void dump_hist(const char *k, int idx, struct cmb_timeseries *ts)
{
    const struct cmb_dataset *ds = (const struct cmb_dataset *)ts;
    printf("H %s %d %" PRIu64 " :", k, idx, ds->count);
    for (uint64_t i = 0; i < ds->count; i++) printf(" %" PRId64 ",%" PRId64, (int64_t)ds->xa[i], (int64_t)ts->ta[i]);
    printf("\n");
}

/* the library's own time-weighted summary of a history, as integers (total weight, weighted sum of the values) */
static void dump_wsum(const char *k, int idx, struct cmb_timeseries *ts)
{
    const struct cmb_dataset *ds = (const struct cmb_dataset *)ts;
    const uint64_t n = ds->count;
    if (n < 2u) { printf("W %s %d n=%" PRIu64 " wsum=0 wx=0\n", k, idx, n); return; }
    int big = fabs(ts->ta[n - 1u] - ts->ta[0]) >= 1048576.0;
    for (uint64_t i = 0; i < n; i++) if (fabs(ds->xa[i]) >= 1099511627776.0) big = 1;
    if (big) { printf("W %s %d n=%" PRIu64 " wsum=big wx=big\n", k, idx, n); return; }
    struct cmb_wtdsummary *ws = cmb_wtdsummary_create();
    (void)cmb_timeseries_summarize(ts, ws);
    const double wsum = ws->wsum;
    if (ts->ta[n - 1u] - ts->ta[0] == 0.0) printf("W %s %d n=%" PRIu64 " wsum=0 wx=0\n", k, idx, n);
    else printf("W %s %d n=%" PRIu64 " wsum=%lld wx=%lld\n", k, idx, n, llround(wsum), (wsum > 0.0) ? llround(cmb_wtdsummary_mean(ws) * wsum) : 0LL);
    cmb_wtdsummary_destroy(ws);
}

static uint64_t gcount(struct cmb_resourceguard *g) { return cmi_hashheap_count((struct cmi_hashheap *)g); }

/* After the final dump (nothing below is part of the compared log): end the run the way the library's own tests do - an event
 * stops every process that is still running, the queue is run dry, then every process is terminated and every object and the
 * event queue destroyed. An abort or a sanitizer report here fails the run like any other. */
static uint64_t pool_cap[MAXO], buf_cap[MAXO], oq_cap[MAXO], pq_cap[MAXO];
static struct { int c, kind, idx, which; } subs[64];
static int nsub = 0;

static struct cmb_resourceguard *sub_guard(int i)
{
    const int k = subs[i].kind, x = subs[i].idx, wh = subs[i].which;
    if (k == 0 && x < nres) return &res[x]->guard;
    if (k == 1 && x < npool) return &pools[x]->guard;
    if (k == 2 && x < nbuf) return wh ? &bufs[x]->rear_guard : &bufs[x]->front_guard;
    if (k == 3 && x < noq) return wh ? &oqs[x]->rear_guard : &oqs[x]->front_guard;
    if (k == 4 && x < npq) return wh ? &pqs[x]->rear_guard : &pqs[x]->front_guard;
    if (k == 5 && x < ncond && x != subs[i].c) return &conds[x]->guard;      /* a condition observing another condition */
    return NULL;
}

static void end_all_evt(void *subject, void *object)
{
    (void)subject; (void)object;
    for (int p = 0; p < nproc; p++) {
        if (running(p)) cmb_process_stop(&procs[p], NULL);
    }
}

/* After the dump: end the run (an event stops every process that is still running, the queue is run dry - nothing prints any
 * more), then give every object a second life the way a model that reuses its objects between replications does - terminate,
 * initialize again - and print the state the fresh object reports (Z lines; the model prints what a fresh object must report). */
static int conds_gone = 0;

/* Every subscription made at set-up is taken back (each must be reported as found), the conditions are destroyed, and every
 * guard is signalled once more: a guard that still lists a destroyed condition as its observer would now call into freed memory. */
static void retire_conditions(void)
{
    if (conds_gone) return;
    conds_gone = 1;
    for (int i = 0; i < nsub; i++) {
        struct cmb_resourceguard *g = sub_guard(i);
        if (g != NULL && subs[i].c < ncond && !cmb_condition_unsubscribe(conds[subs[i].c], g)) {
            fflush(stdout);
            fprintf(stderr, "ERROR: simdrv: cmb_condition_unsubscribe(condition %d, guard of kind %d index %d) reports that the condition "
                            "was not registered, but it was subscribed at set-up\n", subs[i].c, subs[i].kind, subs[i].idx);
            exit(4);
        }
    }
    for (int i = 0; i < ncond; i++) cmb_condition_destroy(conds[i]);
    for (int i = 0; i < nres; i++) (void)cmb_resourceguard_signal(&res[i]->guard);
    for (int i = 0; i < npool; i++) (void)cmb_resourceguard_signal(&pools[i]->guard);
    for (int i = 0; i < nbuf; i++) { (void)cmb_resourceguard_signal(&bufs[i]->front_guard); (void)cmb_resourceguard_signal(&bufs[i]->rear_guard); }
    for (int i = 0; i < noq; i++) { (void)cmb_resourceguard_signal(&oqs[i]->front_guard); (void)cmb_resourceguard_signal(&oqs[i]->rear_guard); }
    for (int i = 0; i < npq; i++) { (void)cmb_resourceguard_signal(&pqs[i]->front_guard); (void)cmb_resourceguard_signal(&pqs[i]->rear_guard); }
}

static void second_life(void)
{
    /* whatever still runs while the queue is run dry (a capped run has start events pending) must not print */
    fflush(stdout);
    const int saved = dup(STDOUT_FILENO);
    const int devnull = open("/dev/null", O_WRONLY);
    if (saved < 0 || devnull < 0) return;
    (void)dup2(devnull, STDOUT_FILENO);
    (void)cmb_event_schedule(end_all_evt, NULL, NULL, cmb_time(), INT64_MAX);
    long m = 0;
    while (cmb_event_execute_next()) {
        if (++m >= DISPATCH_CAP) break;
        if (m % 64 == 0) (void)cmb_event_schedule(end_all_evt, NULL, NULL, cmb_time(), INT64_MAX);   /* processes started meanwhile */
    }
    end_all_evt(NULL, NULL);
    fflush(stdout);
    (void)dup2(saved, STDOUT_FILENO);
    close(saved); close(devnull);
    if (cmb_event_queue_count() != 0u) { printf("Z the run could not be ended\n"); return; }
    retire_conditions();
    for (int i = 0; i < nres; i++) {
        cmb_resource_terminate(res[i]); cmb_resource_initialize(res[i], "r");
        printf("Z res %d inuse=%" PRIu64 " hist=%" PRIu64 "\n", i, cmb_resource_in_use(res[i]),
               ((const struct cmb_dataset *)cmb_resource_history(res[i]))->count);
    }
    for (int i = 0; i < npool; i++) {
        cmb_resourcepool_terminate(pools[i]); cmb_resourcepool_initialize(pools[i], "p", pool_cap[i]);
        printf("Z pool %d inuse=%" PRIu64 " avail=%" PRIu64 " hist=%" PRIu64 "\n", i, cmb_resourcepool_in_use(pools[i]),
               cmb_resourcepool_available(pools[i]), ((const struct cmb_dataset *)cmb_resourcepool_get_history(pools[i]))->count);
    }
    for (int i = 0; i < nbuf; i++) {
        cmb_buffer_terminate(bufs[i]); cmb_buffer_initialize(bufs[i], "b", buf_cap[i]);
        printf("Z buf %d level=%" PRIu64 " space=%" PRIu64 " hist=%" PRIu64 "\n", i, cmb_buffer_level(bufs[i]), cmb_buffer_space(bufs[i]),
               ((const struct cmb_dataset *)cmb_buffer_history(bufs[i]))->count);
    }
    for (int i = 0; i < noq; i++) {
        cmb_objectqueue_terminate(oqs[i]); cmb_objectqueue_initialize(oqs[i], "o", oq_cap[i]);
        printf("Z oq %d len=%" PRIu64 " hist=%" PRIu64 "\n", i, cmb_objectqueue_length(oqs[i]),
               ((const struct cmb_dataset *)cmb_objectqueue_history(oqs[i]))->count);
    }
    for (int i = 0; i < npq; i++) {
        cmb_priorityqueue_terminate(pqs[i]); cmb_priorityqueue_initialize(pqs[i], "k", pq_cap[i]);
        printf("Z pq %d len=%" PRIu64 " hist=%" PRIu64 "\n", i, cmb_priorityqueue_length(pqs[i]),
               ((const struct cmb_dataset *)cmb_priorityqueue_history(pqs[i]))->count);
    }
    fflush(stdout);
}

static void teardown(void)
{
    if (freopen("/dev/null", "w", stdout) == NULL) return;
    (void)cmb_event_schedule(end_all_evt, NULL, NULL, cmb_time(), INT64_MAX);
    long m = 0;
    while (cmb_event_execute_next()) { if (++m >= DISPATCH_CAP) break; }
    for (int p = 0; p < nproc; p++) cmb_process_terminate(&procs[p]);
    retire_conditions();
    for (int i = 0; i < nres; i++) cmb_resource_destroy(res[i]);
    for (int i = 0; i < npool; i++) cmb_resourcepool_destroy(pools[i]);
    for (int i = 0; i < nbuf; i++) cmb_buffer_destroy(bufs[i]);
    for (int i = 0; i < noq; i++) cmb_objectqueue_destroy(oqs[i]);
    for (int i = 0; i < npq; i++) cmb_priorityqueue_destroy(pqs[i]);
    cmb_event_queue_terminate();
    free(procs);
    free(pctx);
}

/* A scenario is at most DISPATCH_CAP events of a few calls each: milliseconds of CPU time. A library call that does not return
 * (an endless loop over a corrupted list) would otherwise cost the caller its whole wall-clock time-out for every such scenario;
 * the CPU-time limit turns it into an abnormal termination with a message, within seconds and independent of the machine load. */
#define CPU_LIMIT_SECONDS 3
static void on_cpu_limit(int sig)
{
    (void)sig;
    static const char msg[] = "ERROR: simdrv: CPU time limit exceeded - a library call does not return (endless loop)\n";
    if (write(2, msg, sizeof msg - 1) < 0) { /* nothing to be done */ }
    _exit(3);
}

int main(void)
{
    char line[256];
    struct sigaction sa;
    memset(&sa, 0, sizeof sa);
    sa.sa_handler = on_cpu_limit;
    (void)sigaction(SIGXCPU, &sa, NULL);
    const struct rlimit rl = { CPU_LIMIT_SECONDS, CPU_LIMIT_SECONDS + 2 };
    (void)setrlimit(RLIMIT_CPU, &rl);
    cmb_logger_flags_off(CMB_LOGGER_INFO);
    cmb_logger_flags_off(CMB_LOGGER_WARNING);
    cmb_event_queue_initialize(0.0);
    procs = calloc(MAXP, sizeof(*procs));
    pctx = calloc(MAXP, sizeof(*pctx));
    int cur = -1, left = 0;
    while (fgets(line, sizeof line, stdin) != NULL) {
        char w[6][24] = { "", "", "", "", "", "" };
        const int n = sscanf(line, "%23s %23s %23s %23s %23s %23s", w[0], w[1], w[2], w[3], w[4], w[5]);
        if (n < 1) continue;
        if (left > 0) {
            struct cmd *c = &pctx[cur].cmds[pctx[cur].ncmd++];
            snprintf(c->text, sizeof c->text, "%s", line);
            c->text[strcspn(c->text, "\r\n")] = 0;
            memcpy(c->w, w, sizeof w);
            c->n = n;
            left--;
            continue;
        }
        if (!strcmp(w[0], "res")) { res[nres] = cmb_resource_create(); cmb_resource_initialize(res[nres], "r"); nres++; }
        else if (!strcmp(w[0], "pool")) { pool_cap[npool] = parse_cap(w[1]); pools[npool] = cmb_resourcepool_create(); cmb_resourcepool_initialize(pools[npool], "p", pool_cap[npool]); npool++; }
        else if (!strcmp(w[0], "buf")) { buf_cap[nbuf] = parse_cap(w[1]); bufs[nbuf] = cmb_buffer_create(); cmb_buffer_initialize(bufs[nbuf], "b", buf_cap[nbuf]); nbuf++; }
        else if (!strcmp(w[0], "oq")) { oq_cap[noq] = parse_cap(w[1]); oqs[noq] = cmb_objectqueue_create(); cmb_objectqueue_initialize(oqs[noq], "o", oq_cap[noq]); noq++; }
        else if (!strcmp(w[0], "pq")) { pq_cap[npq] = parse_cap(w[1]); pqs[npq] = cmb_priorityqueue_create(); cmb_priorityqueue_initialize(pqs[npq], "k", pq_cap[npq]); npq++; }
        else if (!strcmp(w[0], "cond")) { conds[ncond] = cmb_condition_create(); cmb_condition_initialize(conds[ncond], "c"); ncond++; }
        else if (!strcmp(w[0], "sub")) { subs[nsub].c = atoi(w[1]); subs[nsub].kind = atoi(w[2]); subs[nsub].idx = atoi(w[3]); subs[nsub].which = atoi(w[4]); nsub++; }
        else if (!strcmp(w[0], "proc")) {
            cur = nproc++;
            pctx[cur].pid = cur; pctx[cur].prio = strtoll(w[1], NULL, 10); pctx[cur].autostart = atoi(w[2]); pctx[cur].ncmd = 0;
            left = atoi(w[3]);
        }
    }
    for (int i = 0; i < nsub; i++) {
        struct cmb_resourceguard *g = sub_guard(i);
        if (g != NULL && subs[i].c < ncond) cmb_condition_subscribe(conds[subs[i].c], g);
    }
    for (int i = 0; i < nproc; i++) {
        cmb_process_initialize(&procs[i], "p", procfunc, &pctx[i], pctx[i].prio);
    }
    for (int i = 0; i < nproc; i++) {
        if (pctx[i].autostart) cmb_process_start(&procs[i]);
    }
    long n = 0;
    while (cmb_event_execute_next()) {
        if (++n >= DISPATCH_CAP) { printf("cap\n"); break; }
    }
    printf("Q now=%" PRId64 " events=%" PRIu64 "\n", now(), cmb_event_queue_count());
    for (int i = 0; i < nproc; i++) {
        const int st = (int)cmb_process_status(&procs[i]);
        printf("P %d st=%d exit=%" PRId64 " prio=%" PRId64 "\n", i, st,
               st == 2 ? (int64_t)(intptr_t)cmb_process_exit_value(&procs[i]) : 0, cmb_process_priority(&procs[i]));
    }
    for (int i = 0; i < nres; i++) {
        int h = -1;
        for (int p = 0; p < nproc; p++) if (cmb_resource_held_by_process(res[i], &procs[p])) h = p;
        printf("R %d holder=%d inuse=%" PRIu64 " wait=%" PRIu64 "\n", i, h, cmb_resource_in_use(res[i]), gcount(&res[i]->guard));
    }
    for (int i = 0; i < npool; i++) {
        printf("L %d inuse=%" PRIu64 " wait=%" PRIu64 " held=", i, cmb_resourcepool_in_use(pools[i]), gcount(&pools[i]->guard));
        for (int p = 0; p < nproc; p++) printf("%s%" PRIu64, p ? "," : "", cmb_resourcepool_held_by_process(pools[i], &procs[p]));
        printf("\n");
    }
    for (int i = 0; i < nbuf; i++) printf("B %d level=%" PRIu64 " wait=%" PRIu64 ",%" PRIu64 "\n", i, cmb_buffer_level(bufs[i]), gcount(&bufs[i]->front_guard), gcount(&bufs[i]->rear_guard));
    for (int i = 0; i < noq; i++) printf("O %d len=%" PRIu64 " wait=%" PRIu64 ",%" PRIu64 "\n", i, cmb_objectqueue_length(oqs[i]), gcount(&oqs[i]->front_guard), gcount(&oqs[i]->rear_guard));
    for (int i = 0; i < npq; i++) printf("K %d len=%" PRIu64 " wait=%" PRIu64 ",%" PRIu64 "\n", i, cmb_priorityqueue_length(pqs[i]), gcount(&pqs[i]->front_guard), gcount(&pqs[i]->rear_guard));
    for (int i = 0; i < ncond; i++) printf("C %d wait=%" PRIu64 "\n", i, gcount(&conds[i]->guard));
    for (int i = 0; i < nres; i++) dump_hist("res", i, cmb_resource_history(res[i]));
    for (int i = 0; i < npool; i++) dump_hist("pool", i, cmb_resourcepool_get_history(pools[i]));
    for (int i = 0; i < nbuf; i++) dump_hist("buf", i, cmb_buffer_history(bufs[i]));
    for (int i = 0; i < noq; i++) dump_hist("oq", i, cmb_objectqueue_history(oqs[i]));
    for (int i = 0; i < npq; i++) dump_hist("pq", i, cmb_priorityqueue_history(pqs[i]));
    for (int i = 0; i < nres; i++) dump_wsum("res", i, cmb_resource_history(res[i]));
    for (int i = 0; i < npool; i++) dump_wsum("pool", i, cmb_resourcepool_get_history(pools[i]));
    for (int i = 0; i < nbuf; i++) dump_wsum("buf", i, cmb_buffer_history(bufs[i]));
    for (int i = 0; i < noq; i++) dump_wsum("oq", i, cmb_objectqueue_history(oqs[i]));
    for (int i = 0; i < npq; i++) dump_wsum("pq", i, cmb_priorityqueue_history(pqs[i]));
    fflush(stdout);
    if (n < DISPATCH_CAP) second_life();        /* not after a capped run (events are still pending there) */
    teardown();
    return 0;
}
