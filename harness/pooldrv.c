/*
 * pooldrv - correspondence driver for src/cmi_mempool.c / cmi_mempool.h (exact state), DESIGN.md §4 C20.
 *
 * Reads one operation per line on stdin, performs it on a real memory pool, prints one canonical
 * result line followed by " | <visible state of struct cmi_mempool>".  Pointers never appear in the
 * output: every object pointer is canonicalised to (chunk index in order of first appearance, index
 * of the 8-byte word inside the chunk) by tracking the chunk bases.
 *
 * Besides being the implementation side of the exact-state comparison, the driver is the property
 * monitor on the real code: every live object is filled with a pattern that depends on its handle,
 * the patterns are verified before every free, on `v` and at `end` (content stability); every
 * returned pointer is checked for 8-byte alignment, for lying inside one of the chunks the pool has
 * recorded in its chunk list, with obj_sz bytes of room, and for not overlapping any live object.  A failed monitor prints a line starting with
 * "PROPERTY" (and the run goes on), so that the check can tell a violation of C20 from a mere
 * difference between model and code.
 *
 *   page P                     P must equal cmi_pagesize()
 *   init dyn SZ NUM            cmi_mempool_create + cmi_mempool_initialize
 *   init static SZ NUM         a thread-local pool set up by CMI_MEMPOOL_STATIC_INIT(SZ, NUM), first use initialises
 *   init lib NAME SZ NUM       the library's own thread-local pool NAME (waiter|awaitable|holdable)
 *   a                          allocate (handle = running number from 0), fill with pattern seed 0
 *   f H                        verify pattern of H, free it
 *   w H V                      refill object H with pattern seed V
 *   v                          verify all live objects
 *   dump                       digest of the whole free list
 *   sizes                      print the object sizes / counts of the library's thread-local pools
 *   end                        verify all, destroy the pool
 */
#include <inttypes.h>
#include <stdio.h>
#include <stdlib.h>
#include <string.h>

#include "cmb_process.h"
#include "cmi_mempool.h"
#include "cmi_memutils.h"
#include "cmi_process.h"

#define FL_WALK 32u

static CMB_THREAD_LOCAL struct cmi_mempool tls_pool = CMI_MEMPOOL_STATIC_INIT(64u, 64u);

static struct cmi_mempool *mp = NULL;
static int kind = 0;                /* 1 dyn, 2 static, 3 lib */

/* chunk bases in order of first appearance */
static char **bases = NULL;
static size_t nbases = 0, capbases = 0;

/* handles */
struct hnd { void *p; uint64_t seed; int live; };
static struct hnd *hnds = NULL;
static size_t nhnds = 0, caphnds = 0, nlive = 0;

/* open-addressing set of live pointers -> handle + 1 */
static uintptr_t *hkeys = NULL;
static size_t *hvals = NULL;
static size_t hcap = 0, hcnt = 0;

static uint64_t fnv(uint64_t h, uint64_t x)
{
    for (int i = 0; i < 8; i++) {
        h ^= (x >> (8 * i)) & 0xffu;
        h *= UINT64_C(1099511628211);
    }
    return h;
}
#define FNV0 UINT64_C(14695981039346656037)

static size_t hslot(uintptr_t k) { return (size_t)((k >> 3) * UINT64_C(11400714819323198485) >> 20) & (hcap - 1); }

static void hgrow(void);

static void hput(uintptr_t k, size_t v)
{
    if ((hcnt + 1) * 2 > hcap) hgrow();
    size_t i = hslot(k);
    while (hkeys[i] != 0 && hkeys[i] != k) i = (i + 1) & (hcap - 1);
    if (hkeys[i] == 0) hcnt++;
    hkeys[i] = k;
    hvals[i] = v;
}

static size_t hget(uintptr_t k)
{
    if (hcap == 0) return 0;
    size_t i = hslot(k);
    while (hkeys[i] != 0) {
        if (hkeys[i] == k) return hvals[i];
        i = (i + 1) & (hcap - 1);
    }
    return 0;
}

static void hgrow(void)
{
    size_t ocap = hcap;
    uintptr_t *ok = hkeys;
    size_t *ov = hvals;
    hcap = ocap ? ocap * 2 : 1024;
    hkeys = calloc(hcap, sizeof *hkeys);
    hvals = calloc(hcap, sizeof *hvals);
    hcnt = 0;
    for (size_t i = 0; i < ocap; i++) if (ok[i] != 0 && ov[i] != 0) hput(ok[i], ov[i]);
    free(ok);
    free(ov);
}

static uint64_t pat(uint64_t h, uint64_t v, uint64_t j)
{
    return (h * UINT64_C(0x9E3779B97F4A7C15) + v * UINT64_C(0xC2B2AE3D27D4EB4F) + j) ^ UINT64_C(0x5851F42D4C957F2D);
}

/* chunk index of p, -1 if p is in no known chunk */
static long chunk_of(const void *p)
{
    static size_t last = 0;
    const char *q = p;
    if (mp == NULL || mp->incr_sz == 0) return -1;
    if (last < nbases && q >= bases[last] && q < bases[last] + mp->incr_sz) return (long)last;
    for (size_t i = nbases; i-- > 0;) {
        if (q >= bases[i] && q < bases[i] + mp->incr_sz) { last = i; return (long)i; }
    }
    return -1;
}

static void print_addr(const void *p)
{
    if (p == NULL) { printf("-"); return; }
    long c = chunk_of(p);
    if (c < 0) { printf("?"); return; }
    size_t off = (size_t)((const char *)p - bases[c]);
    if (off % 8u == 0) printf("%ld:%zu", c, off / 8u); else printf("%ld:%zu+%zu", c, off / 8u, off % 8u);
}

static int cookie_code(uint64_t c)
{
    if (c == 0) return 0;
    if (c == CMI_UNINITIALIZED) return 1;
    if (c == CMI_INITIALIZED) return 2;
    if (c == CMI_THREAD_STATIC) return 3;
    return 9;
}

static void print_state(void)
{
    if (mp == NULL) { printf(" | none\n"); return; }
    uint64_t cl = FNV0;
    if (mp->chunk_list != NULL) {
        for (uint64_t i = 0; i < mp->chunk_list_cnt; i++) {
            long c = chunk_of(mp->chunk_list[i]);
            cl = fnv(cl, (c >= 0 && (char *)mp->chunk_list[i] == bases[c]) ? (uint64_t)c : UINT64_C(999999));
        }
    }
    printf(" | ck=%d sz=%zu num=%zu isz=%zu len=%" PRIu64 " cnt=%" PRIu64 " cl=%016" PRIx64 " nx=",
           cookie_code(mp->cookie), mp->obj_sz, mp->incr_num, mp->incr_sz, mp->chunk_list_len, mp->chunk_list_cnt, cl);
    print_addr(mp->next_obj);
    uint64_t fl = FNV0;
    unsigned n = 0;
    const void *p = mp->next_obj;
    while (p != NULL && n < FL_WALK) {
        long c = chunk_of(p);
        if (c < 0 || ((const char *)p - bases[c]) % 8 != 0) { fl = fnv(fl, UINT64_C(999999)); n++; break; }
        fl = fnv(fl, (uint64_t)c);
        fl = fnv(fl, (uint64_t)(((const char *)p - bases[c]) / 8));
        n++;
        p = *(void *const *)p;
    }
    printf(" fl=%016" PRIx64 "/%u\n", fl, n);
}

static int verify(size_t h, size_t *badword)
{
    const uint64_t *q = hnds[h].p;
    for (size_t j = 0; j < mp->obj_sz / 8u; j++) {
        if (q[j] != pat(h, hnds[h].seed, j)) { *badword = j; return 0; }
    }
    return 1;
}

static void fill(size_t h)
{
    uint64_t *q = hnds[h].p;
    for (size_t j = 0; j < mp->obj_sz / 8u; j++) q[j] = pat(h, hnds[h].seed, j);
}

/* returns number of live objects verified, prints PROPERTY lines for corrupted ones (at most 3) */
static size_t verify_all(void)
{
    size_t bad = 0, n = 0, w;
    for (size_t h = 0; h < nhnds; h++) {
        if (!hnds[h].live) continue;
        n++;
        if (!verify(h, &w) && bad++ < 3) printf("PROPERTY contents handle=%zu word=%zu changed while allocated\n", h, w);
    }
    return n;
}

int main(void)
{
    char line[256];
    setvbuf(stdout, NULL, _IOLBF, 0);
    while (fgets(line, sizeof line, stdin)) {
        char op[32] = "", a1[32] = "", a2[32] = "";
        unsigned long long x = 0, y = 0;
        int n = sscanf(line, "%31s", op);
        if (n < 1) continue;
        if (strcmp(op, "page") == 0) {
            sscanf(line, "%*s %llu", &x);
            if ((size_t)x == cmi_pagesize()) printf("ok"); else printf("page-mismatch %zu", cmi_pagesize());
            print_state();
        } else if (strcmp(op, "sizes") == 0) {
            printf("waiter %zu %zu awaitable %zu %zu holdable %zu %zu\n",
                   cmi_process_waitertags.obj_sz, cmi_process_waitertags.incr_num,
                   cmi_process_awaitabletags.obj_sz, cmi_process_awaitabletags.incr_num,
                   cmi_process_holdabletags.obj_sz, cmi_process_holdabletags.incr_num);
        } else if (strcmp(op, "init") == 0) {
            int m = sscanf(line, "%*s %31s %31s %llu %llu", a1, a2, &x, &y);
            if (mp != NULL) { printf("bad-op"); print_state(); continue; }
            if (strcmp(a1, "dyn") == 0 && m >= 3) {
                sscanf(line, "%*s %*s %llu %llu", &x, &y);
                kind = 1;
                mp = cmi_mempool_create();
                cmi_mempool_initialize(mp, (size_t)x, (uint64_t)y);
                printf("ok");
            } else if (strcmp(a1, "static") == 0 && m >= 3) {
                sscanf(line, "%*s %*s %llu %llu", &x, &y);
                kind = 2;
                tls_pool = (struct cmi_mempool)CMI_MEMPOOL_STATIC_INIT((size_t)x, (size_t)y);
                mp = &tls_pool;
                printf("ok");
            } else if (strcmp(a1, "lib") == 0 && m == 4) {
                kind = 3;
                if (strcmp(a2, "waiter") == 0) mp = &cmi_process_waitertags;
                else if (strcmp(a2, "awaitable") == 0) mp = &cmi_process_awaitabletags;
                else if (strcmp(a2, "holdable") == 0) mp = &cmi_process_holdabletags;
                if (mp == NULL) printf("bad-op");
                else if (mp->obj_sz != (size_t)x || mp->incr_num != (size_t)y) printf("lib-mismatch %zu %zu", mp->obj_sz, mp->incr_num);
                else printf("ok");
            } else {
                printf("bad-op");
            }
            print_state();
        } else if (mp == NULL) {
            printf("no-pool | none\n");
        } else if (strcmp(op, "a") == 0) {
            void *p = cmi_mempool_alloc(mp);
            if (nhnds == caphnds) { caphnds = caphnds ? caphnds * 2 : 1024; hnds = realloc(hnds, caphnds * sizeof *hnds); }
            size_t h = nhnds++;
            long c = chunk_of(p);
            if (c < 0 && mp->chunk_list != NULL) {
                /* not in a chunk seen before: take over the chunks the pool has recorded since (the memory it owns) */
                while (nbases < mp->chunk_list_cnt) {
                    char *b = mp->chunk_list[nbases];
                    if (nbases == capbases) { capbases = capbases ? capbases * 2 : 256; bases = realloc(bases, capbases * sizeof *bases); }
                    if (b == NULL || (uintptr_t)b % cmi_pagesize() != 0) printf("PROPERTY chunk %zu does not start on a page boundary\n", nbases);
                    bases[nbases++] = b;
                }
                c = chunk_of(p);
            }
            if (c < 0) {
                /* the pool handed out memory that lies in none of its chunks; go on with it as a pseudo chunk */
                printf("PROPERTY outside handle=%zu is not inside any chunk of the pool\n", h);
                if (nbases == capbases) { capbases = capbases ? capbases * 2 : 256; bases = realloc(bases, capbases * sizeof *bases); }
                bases[nbases] = p;
                c = (long)nbases++;
            }
            size_t off = (size_t)((char *)p - bases[c]);
            /* property monitors on the real pointer */
            if ((uintptr_t)p % 8u != 0) printf("PROPERTY align handle=%zu not 8-byte aligned\n", h);
            if (off + mp->obj_sz > mp->incr_sz) printf("PROPERTY size handle=%zu does not have obj_sz bytes inside its chunk\n", h);
            for (size_t d = 0; d < mp->obj_sz; d += 8u) {
                size_t o;
                if ((o = hget((uintptr_t)p + d)) != 0 || (d > 0 && (o = hget((uintptr_t)p - d)) != 0)) {
                    printf("PROPERTY overlap handle=%zu overlaps live handle=%zu\n", h, o - 1);
                    break;
                }
            }
            hnds[h].p = p;
            hnds[h].seed = 0;
            hnds[h].live = 1;
            nlive++;
            hput((uintptr_t)p, h + 1);
            fill(h);
            printf("ok %zu ", h);
            print_addr(p);
            print_state();
        } else if (strcmp(op, "f") == 0 || strcmp(op, "w") == 0) {
            int m = sscanf(line, "%*s %llu %llu", &x, &y);
            if (m < 1 || x >= nhnds || !hnds[x].live || (op[0] == 'w' && m < 2)) { printf("bad-op"); print_state(); continue; }
            size_t w;
            if (op[0] == 'f') {
                if (!verify((size_t)x, &w)) printf("PROPERTY contents handle=%llu word=%zu changed while allocated\n", x, w);
                hnds[x].live = 0;
                nlive--;
                hput((uintptr_t)hnds[x].p, 0);
                cmi_mempool_free(mp, hnds[x].p);
            } else {
                hnds[x].seed = y;
                fill((size_t)x);
            }
            printf("ok");
            print_state();
        } else if (strcmp(op, "v") == 0) {
            size_t k = verify_all();
            printf("ok %zu", k);
            print_state();
        } else if (strcmp(op, "dump") == 0) {
            uint64_t fl = FNV0;
            size_t k = 0;
            const void *p = mp->next_obj;
            const size_t slots = (size_t)mp->chunk_list_cnt * mp->incr_num;
            while (p != NULL) {
                long c = chunk_of(p);
                /* more free objects than slots: the list is cyclic */
                if (c < 0 || k > slots) { fl = fnv(fl, UINT64_C(999999)); k++; break; }
                fl = fnv(fl, (uint64_t)c);
                fl = fnv(fl, (uint64_t)(((const char *)p - bases[c]) / 8));
                k++;
                p = *(void *const *)p;
            }
            printf("ok %zu %016" PRIx64, k, fl);
            print_state();
        } else if (strcmp(op, "end") == 0) {
            size_t k = verify_all();
            if (kind == 1) cmi_mempool_destroy(mp); else cmi_mempool_cleanup(NULL);
            mp = NULL;
            printf("ok %zu", k);
            print_state();
        } else {
            printf("bad-op");
            print_state();
        }
    }
    return 0;
}
