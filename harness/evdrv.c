/*
 * evdrv - correspondence driver for the event kernel (src/cmb_event.c), observable log (DESIGN.md §4 C01).
 *
 * Input: a script.  "act <id> <n>" introduces the body (next n op lines) of action <id>;
 * "main <n>" the top-level op list.  Every op is self-guarding (it evaluates its documented
 * precondition with the public queries and logs "skip" when it does not hold), so every script is
 * a valid program.  Ops inside an action body run when an event with that action is dispatched.
 *
 *   sched V A S O T P    V: handle variable, A: action id, S/O: subject/object words, T: @abs | +rel, P: priority
 *   cancel V | resched V T | reprio V P | issched V | time V | prio V
 *   pfind A S O | pcount A S O | pcancel A S O      ('*' = wildcard)
 *   clear | next | run | count | cur | now
 */
#include <inttypes.h>
#include <stdio.h>
#include <stdlib.h>
#include <string.h>

#include "cmb_event.h"
#include "cmb_logger.h"

#define MAXACT 8
#define MAXOPS 4096
#define MAXVAR 64
#define EXEC_CAP 3000

struct op { char w[7][32]; int n; };
static struct op body[MAXACT + 1][MAXOPS];   /* index MAXACT = main */
static int blen[MAXACT + 1];
static uint64_t var[MAXVAR];
static int vact[MAXVAR], vs[MAXVAR], vo[MAXVAR];
static long executed = 0;

static void run_ops(int which);

static void generic_action(int id, void *subject, void *object)
{
    const uint64_t h = cmb_event_current();
    printf("exec h=%" PRIu64 " act=%d s=%" PRIu64 " o=%" PRIu64 " now=%" PRId64 "\n", h, id,
           (uint64_t)(uintptr_t)subject, (uint64_t)(uintptr_t)object, (int64_t)cmb_time());
    run_ops(id);
    printf("end cur=%" PRIu64 " now=%" PRId64 "\n", cmb_event_current(), (int64_t)cmb_time());
}

#define ACT(i) static void act##i(void *s, void *o) { generic_action(i, s, o); }
ACT(0) ACT(1) ACT(2) ACT(3) ACT(4) ACT(5) ACT(6) ACT(7)
static cmb_event_func *acts[MAXACT] = { act0, act1, act2, act3, act4, act5, act6, act7 };

static cmb_event_func *pat_act(const char *s) { return (strcmp(s, "*") == 0) ? CMB_ANY_ACTION : acts[atoi(s)]; }
static void *pat_word(const char *s) { return (strcmp(s, "*") == 0) ? CMB_ANY_SUBJECT : (void *)(uintptr_t)strtoull(s, NULL, 10); }

static int parse_time(const char *s, double *t)
{
    const int64_t v = strtoll(s + 1, NULL, 10);
    *t = (s[0] == '+') ? cmb_time() + (double)v : (double)v;
    return 1;
}

static int step_one(void)
{
    if (executed >= EXEC_CAP) { printf("cap\n"); return 0; }
    executed++;
    if (!cmb_event_execute_next()) { printf("next -> empty\n"); return 0; }
    return 1;
}

static void run_ops(int which)
{
    for (int i = 0; i < blen[which]; i++) {
        const struct op *p = &body[which][i];
        const char *o = p->w[0];
        if (strcmp(o, "sched") == 0) {
            const int v = atoi(p->w[1]), a = atoi(p->w[2]);
            double t; parse_time(p->w[5], &t);
            if (t < cmb_time()) { printf("sched v=%d skip\n", v); continue; }
            const int s = atoi(p->w[3]), ob = atoi(p->w[4]);
            var[v] = cmb_event_schedule(acts[a], (void *)(uintptr_t)s, (void *)(uintptr_t)ob, t, strtoll(p->w[6], NULL, 10));
            vact[v] = a; vs[v] = s; vo[v] = ob;
            printf("sched v=%d -> h=%" PRIu64 "\n", v, var[v]);
        }
        else if (strcmp(o, "cancel") == 0) {
            const int v = atoi(p->w[1]);
            if (var[v] == 0u) { printf("cancel v=%d unset\n", v); continue; }
            printf("cancel v=%d -> %d\n", v, (int)cmb_event_cancel(var[v]));
        }
        else if (strcmp(o, "resched") == 0) {
            const int v = atoi(p->w[1]);
            double t; parse_time(p->w[2], &t);
            if (var[v] == 0u || !cmb_event_is_scheduled(var[v]) || t < cmb_time()) { printf("resched v=%d skip\n", v); continue; }
            cmb_event_reschedule(var[v], t);
            printf("resched v=%d ok\n", v);
        }
        else if (strcmp(o, "reprio") == 0) {
            const int v = atoi(p->w[1]);
            if (var[v] == 0u || !cmb_event_is_scheduled(var[v])) { printf("reprio v=%d skip\n", v); continue; }
            cmb_event_reprioritize(var[v], strtoll(p->w[2], NULL, 10));
            printf("reprio v=%d ok\n", v);
        }
        else if (strcmp(o, "issched") == 0) {
            const int v = atoi(p->w[1]);
            if (var[v] == 0u) { printf("issched v=%d unset\n", v); continue; }
            printf("issched v=%d -> %d\n", v, (int)cmb_event_is_scheduled(var[v]));
        }
        else if (strcmp(o, "time") == 0 || strcmp(o, "prio") == 0) {
            const int v = atoi(p->w[1]);
            if (var[v] == 0u || !cmb_event_is_scheduled(var[v])) { printf("%s v=%d skip\n", o, v); continue; }
            if (o[0] == 't') printf("time v=%d -> %" PRId64 "\n", v, (int64_t)cmb_event_time(var[v]));
            else printf("prio v=%d -> %" PRId64 "\n", v, cmb_event_priority(var[v]));
        }
        else if (strcmp(o, "pfind") == 0) {
            const uint64_t h = cmb_event_pattern_find(pat_act(p->w[1]), pat_word(p->w[2]), pat_word(p->w[3]));
            if (h == 0u) { printf("pfind -> none\n"); continue; }
            /* which match is returned is unspecified: log only whether the handle is pending and matches */
            int ok = 0;
            for (int v = 0; v < MAXVAR; v++) {
                if (var[v] == h && cmb_event_is_scheduled(h)
                    && (strcmp(p->w[1], "*") == 0 || atoi(p->w[1]) == vact[v])
                    && (strcmp(p->w[2], "*") == 0 || atoi(p->w[2]) == vs[v])
                    && (strcmp(p->w[3], "*") == 0 || atoi(p->w[3]) == vo[v])) ok = 1;
            }
            /* a handle whose variable was overwritten cannot be checked by variable; accept if still scheduled */
            if (!ok && cmb_event_is_scheduled(h)) {
                int held = 0;
                for (int v = 0; v < MAXVAR; v++) if (var[v] == h) held = 1;
                if (!held) ok = 2;
            }
            printf("pfind -> %s\n", ok ? "found" : "BAD");
        }
        else if (strcmp(o, "pcount") == 0) {
            printf("pcount -> %" PRIu64 "\n", cmb_event_pattern_count(pat_act(p->w[1]), pat_word(p->w[2]), pat_word(p->w[3])));
        }
        else if (strcmp(o, "pcancel") == 0) {
            printf("pcancel -> %" PRIu64 "\n", cmb_event_pattern_cancel(pat_act(p->w[1]), pat_word(p->w[2]), pat_word(p->w[3])));
        }
        else if (strcmp(o, "clear") == 0) { cmb_event_queue_clear(); printf("clear\n"); }
        else if (strcmp(o, "count") == 0) { printf("count -> %" PRIu64 "\n", cmb_event_queue_count()); }
        else if (strcmp(o, "cur") == 0) { printf("cur -> %" PRIu64 "\n", cmb_event_current()); }
        else if (strcmp(o, "now") == 0) { printf("now -> %" PRId64 "\n", (int64_t)cmb_time()); }
        else if (strcmp(o, "next") == 0 && which == MAXACT) { step_one(); }
        else if (strcmp(o, "run") == 0 && which == MAXACT) { while (step_one()) { } }
        else { printf("bad-op %s\n", o); }
    }
}

int main(void)
{
    char line[512];
    int cur = -1, left = 0;
    int64_t start = 0;
    cmb_logger_flags_off(CMB_LOGGER_INFO);
    cmb_logger_flags_off(CMB_LOGGER_WARNING);
    while (fgets(line, sizeof line, stdin) != NULL) {
        char w0[32] = "";
        if (sscanf(line, "%31s", w0) != 1) continue;
        if (left == 0 && strcmp(w0, "start") == 0) { sscanf(line, "%*s %" SCNd64, &start); continue; }
        if (left == 0 && strcmp(w0, "act") == 0) { sscanf(line, "%*s %d %d", &cur, &left); blen[cur] = 0; continue; }
        if (left == 0 && strcmp(w0, "main") == 0) { cur = MAXACT; sscanf(line, "%*s %d", &left); blen[cur] = 0; continue; }
        if (left > 0 && cur >= 0 && blen[cur] < MAXOPS) {
            struct op *p = &body[cur][blen[cur]++];
            p->n = sscanf(line, "%31s %31s %31s %31s %31s %31s %31s", p->w[0], p->w[1], p->w[2], p->w[3], p->w[4], p->w[5], p->w[6]);
            left--;
        }
    }
    cmb_event_queue_initialize((double)start);
    run_ops(MAXACT);
    printf("final count=%" PRIu64 " now=%" PRId64 "\n", cmb_event_queue_count(), (int64_t)cmb_time());
    cmb_event_queue_terminate();
    return 0;
}
