/*
 * ctxdrv - correspondence driver and dynamic probes for C03 (context switch, coroutine bookkeeping),
 * see DESIGN.md §4 C03 and tools/props/C03.py.  In-process against the library built from /repo's
 * current working tree; linked with harness/ctxprobe.asm (assembled by the check).
 *
 *   ctxdrv frame               frame-image correspondence: cmi_coroutine_context_init on pattern-filled stacks,
 *                              the 80 bytes below stack_base dumped as words
 *   ctxdrv entry               first entry / return-to-exit observed at instruction level through asm shims
 *   ctxdrv script  < script    bookkeeping correspondence, same line protocol as Drivers/CtxMain `script`
 *   ctxdrv yieldprobe SEED N   callee-saved registers + MXCSR across cmi_coroutine_yield at call depths 0..64
 *   ctxdrv roundtrip < files   direct double switch on given register files (ctx_roundtrip)
 */
#include <inttypes.h>
#include <stdio.h>
#include <stdlib.h>
#include <string.h>

#include "cmi_coroutine.h"

extern void cmi_coroutine_context_init(struct cmi_coroutine *cp);
extern void cmi_coroutine_trampoline(void);

extern void ctx_roundtrip(const uint64_t *in, uint64_t *out, void *other_stack_top);
extern void ctx_probe_call(const uint64_t *in, uint64_t *out, void (*fn)(uint64_t), uint64_t arg);
extern void *ctx_entry_shim(struct cmi_coroutine *cp, void *context);
extern void ctx_exit_shim(void *retval);
extern uint64_t ctx_entry_rec[8];
extern uint64_t ctx_exit_rec[4];
extern void *(*ctx_entry_target)(struct cmi_coroutine *, void *);
extern void (*ctx_exit_target)(void *);

#define STACK_SIZE (64u * 1024u)

static uint64_t splitmix(uint64_t *s)
{
    uint64_t z = (*s += UINT64_C(0x9e3779b97f4a7c15));
    z = (z ^ (z >> 30)) * UINT64_C(0xbf58476d1ce4e5b9);
    z = (z ^ (z >> 27)) * UINT64_C(0x94d049bb133111eb);
    return z ^ (z >> 31);
}

/* ---------------------------------------------------------------------------------------------- frame */

static void *dummy_fn(struct cmi_coroutine *cp, void *ctx) { (void)cp; return ctx; }
static void custom_exit(void *v) { cmi_coroutine_exit(v); }

static int mode_frame(void)
{
    /* stack sizes chosen so that stack + size is 16-aligned, 8 off, and odd (the alignment loop runs) */
    const size_t sizes[] = { 4096u, 4096u + 8u, 4096u + 3u, 16384u + 13u, 1024u + 15u, 24u * 1024u };
    for (unsigned i = 0; i < sizeof(sizes) / sizeof(sizes[0]); i++) {
        for (int custom = 0; custom < 2; custom++) {
            struct cmi_coroutine *cp = cmi_coroutine_create();
            void *ctx = (void *)(uintptr_t)(0xc0ffee00u + i * 2u + (unsigned)custom);
            cmi_coroutine_initialize(cp, dummy_fn, ctx, custom ? custom_exit : NULL, sizes[i]);
            memset(cp->stack, 0xa5, sizes[i]);
            cmi_coroutine_context_init(cp);
            const uintptr_t base = (uintptr_t)cp->stack_base;
            printf("frame tramp=%" PRIx64 " fn=%" PRIx64 " cp=%" PRIx64 " ctx=%" PRIx64 " exitf=%" PRIx64
                   " base=%" PRIx64 " sp=%" PRIx64 " basealign=%u limit=%" PRIx64 " stackend=%" PRIx64 " words",
                   (uint64_t)(uintptr_t)cmi_coroutine_trampoline, (uint64_t)(uintptr_t)dummy_fn,
                   (uint64_t)(uintptr_t)cp, (uint64_t)(uintptr_t)ctx,
                   (uint64_t)(uintptr_t)(custom ? custom_exit : cmi_coroutine_exit), (uint64_t)base,
                   (uint64_t)(uintptr_t)cp->stack_pointer, (unsigned)(base % 16u),
                   *(uint64_t *)cp->stack_limit, (uint64_t)(uintptr_t)(cp->stack + sizes[i]));
            for (int k = 10; k >= 1; k--) {
                uint64_t w;
                memcpy(&w, (unsigned char *)base - 8 * k, 8);
                printf(" %" PRIx64, w);
            }
            printf("\n");
            cmi_coroutine_terminate(cp);
            cmi_coroutine_destroy(cp);
        }
    }
    return 0;
}

/* ---------------------------------------------------------------------------------------------- entry */

static struct cmi_coroutine *entry_cp;

static void *entry_body(struct cmi_coroutine *cp, void *ctx)
{
    (void)cp;
    /* give the value back by returning: trampoline -> exit shim -> cmi_coroutine_exit */
    return (void *)((uintptr_t)ctx + 1u);
}

static int mode_entry(void)
{
    ctx_entry_target = entry_body;
    ctx_exit_target = cmi_coroutine_exit;
    for (int i = 0; i < 4; i++) {
        entry_cp = cmi_coroutine_create();
        void *ctx = (void *)(uintptr_t)(0x5eed0000u + (unsigned)i);
        cmi_coroutine_initialize(entry_cp, ctx_entry_shim, ctx, ctx_exit_shim, STACK_SIZE + (size_t)i * 5u);
        memset(ctx_entry_rec, 0, 8 * sizeof(uint64_t));
        memset(ctx_exit_rec, 0, 4 * sizeof(uint64_t));
        void *r = cmi_coroutine_start(entry_cp, (void *)(uintptr_t)0x77u);
        printf("entry tramp=%" PRIx64 " fn=%" PRIx64 " cp=%" PRIx64 " ctx=%" PRIx64 " exitf=%" PRIx64 " base=%" PRIx64
               " | rsp=%" PRIx64 " rdi=%" PRIx64 " rsi=%" PRIx64 " mxcsr=%" PRIx64 " df=%u ret=%" PRIx64
               " rbp=%" PRIx64 " r15=%" PRIx64 " | exit_rsp=%" PRIx64 " exit_rdi=%" PRIx64
               " | start_returned=%" PRIx64 " status=%d exit_value=%" PRIx64 "\n",
               (uint64_t)(uintptr_t)cmi_coroutine_trampoline, (uint64_t)(uintptr_t)ctx_entry_shim,
               (uint64_t)(uintptr_t)entry_cp, (uint64_t)(uintptr_t)ctx, (uint64_t)(uintptr_t)ctx_exit_shim,
               (uint64_t)(uintptr_t)entry_cp->stack_base,
               ctx_entry_rec[0], ctx_entry_rec[1], ctx_entry_rec[2], ctx_entry_rec[3],
               (unsigned)((ctx_entry_rec[4] >> 10) & 1u), ctx_entry_rec[5], ctx_entry_rec[6], ctx_entry_rec[7],
               ctx_exit_rec[0], ctx_exit_rec[1], (uint64_t)(uintptr_t)r, (int)entry_cp->status,
               (uint64_t)(uintptr_t)entry_cp->exit_value);
    }
    return 0;
}

/* --------------------------------------------------------------------------------------------- script */

#define MAXCO 16
#define MAXOPS 100000

enum opk { O_CREATE, O_START, O_RESUME, O_TRANSFER, O_YIELD, O_EXIT, O_RET, O_STOP, O_RESET };
struct op { enum opk k; unsigned c; uint64_t v; unsigned depth; };

static struct op *ops;
static size_t nops, pc;
static unsigned nco = 1;
static struct cmi_coroutine *co[MAXCO];

static int idof(const struct cmi_coroutine *cp)
{
    if (cp == NULL) return -1;
    for (unsigned i = 0; i < nco; i++) {
        if (co[i] == cp) return (int)i;
    }
    return -2;
}

static void print_state(void)
{
    printf(" | cur=%d |", idof(cmi_coroutine_current()));
    for (unsigned i = 0; i < nco; i++) {
        if (co[i] == NULL) {
            printf(" %u:0,0,-,-", i);
            continue;
        }
        char par[16], cal[16];
        const int p = idof(co[i]->parent), c = idof(co[i]->caller);
        if (p == -1) strcpy(par, "-"); else snprintf(par, sizeof par, "%d", p);
        if (c == -1) strcpy(cal, "-"); else snprintf(cal, sizeof cal, "%d", c);
        printf(" %u:%d,%" PRIu64 ",%s,%s", i, (int)co[i]->status, (uint64_t)(uintptr_t)co[i]->exit_value, par, cal);
    }
    printf("\n");
    fflush(stdout);
}

static void script_exit(void *v) { cmi_coroutine_exit(v); }

struct outcome { int returned; uint64_t v; };

static void *body(struct cmi_coroutine *cp, void *ctx);

/* issue the switching call at recursion depth d; what is on this coroutine's stack (`at`, the pad) has to be
 * intact when control comes back, possibly much later and after the other coroutines used their own stacks */
static __attribute__((noinline)) uint64_t switch_at_depth(unsigned d, const struct op *o, size_t at)
{
    volatile uint64_t pad[3];
    pad[0] = at ^ UINT64_C(0x5a5a5a5a5a5a5a5a);
    pad[1] = d;
    uint64_t r;
    if (d > 0) {
        r = switch_at_depth(d - 1, o, at);
    }
    else {
        void *ret = NULL;
        switch (o->k) {
        case O_START: ret = cmi_coroutine_start(co[o->c], (void *)(uintptr_t)o->v); break;
        case O_RESUME: ret = cmi_coroutine_resume(co[o->c], (void *)(uintptr_t)o->v); break;
        case O_TRANSFER: ret = cmi_coroutine_transfer(co[o->c], (void *)(uintptr_t)o->v); break;
        case O_YIELD: ret = cmi_coroutine_yield((void *)(uintptr_t)o->v); break;
        default: abort();
        }
        r = (uint64_t)(uintptr_t)ret;
    }
    if (pad[0] != (at ^ UINT64_C(0x5a5a5a5a5a5a5a5a)) || pad[1] != d) {
        printf("STACK-CORRUPTED at=%zu depth=%u\n", at, d);
        fflush(stdout);
        abort();
    }
    return r;
}

/* executes operations as long as this coroutine has control; returns when the script is exhausted (main) or when
 * the coroutine function is to return a value */
static struct outcome run_ops(void)
{
    struct outcome oc = { 0, 0 };
    while (pc < nops) {
        const size_t at = pc++;
        const struct op *o = &ops[at];
        switch (o->k) {
        case O_CREATE:
            if (co[o->c] == NULL) {
                co[o->c] = cmi_coroutine_create();
            }
            else if (co[o->c]->stack != NULL) {
                cmi_coroutine_terminate(co[o->c]);
            }
            cmi_coroutine_initialize(co[o->c], body, (void *)(uintptr_t)o->v,
                                     (o->c % 2u) ? script_exit : NULL, STACK_SIZE + 8u * o->c);
            printf("none");
            print_state();
            break;
        case O_START: case O_RESUME: case O_TRANSFER: case O_YIELD: {
            const uint64_t r = switch_at_depth(o->depth, o, at);
            /* control is back in this coroutine: the call issued at `at` returns r */
            printf("deliver %d %" PRIu64 " %zu", idof(cmi_coroutine_current()), r, at);
            print_state();
            break;
        }
        case O_EXIT:
            cmi_coroutine_exit((void *)(uintptr_t)o->v);
            printf("EXIT-RETURNED\n");
            abort();
        case O_RET:
            oc.returned = 1;
            oc.v = o->v;
            return oc;
        case O_STOP:
            cmi_coroutine_stop(co[o->c], (void *)(uintptr_t)o->v);
            printf("none");
            print_state();
            break;
        case O_RESET:
            cmi_coroutine_reset(co[o->c]);
            printf("none");
            print_state();
            break;
        }
    }
    return oc;
}

static void *body(struct cmi_coroutine *cp, void *ctx)
{
    printf("enter %d %" PRIu64, idof(cp), (uint64_t)(uintptr_t)ctx);
    print_state();
    const struct outcome oc = run_ops();
    if (!oc.returned) {
        /* script exhausted while a coroutine has control: the generator never does that */
        printf("SCRIPT-ENDED-IN-COROUTINE\n");
        fflush(stdout);
        exit(3);
    }
    return (void *)(uintptr_t)oc.v;
}

static int mode_script(void)
{
    ops = malloc(sizeof(*ops) * MAXOPS);
    char line[256];
    while (fgets(line, sizeof line, stdin) != NULL) {
        char w[32];
        unsigned long long a = 0, b = 0;
        unsigned depth = 0;
        char *at = strchr(line, '@');
        if (at != NULL) {
            depth = (unsigned)strtoul(at + 1, NULL, 10);
            *at = '\0';
        }
        const int n = sscanf(line, "%31s %llu %llu", w, &a, &b);
        if (n < 1 || w[0] == '#') continue;
        if (strcmp(w, "n") == 0) { nco = (unsigned)a; continue; }
        if (nops >= MAXOPS) break;
        struct op *o = &ops[nops++];
        o->depth = depth;
        o->c = (unsigned)a;
        o->v = b;
        if (strcmp(w, "create") == 0) o->k = O_CREATE;
        else if (strcmp(w, "start") == 0) o->k = O_START;
        else if (strcmp(w, "resume") == 0) o->k = O_RESUME;
        else if (strcmp(w, "transfer") == 0) o->k = O_TRANSFER;
        else if (strcmp(w, "yield") == 0) { o->k = O_YIELD; o->v = a; }
        else if (strcmp(w, "exit") == 0) { o->k = O_EXIT; o->v = a; }
        else if (strcmp(w, "ret") == 0) { o->k = O_RET; o->v = a; }
        else if (strcmp(w, "stop") == 0) o->k = O_STOP;
        else if (strcmp(w, "reset") == 0) o->k = O_RESET;
        else { printf("bad-op %s\n", w); return 2; }
        if (o->k != O_YIELD && o->k != O_EXIT && o->k != O_RET && o->c >= MAXCO) { printf("bad-id\n"); return 2; }
    }
    /* make the main coroutine exist (cmi_coroutine_initialize creates it on first use) */
    struct cmi_coroutine *dummy = cmi_coroutine_create();
    cmi_coroutine_initialize(dummy, body, NULL, NULL, 4096u);
    co[0] = cmi_coroutine_main();
    const struct outcome oc = run_ops();
    if (oc.returned) { printf("MAIN-RETURNED\n"); return 3; }
    if (cmi_coroutine_current() != cmi_coroutine_main()) { printf("ENDED-OUTSIDE-MAIN\n"); return 3; }
    printf("end\n");
    return 0;
}

/* ----------------------------------------------------------------------------------------- yieldprobe */

#define NPROBE 3
static uint64_t probe_seed;
static unsigned probe_bad, probe_checked;
static uint64_t yield_token, yield_got;

static __attribute__((noinline)) void deep_yield(uint64_t d)
{
    volatile unsigned char pad[40];
    pad[0] = (unsigned char)d;
    if (d == 0) {
        yield_got = (uint64_t)(uintptr_t)cmi_coroutine_yield((void *)(uintptr_t)yield_token);
    }
    else {
        deep_yield(d - 1);
    }
    pad[1] = pad[0];
}

static const char *const regname[7] = { "rbx", "rbp", "r12", "r13", "r14", "r15", "mxcsr" };

static void fill_pattern(uint64_t *in, uint64_t *s)
{
    for (int i = 0; i < 6; i++) in[i] = splitmix(s);
    /* rounding mode, exception masks, FZ, DAZ; status flags clear */
    in[6] = splitmix(s) & UINT64_C(0xffc0);
}

static void check_pattern(const char *who, unsigned idx, uint64_t depth, const uint64_t *in, const uint64_t *out)
{
    for (int i = 0; i < 7; i++) {
        const uint64_t a = in[i], b = (i == 6) ? (out[i] & UINT64_C(0xffc0)) : out[i];
        probe_checked++;
        if (a != b) {
            probe_bad++;
            printf("MISMATCH %s=%u depth=%" PRIu64 " reg=%s before=%" PRIx64 " after=%" PRIx64 "\n",
                   who, idx, depth, regname[i], a, b);
        }
    }
}

static void *probe_body(struct cmi_coroutine *cp, void *ctx)
{
    (void)cp;
    const unsigned me = (unsigned)(uintptr_t)ctx;
    uint64_t s = probe_seed * 1000003u + me;
    for (uint64_t depth = 0; depth <= 64; depth++) {
        uint64_t in[7], out[7];
        fill_pattern(in, &s);
        const uint64_t tok = splitmix(&s);
        yield_token = tok;
        ctx_probe_call(in, out, deep_yield, depth);
        check_pattern("co", me, depth, in, out);
        /* the value main handed to resume is what yield returned */
        probe_checked++;
        if (yield_got != (tok ^ UINT64_C(0xffff))) {
            probe_bad++;
            printf("MISMATCH co=%u depth=%" PRIu64 " yield returned %" PRIx64 " expected %" PRIx64 "\n",
                   me, depth, yield_got, tok ^ UINT64_C(0xffff));
        }
    }
    return NULL;
}

static struct cmi_coroutine *probe_co[NPROBE];
static uint64_t resume_got;
static uint64_t resume_msg;

static void do_resume(uint64_t which)
{
    resume_got = (uint64_t)(uintptr_t)cmi_coroutine_resume(probe_co[which], (void *)(uintptr_t)resume_msg);
}

static int mode_yieldprobe(uint64_t seed)
{
    probe_seed = seed;
    uint64_t s = seed ^ UINT64_C(0xabcdef);
    uint64_t last_token[NPROBE];
    for (unsigned i = 0; i < NPROBE; i++) {
        probe_co[i] = cmi_coroutine_create();
        cmi_coroutine_initialize(probe_co[i], probe_body, (void *)(uintptr_t)i, NULL, 256u * 1024u);
        last_token[i] = (uint64_t)(uintptr_t)cmi_coroutine_start(probe_co[i], NULL);
    }
    unsigned alive = NPROBE;
    while (alive > 0) {
        const unsigned i = (unsigned)(splitmix(&s) % NPROBE);
        if (cmi_coroutine_status(probe_co[i]) != CMI_COROUTINE_RUNNING) continue;
        uint64_t in[7], out[7];
        fill_pattern(in, &s);
        resume_msg = last_token[i] ^ UINT64_C(0xffff);
        /* the dispatcher's own context (main stack) carries a pattern across the resume as well */
        ctx_probe_call(in, out, do_resume, i);
        check_pattern("main-resuming", i, 0, in, out);
        last_token[i] = resume_got;
        if (cmi_coroutine_status(probe_co[i]) != CMI_COROUTINE_RUNNING) alive--;
    }
    printf("yieldprobe seed=%" PRIu64 " checked=%u bad=%u\n", seed, probe_checked, probe_bad);
    return probe_bad ? 1 : 0;
}

/* ------------------------------------------------------------------------------------------ roundtrip */

static int mode_roundtrip(void)
{
    unsigned char *stk = aligned_alloc(16, 65536);
    char line[512];
    while (fgets(line, sizeof line, stdin) != NULL) {
        uint64_t in[10], out[12];
        memset(out, 0, sizeof out);
        char *p = line;
        int n = 0;
        while (n < 10) {
            char *e;
            const unsigned long long v = strtoull(p, &e, 16);
            if (e == p) break;
            in[n++] = v;
            p = e;
        }
        if (n < 10) continue;
        in[6] &= UINT64_C(0xffc0);
        in[7] = (in[7] & UINT64_C(0xcd5)) | 2u;
        memset(stk, 0x5a, 65536);
        ctx_roundtrip(in, out, stk + 65536);
        printf("rt");
        for (int i = 0; i < 11; i++) printf(" %" PRIx64, out[i]);
        printf("\n");
        fflush(stdout);
    }
    return 0;
}

int main(int argc, char **argv)
{
    if (argc < 2) return 2;
    if (strcmp(argv[1], "frame") == 0) return mode_frame();
    if (strcmp(argv[1], "entry") == 0) return mode_entry();
    if (strcmp(argv[1], "script") == 0) return mode_script();
    if (strcmp(argv[1], "yieldprobe") == 0) return mode_yieldprobe(argc > 2 ? strtoull(argv[2], NULL, 10) : 1);
    if (strcmp(argv[1], "roundtrip") == 0) return mode_roundtrip();
    return 2;
}
