/*
 * statdrv2 - correspondence driver for C18 (sorting, copies, medians, five-number summaries,
 * histograms, autocorrelation) of src/cmb_dataset.c and src/cmb_timeseries.c, DESIGN.md §2.3.
 *
 * Reads one operation per line on stdin, performs it on the real library (built from the current
 * working tree), prints one canonical result line and flushes.  Same protocol as
 * lean/Drivers/Stat2Main.lean.  Numbers on input are `p` or `p/q` (exact in double by
 * construction of the generators); doubles are printed with %.17g (round-trip exact).
 *
 * Values that the library only prints are taken from the print-out:
 *   - five-number summaries: the five "%#8.4g" fields of *_fivenum_print, reported verbatim;
 *   - histograms: *_histogram_print is run for real; the `struct cmi_dataset_histogram` it builds
 *     is captured at the moment the library frees it (the harness is linked with
 *     -Wl,--wrap=malloc,--wrap=free; nothing in the library is changed or recompiled).
 */
#include <inttypes.h>
#include <stdio.h>
#include <stdlib.h>
#include <string.h>
#include <unistd.h>

#include "cmb_dataset.h"
#include "cmb_timeseries.h"
#include "cmi_dataset.h"

/* ---- capture of the histogram structure built inside *_histogram_print ------------------- */

extern void *__real_malloc(size_t n);
extern void __real_free(void *p);

static int cap_on = 0;
static struct cmi_dataset_histogram *cap_hp = NULL;
static struct cmi_dataset_histogram cap_snap;
static double *cap_bins = NULL;
static int cap_valid = 0;

void *__wrap_malloc(size_t n)
{
    void *p = __real_malloc(n);
    if (cap_on && (cap_hp == NULL) && (n == sizeof(struct cmi_dataset_histogram))) {
        cap_hp = p;
    }
    return p;
}

void __wrap_free(void *p)
{
    if (cap_on && (cap_hp != NULL) && !cap_valid && (p != NULL) && (p == (void *)cap_hp->hbins)) {
        cap_snap = *cap_hp;
        cap_bins = __real_malloc(cap_snap.num_bins * sizeof(double));
        memcpy(cap_bins, cap_hp->hbins, cap_snap.num_bins * sizeof(double));
        cap_valid = 1;
    }
    __real_free(p);
}

/* ---- helpers ---------------------------------------------------------------------------------- */

static double parse_num(const char *s)
{
    char *end = NULL;
    const double p = strtod(s, &end);
    if (*end == '/') {
        const double q = strtod(end + 1, NULL);
        return p / q;
    }
    return p;
}

static void pd(double x) { printf("%.17g", x); }

static void head(const char *tag, const struct cmb_dataset *d)
{
    printf("%s count=%" PRIu64 " cursize=%" PRIu64, tag, d->count, d->cursize);
    if (d->count == 0u) {
        printf(" min=none max=none");
    }
    else {
        printf(" min=");
        pd(d->min);
        printf(" max=");
        pd(d->max);
    }
}

static void samples(const struct cmb_dataset *d)
{
    for (uint64_t i = 0; i < d->count; i++) {
        printf(" ");
        pd(d->xa[i]);
    }
}

static void triples(const struct cmb_timeseries *t)
{
    const struct cmb_dataset *d = (const struct cmb_dataset *)t;
    for (uint64_t i = 0; i < d->count; i++) {
        printf(" ");
        pd(d->xa[i]);
        printf(":");
        pd(t->ta[i]);
        printf(":");
        pd(t->wa[i]);
    }
}

static void report_hist(const char *tag)
{
    if (!cap_valid) {
        printf("%s nocapture\n", tag);
        return;
    }
    printf("%s nb=%u lo=", tag, cap_snap.num_bins - 2u);
    pd(cap_snap.low_lim);
    printf(" hi=");
    pd(cap_snap.high_lim);
    printf(" binsize=");
    pd(cap_snap.binsize);
    printf(" bins=");
    for (unsigned i = 0; i < cap_snap.num_bins; i++) {
        if (i > 0) printf(" ");
        pd(cap_bins[i]);
    }
    printf("\n");
    __real_free(cap_bins);
    cap_bins = NULL;
}

static void cap_begin(void) { cap_on = 1; cap_hp = NULL; cap_valid = 0; }
static void cap_end(void) { cap_on = 0; }

/* print the five fields of a "%#8.4g\t..." line verbatim */
static void report_five(const char *tag, char *buf)
{
    printf("%s", tag);
    int n = 0;
    for (char *tok = strtok(buf, " \t\n"); tok != NULL; tok = strtok(NULL, " \t\n")) {
        printf(" %s", tok);
        n++;
    }
    if (n != 5) printf(" <%d fields>", n);
    printf("\n");
}

#define MAXTOK 200000
#define OP_TIME_LIMIT_S 4

int main(void)
{
    static char line[4000000];
    static char *tok[MAXTOK];
    struct cmb_dataset ds, cp;
    struct cmb_timeseries ts, tcp;
    memset(&cp, 0, sizeof cp);
    memset(&tcp, 0, sizeof tcp);
    cmb_dataset_initialize(&ds);
    cmb_dataset_initialize(&cp);
    cmb_timeseries_initialize(&ts);
    cmb_timeseries_initialize(&tcp);

    while (fgets(line, sizeof line, stdin) != NULL) {
        int nt = 0;
        for (char *t = strtok(line, " \t\r\n"); t != NULL && nt < MAXTOK; t = strtok(NULL, " \t\r\n")) {
            tok[nt++] = t;
        }
        if (nt == 0) continue;
        const char *op = tok[0];
        alarm(OP_TIME_LIMIT_S);     /* an operation that does not come back is killed (SIGALRM) */

        if (strcmp(op, "cfg") == 0) {
            printf("cfg %u\n", (unsigned)CMI_DATASET_INIT_SZ);
        }
        else if (strcmp(op, "ds") == 0) {
            cmb_dataset_reset(&ds);
            cmb_dataset_reset(&cp);
            printf("ds\n");
        }
        else if (strcmp(op, "add") == 0) {
            for (int i = 1; i < nt; i++) cmb_dataset_add(&ds, parse_num(tok[i]));
            head("add", &ds);
            printf("\n");
        }
        else if (strcmp(op, "dump") == 0) {
            printf("dump");
            samples(&ds);
            printf("\n");
        }
        else if (strcmp(op, "sort") == 0) {
            cmb_dataset_sort(&ds);
            printf("sort");
            samples(&ds);
            printf("\n");
        }
        else if (strcmp(op, "copy") == 0) {
            cmb_dataset_copy(&cp, &ds);
            head("copy", &cp);
            printf(" |");
            samples(&cp);
            printf("\n");
        }
        else if (strcmp(op, "copyadd") == 0) {
            for (int i = 1; i < nt; i++) cmb_dataset_add(&cp, parse_num(tok[i]));
            head("copyadd", &cp);
            printf(" |");
            samples(&cp);
            printf("\n");
        }
        else if (strcmp(op, "median") == 0) {
            const double m = cmb_dataset_median(&ds);
            printf("median ");
            pd(m);
            printf("\n");
        }
        else if (strcmp(op, "fivenum") == 0 || strcmp(op, "tfivenum") == 0) {
            char *buf = NULL;
            size_t len = 0;
            FILE *mf = open_memstream(&buf, &len);
            if (op[0] == 't') cmb_timeseries_fivenum_print(&ts, mf, false);
            else cmb_dataset_fivenum_print(&ds, mf, false);
            fclose(mf);
            report_five(op, buf);
            free(buf);
        }
        else if ((strcmp(op, "hist") == 0 || strcmp(op, "thist") == 0) && nt == 4) {
            /* the picture itself is not compared: it goes to /dev/null (unbounded if the bar scale is 0) */
            FILE *mf = fopen("/dev/null", "w");
            const unsigned nb = (unsigned)strtoul(tok[1], NULL, 10);
            cap_begin();
            if (op[0] == 't') cmb_timeseries_histogram_print(&ts, mf, (uint16_t)nb, parse_num(tok[2]), parse_num(tok[3]));
            else cmb_dataset_histogram_print(&ds, mf, nb, parse_num(tok[2]), parse_num(tok[3]));
            cap_end();
            fclose(mf);
            report_hist(op);
        }
        else if ((strcmp(op, "acf") == 0 || strcmp(op, "tacf") == 0) && nt == 2) {
            const unsigned n = (unsigned)strtoul(tok[1], NULL, 10);
            double *a = malloc((n + 1u) * sizeof(double));
            if (op[0] == 't') cmb_timeseries_ACF(&ts, (uint16_t)n, a);
            else cmb_dataset_ACF(&ds, n, a);
            printf("%s", op);
            for (unsigned i = 0; i <= n; i++) {
                printf(" ");
                pd(a[i]);
            }
            printf("\n");
            free(a);
        }
        else if (strcmp(op, "acfrel") == 0 && nt == 4) {
            /* ACF of the samples and of scale * x + shift (a second, real dataset) */
            const unsigned n = (unsigned)strtoul(tok[1], NULL, 10);
            const double scale = parse_num(tok[2]);
            const double shift = parse_num(tok[3]);
            struct cmb_dataset d2;
            cmb_dataset_initialize(&d2);
            for (uint64_t i = 0; i < ds.count; i++) cmb_dataset_add(&d2, ds.xa[i] * scale + shift);
            double *a = malloc((n + 1u) * sizeof(double));
            double *b = malloc((n + 1u) * sizeof(double));
            cmb_dataset_ACF(&ds, n, a);
            cmb_dataset_ACF(&d2, n, b);
            printf("acfrel");
            for (unsigned i = 0; i <= n; i++) { printf(" "); pd(a[i]); }
            printf(" |");
            for (unsigned i = 0; i <= n; i++) { printf(" "); pd(b[i]); }
            printf("\n");
            free(a);
            free(b);
            cmb_dataset_terminate(&d2);
        }
        else if (strcmp(op, "corr") == 0 && nt == 2) {
            const unsigned n = (unsigned)strtoul(tok[1], NULL, 10);
            char *buf = NULL;
            size_t len = 0;
            FILE *mf = open_memstream(&buf, &len);
            cmb_dataset_correlogram_print(&ds, mf, n, NULL);
            fclose(mf);
            free(buf);
            printf("corr ok\n");
        }
        else if (strcmp(op, "ts") == 0) {
            cmb_timeseries_reset(&ts);
            cmb_timeseries_reset(&tcp);
            printf("ts\n");
        }
        else if (strcmp(op, "tadd") == 0) {
            for (int i = 1; i + 1 < nt; i += 2) cmb_timeseries_add(&ts, parse_num(tok[i]), parse_num(tok[i + 1]));
            head("tadd", (struct cmb_dataset *)&ts);
            printf("\n");
        }
        else if (strcmp(op, "tfin") == 0 && nt == 2) {
            cmb_timeseries_finalize(&ts, parse_num(tok[1]));
            head("tfin", (struct cmb_dataset *)&ts);
            printf("\n");
        }
        else if (strcmp(op, "tdump") == 0) {
            printf("tdump");
            triples(&ts);
            printf("\n");
        }
        else if (strcmp(op, "tsortx") == 0) {
            cmb_timeseries_sort_x(&ts);
            printf("tsortx");
            triples(&ts);
            printf("\n");
        }
        else if (strcmp(op, "tsortt") == 0) {
            cmb_timeseries_sort_t(&ts);
            printf("tsortt");
            triples(&ts);
            printf("\n");
        }
        else if (strcmp(op, "tcopy") == 0) {
            cmb_timeseries_copy(&tcp, &ts);
            head("tcopy", (struct cmb_dataset *)&tcp);
            printf(" |");
            triples(&tcp);
            printf("\n");
        }
        else if (strcmp(op, "tcopyadd") == 0) {
            for (int i = 1; i + 1 < nt; i += 2) cmb_timeseries_add(&tcp, parse_num(tok[i]), parse_num(tok[i + 1]));
            head("tcopyadd", (struct cmb_dataset *)&tcp);
            printf(" |");
            triples(&tcp);
            printf("\n");
        }
        else if (strcmp(op, "tmedian") == 0) {
            const double m = cmb_timeseries_median(&ts);
            printf("tmedian ");
            pd(m);
            printf("\n");
        }
        else {
            printf("bad-op\n");
        }
        fflush(stdout);
    }
    return 0;
}
