/*
 * distdrv - driver for property C16 (every sampler stays inside its support and follows its distribution).
 * In-process against the library built from the current working tree.
 *
 *   distdrv corr     line protocol of lean/Drivers/DistMain.lean (doubles as IEEE bit patterns, hex16):
 *       gboost <seed> <shape>  (see Drivers/GammaMain.lean) |
 *       seed <u64> | unit <N> | flip <N> | stdexp <N> | geom <N> <p> | dice <N> <a> <b> | bern <N> <p> | binom <N> <n> <p> |
 *       loaded <N> <p...> | alias <N> <p...>      -> one line per operation (alias: the table, then the samples)
 *   distdrv supp     support scan, summary only:
 *       supp <name> <N> <seed> <lo> <hi> <flags> <params...>     flags: i = integer valued, o = lo excluded, c = hi excluded
 *         -> supp <name> n=<N> bad=<count> first=<index>:<value bits> nonfinite=<count> min=<bits> max=<bits>
 *   distdrv stat     samples for the statistical tier:
 *       stat <name> <N> <seed> <params...>   -> "stat <name> <N>\n" followed by N raw doubles (integers converted)
 *   distdrv (any mode), far-tail statistics:
 *       tail <name> <N> <seed> <r> <t1> ... <tk>   name = std_normal | std_exponential (or a parameterless sampler)
 *         -> tail <name> n=<N> sum=<sum of |x| - r over |x| > r> sumsq=<sum of squares> counts <#|x|>r> <#|x|>t1> ...
 *   Parameters of `supp` / `stat` are decimal (strtod) or 0x<16 hex digits> bit patterns.
 */
#define _GNU_SOURCE
#include <inttypes.h>
#include <math.h>
#include <stdio.h>
#include <stdlib.h>
#include <string.h>

#include "cmb_random.h"

#define MAXP 80

static uint64_t dbits(double d) { uint64_t u; memcpy(&u, &d, sizeof u); return u; }
static double bitsd(uint64_t u) { double d; memcpy(&d, &u, sizeof d); return d; }

/* one sample of the named distribution as a double; returns 0 if the name is unknown */
static int sample(const char *name, int np, const double *p, double *res, struct cmb_random_alias **alias)
{
    const unsigned u0 = (np > 0) ? (unsigned)p[0] : 0u;
#define D(nm, need, call) if (strcmp(name, nm) == 0) { if (np < (need)) return 0; *res = (call); return 1; }
#define I(nm, need, call) if (strcmp(name, nm) == 0) { if (np < (need)) return 0; *res = (double)(call); return 1; }
    D("random", 0, cmb_random())
    D("uniform", 2, cmb_random_uniform(p[0], p[1]))
    D("triangular", 3, cmb_random_triangular(p[0], p[1], p[2]))
    D("std_normal", 0, cmb_random_std_normal())
    D("normal", 2, cmb_random_normal(p[0], p[1]))
    D("lognormal", 2, cmb_random_lognormal(p[0], p[1]))
    D("logistic", 2, cmb_random_logistic(p[0], p[1]))
    D("cauchy", 2, cmb_random_cauchy(p[0], p[1]))
    D("std_exponential", 0, cmb_random_std_exponential())
    D("exponential", 1, cmb_random_exponential(p[0]))
    D("erlang", 2, cmb_random_erlang(u0, p[1]))
    D("hypoexponential", 1, cmb_random_hypoexponential((unsigned)np, p))
    D("hyperexponential", 2, cmb_random_hyperexponential((unsigned)(np / 2), p, p + np / 2))
    D("std_gamma", 1, cmb_random_std_gamma(p[0]))
    D("gamma", 2, cmb_random_gamma(p[0], p[1]))
    D("std_beta", 2, cmb_random_std_beta(p[0], p[1]))
    D("beta", 4, cmb_random_beta(p[0], p[1], p[2], p[3]))
    D("PERT", 3, cmb_random_PERT(p[0], p[1], p[2]))
    D("PERT_mod", 4, cmb_random_PERT_mod(p[0], p[1], p[2], p[3]))
    D("weibull", 2, cmb_random_weibull(p[0], p[1]))
    D("pareto", 2, cmb_random_pareto(p[0], p[1]))
    D("chisquared", 1, cmb_random_chisquared(p[0]))
    D("F_dist", 2, cmb_random_F_dist(p[0], p[1]))
    D("std_t_dist", 1, cmb_random_std_t_dist(p[0]))
    D("t_dist", 3, cmb_random_t_dist(p[0], p[1], p[2]))
    D("rayleigh", 1, cmb_random_rayleigh(p[0]))
    I("flip", 0, cmb_random_flip())
    I("bernoulli", 1, cmb_random_bernoulli(p[0]))
    I("geometric", 1, cmb_random_geometric(p[0]))
    I("binomial", 2, cmb_random_binomial(u0, p[1]))
    I("negative_binomial", 2, cmb_random_negative_binomial(u0, p[1]))
    I("pascal", 2, cmb_random_pascal(u0, p[1]))
    I("poisson", 1, cmb_random_poisson(p[0]))
    I("dice", 2, cmb_random_dice((long)p[0], (long)p[1]))
    I("loaded_dice", 1, cmb_random_loaded_dice((unsigned)np, p))
    if (strcmp(name, "alias") == 0) {
        if (np < 1) return 0;
        if (*alias == NULL) *alias = cmb_random_alias_create((unsigned)np, p);
        *res = (double)cmb_random_alias_sample(*alias);
        return 1;
    }
#undef D
#undef I
    return 0;
}

static int parse_params(char *q, double *p)
{
    int np = 0;
    while (np < MAXP) {
        while (*q == ' ' || *q == '\t') q++;
        if (*q == 0) break;
        char *end;
        if (q[0] == '0' && q[1] == 'x' && strspn(q + 2, "0123456789abcdefABCDEF") == 16) {
            p[np++] = bitsd(strtoull(q + 2, &end, 16));
        }
        else {
            double v = strtod(q, &end);
            if (end == q) break;
            p[np++] = v;
        }
        q = end;
    }
    return np;
}

/* hex16 bit patterns without 0x (corr protocol) */
static int parse_bits(char *q, double *p)
{
    int np = 0;
    while (np < MAXP) {
        char *end;
        while (*q == ' ') q++;
        if (*q == 0) break;
        unsigned long long u = strtoull(q, &end, 16);
        if (end == q) break;
        p[np++] = bitsd((uint64_t)u);
        q = end;
    }
    return np;
}

static void corr_line(char *line)
{
    char op[32] = "";
    unsigned long long n = 0;
    int off = 0;
    if (sscanf(line, "%31s", op) != 1) return;
    if (strcmp(op, "seed") == 0) {
        sscanf(line, "%*s %llu", &n);
        cmb_random_initialize((uint64_t)n);
        printf("seed\n");
    }
    else if (strcmp(op, "unit") == 0) {
        sscanf(line, "%*s %llu", &n);
        printf("unit");
        for (unsigned long long i = 0; i < n; i++) printf(" %" PRIu64, (uint64_t)ldexp(cmb_random(), 53));
        printf("\n");
    }
    else if (strcmp(op, "flip") == 0) {
        sscanf(line, "%*s %llu", &n);
        printf("flip");
        for (unsigned long long i = 0; i < n; i++) printf(" %d", cmb_random_flip());
        printf("\n");
    }
    else if (strcmp(op, "stdexp") == 0) {
        sscanf(line, "%*s %llu", &n);
        printf("stdexp");
        for (unsigned long long i = 0; i < n; i++) printf(" %016" PRIx64, dbits(cmb_random_std_exponential()));
        printf("\n");
    }
    else if (strcmp(op, "geom") == 0) {
        double p[MAXP];
        sscanf(line, "%*s %llu%n", &n, &off);
        if (parse_bits(line + off, p) < 1) { printf("bad-op geom\n"); return; }
        printf("geom");
        for (unsigned long long i = 0; i < n; i++) printf(" %u", cmb_random_geometric(p[0]));
        printf("\n");
    }
    else if (strcmp(op, "gboost") == 0) {
        /* gboost <seed> <shape bits>: cmb_random_std_gamma(shape) after the seed; then, after the same seed,
         * cmb_random_std_gamma(shape + 1.0) and the cmb_random() that follows it */
        double p[MAXP];
        sscanf(line, "%*s %llu%n", &n, &off);
        if (parse_bits(line + off, p) < 1) { printf("bad-op gboost\n"); return; }
        cmb_random_initialize((uint64_t)n);
        const double r = cmb_random_std_gamma(p[0]);
        cmb_random_initialize((uint64_t)n);
        const double g = cmb_random_std_gamma(p[0] + 1.0);
        const double u = cmb_random();
        printf("gboost %016" PRIx64 " %016" PRIx64 " %" PRIu64 "\n", dbits(r), dbits(g), (uint64_t)ldexp(u, 53));
    }
    else if (strcmp(op, "dice") == 0) {
        long a = 0, b = 0;
        sscanf(line, "%*s %llu %ld %ld", &n, &a, &b);
        printf("dice");
        for (unsigned long long i = 0; i < n; i++) printf(" %ld", cmb_random_dice(a, b));
        printf("\n");
    }
    else if (strcmp(op, "bern") == 0) {
        double p[MAXP];
        sscanf(line, "%*s %llu%n", &n, &off);
        if (parse_bits(line + off, p) < 1) { printf("bad-op bern\n"); return; }
        printf("bern");
        for (unsigned long long i = 0; i < n; i++) printf(" %u", cmb_random_bernoulli(p[0]));
        printf("\n");
    }
    else if (strcmp(op, "binom") == 0) {
        double p[MAXP];
        unsigned m = 0;
        sscanf(line, "%*s %llu %u%n", &n, &m, &off);
        if (parse_bits(line + off, p) < 1) { printf("bad-op binom\n"); return; }
        printf("binom");
        for (unsigned long long i = 0; i < n; i++) printf(" %u", cmb_random_binomial(m, p[0]));
        printf("\n");
    }
    else if (strcmp(op, "loaded") == 0) {
        double p[MAXP];
        sscanf(line, "%*s %llu%n", &n, &off);
        int np = parse_bits(line + off, p);
        if (np < 1) { printf("bad-op loaded\n"); return; }
        printf("loaded");
        for (unsigned long long i = 0; i < n; i++) printf(" %u", cmb_random_loaded_dice((unsigned)np, p));
        printf("\n");
    }
    else if (strcmp(op, "alias") == 0) {
        double p[MAXP];
        sscanf(line, "%*s %llu%n", &n, &off);
        int np = parse_bits(line + off, p);
        if (np < 1) { printf("bad-op alias\n"); return; }
        struct cmb_random_alias *t = cmb_random_alias_create((unsigned)np, p);
        printf("alias-table %u", t->n);
        for (int i = 0; i < np; i++) printf(" %016" PRIx64, t->uprob[i]);
        printf(" |");
        for (int i = 0; i < np; i++) printf(" %u", t->alias[i]);
        printf("\nalias");
        for (unsigned long long i = 0; i < n; i++) printf(" %u", cmb_random_alias_sample(t));
        printf("\n");
        cmb_random_alias_destroy(t);
    }
    else {
        printf("bad-op %s\n", op);
    }
}

static void supp_line(char *line)
{
    char name[48] = "", flags[16] = "";
    unsigned long long n = 0, seed = 0;
    double p[MAXP], lohi[2];
    int off = 0;
    if (sscanf(line, "%*s %47s %llu %llu%n", name, &n, &seed, &off) < 3) { printf("bad-op supp\n"); return; }
    char *q = line + off;
    /* lo, hi, flags */
    for (int j = 0; j < 2; j++) {
        while (*q == ' ') q++;
        char *end;
        if (strncmp(q, "-inf", 4) == 0) { lohi[j] = -INFINITY; end = q + 4; }
        else if (strncmp(q, "inf", 3) == 0) { lohi[j] = INFINITY; end = q + 3; }
        else lohi[j] = strtod(q, &end);
        q = end;
    }
    int k = 0;
    sscanf(q, "%15s%n", flags, &k);
    q += k;
    const int np = parse_params(q, p);
    const int integer = strchr(flags, 'i') != NULL, lo_open = strchr(flags, 'o') != NULL, hi_open = strchr(flags, 'c') != NULL;
    struct cmb_random_alias *alias = NULL;
    cmb_random_initialize((uint64_t)seed);
    unsigned long long bad = 0, nonfinite = 0, first = 0;
    double firstv = 0.0, mn = INFINITY, mx = -INFINITY;
    for (unsigned long long i = 0; i < n; i++) {
        double x;
        if (!sample(name, np, p, &x, &alias)) { printf("supp %s unknown-or-too-few-parameters\n", name); return; }
        int ok = isfinite(x);
        if (!ok) nonfinite++;
        if (ok && (x < lohi[0] || x > lohi[1] || (lo_open && x == lohi[0]) || (hi_open && x == lohi[1]))) ok = 0;
        if (ok && integer && x != floor(x)) ok = 0;
        if (!ok) { if (bad == 0) { first = i; firstv = x; } bad++; }
        else { if (x < mn) mn = x; if (x > mx) mx = x; }
    }
    printf("supp %s n=%llu bad=%llu first=%llu:%016" PRIx64 " nonfinite=%llu min=%016" PRIx64 " max=%016" PRIx64 "\n",
           name, n, bad, first, dbits(firstv), nonfinite, dbits(mn), dbits(mx));
    if (alias != NULL) cmb_random_alias_destroy(alias);
}

/* tail <name> <N> <seed> <r> <t1> ... <tk>  -> counts of |x| > r, > t1, ..., > tk and the sum / sum of squares of the excess |x| - r */
static void tail_line(char *line)
{
    char name[48] = "";
    unsigned long long n = 0, seed = 0;
    double t[MAXP], p[1];
    int off = 0;
    if (sscanf(line, "%*s %47s %llu %llu%n", name, &n, &seed, &off) < 3) { printf("bad-op tail\n"); return; }
    const int nt = parse_params(line + off, t);
    if (nt < 1) { printf("bad-op tail\n"); return; }
    unsigned long long cnt[MAXP] = { 0 };
    long double se = 0.0L, se2 = 0.0L;
    struct cmb_random_alias *alias = NULL;
    const int is_nor = strcmp(name, "std_normal") == 0, is_exp = strcmp(name, "std_exponential") == 0;
    cmb_random_initialize((uint64_t)seed);
    for (unsigned long long i = 0; i < n; i++) {
        double x;
        if (is_nor) x = cmb_random_std_normal();
        else if (is_exp) x = cmb_random_std_exponential();
        else if (!sample(name, 0, p, &x, &alias)) { printf("tail %s unknown\n", name); return; }
        const double a = fabs(x);
        if (a > t[0]) {
            cnt[0]++;
            se += (long double)(a - t[0]);
            se2 += (long double)(a - t[0]) * (long double)(a - t[0]);
            for (int j = 1; j < nt; j++) if (a > t[j]) cnt[j]++;
        }
    }
    printf("tail %s n=%llu sum=%.17Lg sumsq=%.17Lg counts", name, n, se, se2);
    for (int j = 0; j < nt; j++) printf(" %llu", cnt[j]);
    printf("\n");
}

/* findtail <seed0> <nseeds> <ndraws> <threshold>: search tool for the corpus — for each seed seed0 .. seed0+nseeds-1 the first of the
 * first ndraws cmb_random_std_exponential() variates that exceeds the threshold:  -> hit <seed> <index> <value bits> */
static void findtail_line(char *line)
{
    unsigned long long s0 = 0, ns = 0, nd = 0;
    double thr = 0.0;
    if (sscanf(line, "%*s %llu %llu %llu %lf", &s0, &ns, &nd, &thr) < 4) { printf("bad-op findtail\n"); return; }
    for (unsigned long long s = s0; s < s0 + ns; s++) {
        cmb_random_initialize((uint64_t)s);
        for (unsigned long long i = 0; i < nd; i++) {
            const double x = cmb_random_std_exponential();
            if (x > thr) { printf("hit %llu %llu %016" PRIx64 " %.17g\n", s, i, dbits(x), x); break; }
        }
    }
    printf("findtail done\n");
}

static void stat_line(char *line)
{
    char name[48] = "";
    unsigned long long n = 0, seed = 0;
    double p[MAXP];
    int off = 0;
    if (sscanf(line, "%*s %47s %llu %llu%n", name, &n, &seed, &off) < 3) { printf("bad-op stat\n"); return; }
    const int np = parse_params(line + off, p);
    struct cmb_random_alias *alias = NULL;
    cmb_random_initialize((uint64_t)seed);
    double *buf = malloc((size_t)n * sizeof *buf);
    for (unsigned long long i = 0; i < n; i++) {
        if (!sample(name, np, p, &buf[i], &alias)) { printf("stat %s 0\n", name); free(buf); return; }
    }
    printf("stat %s %llu\n", name, n);
    fwrite(buf, sizeof *buf, (size_t)n, stdout);
    free(buf);
    if (alias != NULL) cmb_random_alias_destroy(alias);
}

int main(int argc, char **argv)
{
    const char *mode = (argc > 1) ? argv[1] : "corr";
    char *line = NULL;
    size_t cap = 0;
    while (getline(&line, &cap, stdin) > 0) {
        char *p = line;
        while (*p == ' ' || *p == '\t') p++;
        if (*p == '#' || *p == '\n' || *p == 0) continue;
        p[strcspn(p, "\r\n")] = 0;
        if (strcmp(mode, "supp") == 0 || strncmp(p, "supp ", 5) == 0) supp_line(p);
        else if (strcmp(mode, "stat") == 0 || strncmp(p, "stat ", 5) == 0) stat_line(p);
        else if (strncmp(p, "tail ", 5) == 0) tail_line(p);
        else if (strncmp(p, "findtail ", 9) == 0) findtail_line(p);
        else corr_line(p);
        fflush(stdout);
    }
    return 0;
}
