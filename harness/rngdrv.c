/*
 * rngdrv - correspondence / differential driver for src/cmb_random.c (property C15), see DESIGN.md §2.3.
 *
 * stdin: one operation per line; the line "run" starts a new run.  Every run is executed on its OWN, freshly
 * created thread, so it starts from the static initialisers of all thread-local state (a thread that has
 * never seeded).  Output: "run <i>" followed by one line per operation of that run.
 *
 *   rngdrv seq    runs one after the other (each thread joined before the next starts)           [default]
 *   rngdrv conc   all runs at the same time behind a barrier, yielding between operations
 *   rngdrv main   all runs one after the other on the MAIN thread (state carries over from run to run)
 *   rngdrv ctx    every run names its execution context in its first line `ctx <where>`; executed in this order:
 *                   main         on the main thread, before the library has run any experiment
 *                   thread       on a plain pthread created before any experiment
 *                   worker       as a trial inside cimba_run_experiment (one experiment over all such runs: the library's
 *                                own worker threads, several trials at once)
 *                   mainafter    on the main thread after cimba_run_experiment has returned
 *                   threadafter  on a plain pthread created after the experiment (inherits the creator's FP environment)
 *
 * Operations (same line protocol as lean/Drivers/RngMain.lean for the integer-only ones):
 *   seed <u64>      cmb_random_initialize                      -> seed
 *   raw <n>         n x cmb_random_sfc64                        -> raw <hex16>...
 *   rawd <n>        same, FNV-1a digest only                    -> rawd <hex16>
 *   flip <n>        n x cmb_random_flip                         -> flip <0/1 string>
 *   flipd <n>       same, digest only                           -> flipd <hex16>
 *   u53 <n>         n x cmb_random(), exact numerator x * 2^53  -> u53 <hex16>...
 *   curseed         cmb_random_curseed                          -> curseed <hex16>
 *   term            cmb_random_terminate                        -> term
 *   mark            no-op, printed                              -> mark
 *   fpenv           the bits of MXCSR that change the VALUE of double arithmetic (rounding control, FTZ, DAZ), not the
 *                   exception masks / flags                      -> fpenv <hex4>
 *   ctx <where>     see above (no-op, printed)                   -> ctx <where>
 *   distd <name> <n> <params...>  as dist, FNV-1a digest only    -> distd <name> <hex16>
 *   dist <name> <n> <params...>   n samples of a distribution; doubles as IEEE bit patterns, integers as is
 *                                                               -> dist <name> <hex16>...
 * Built against the library compiled from the current working tree of the repository.
 */
#define _GNU_SOURCE
#include <inttypes.h>
#include <math.h>
#include <pthread.h>
#include <sched.h>
#include <stdarg.h>
#include <stdio.h>
#include <stdlib.h>
#include <string.h>

#include <xmmintrin.h>

#include "cimba.h"
#include "cmb_random.h"

#define MAXP 64

struct run {
    char **ops;
    int nops, cap;
    char *out;
    size_t len, outcap;
};

static struct run *runs = NULL;
static int nruns = 0, runcap = 0;
static int concurrent = 0;
static pthread_barrier_t barrier;

static void emit(struct run *r, const char *fmt, ...)
{
    va_list ap;
    for (;;) {
        va_start(ap, fmt);
        int n = vsnprintf(r->out + r->len, r->outcap - r->len, fmt, ap);
        va_end(ap);
        if (n >= 0 && (size_t)n < r->outcap - r->len) {
            r->len += (size_t)n;
            return;
        }
        r->outcap = r->outcap * 2 + (size_t)(n > 0 ? n : 64);
        r->out = realloc(r->out, r->outcap);
    }
}

static uint64_t fnv(uint64_t h, uint64_t x)
{
    for (int i = 0; i < 8; i++) {
        h ^= (x >> (8 * i)) & 0xffu;
        h *= UINT64_C(1099511628211);
    }
    return h;
}

static uint64_t dbits(double d)
{
    uint64_t u;
    memcpy(&u, &d, sizeof u);
    return u;
}

/* one sample of the named distribution; returns 0 if the name is unknown */
static int sample(const char *name, int np, const double *p, uint64_t *res, struct cmb_random_alias **alias)
{
    const unsigned u0 = (np > 0) ? (unsigned)p[0] : 0u;
#define D(nm, need, call) if (strcmp(name, nm) == 0) { if (np < (need)) return 0; *res = dbits(call); return 1; }
#define I(nm, need, call) if (strcmp(name, nm) == 0) { if (np < (need)) return 0; *res = (uint64_t)(int64_t)(call); return 1; }
    D("random", 0, cmb_random())
    D("uniform", 2, cmb_random_uniform(p[0], p[1]))
    D("triangular", 3, cmb_random_triangular(p[0], p[1], p[2]))
    D("std_normal", 0, cmb_random_std_normal())
    D("normal", 2, cmb_random_normal(p[0], p[1]))
    D("lognormal", 2, cmb_random_lognormal(p[0], p[1]))
    D("logistic", 2, cmb_random_logistic(p[0], p[1]))
    D("cauchy", 2, cmb_random_cauchy(p[0], p[1]))
    D("std_exponential", 0, cmb_random_std_exponential())
    D("exponential", 1, cmb_random_exponential(p[0]))
    D("erlang", 2, cmb_random_erlang(u0, p[1]))
    D("hypoexponential", 2, cmb_random_hypoexponential((unsigned)np, p))
    D("hyperexponential", 2, cmb_random_hyperexponential((unsigned)(np / 2), p, p + np / 2))
    D("std_gamma", 1, cmb_random_std_gamma(p[0]))
    D("gamma", 2, cmb_random_gamma(p[0], p[1]))
    D("std_beta", 2, cmb_random_std_beta(p[0], p[1]))
    D("beta", 4, cmb_random_beta(p[0], p[1], p[2], p[3]))
    D("PERT", 3, cmb_random_PERT(p[0], p[1], p[2]))
    D("PERT_mod", 4, cmb_random_PERT_mod(p[0], p[1], p[2], p[3]))
    D("weibull", 2, cmb_random_weibull(p[0], p[1]))
    D("pareto", 2, cmb_random_pareto(p[0], p[1]))
    D("chisquared", 1, cmb_random_chisquared(p[0]))
    D("F_dist", 2, cmb_random_F_dist(p[0], p[1]))
    D("std_t_dist", 1, cmb_random_std_t_dist(p[0]))
    D("t_dist", 3, cmb_random_t_dist(p[0], p[1], p[2]))
    D("rayleigh", 1, cmb_random_rayleigh(p[0]))
    I("flip", 0, cmb_random_flip())
    I("bernoulli", 1, cmb_random_bernoulli(p[0]))
    I("geometric", 1, cmb_random_geometric(p[0]))
    I("binomial", 2, cmb_random_binomial(u0, p[1]))
    I("negative_binomial", 2, cmb_random_negative_binomial(u0, p[1]))
    I("pascal", 2, cmb_random_pascal(u0, p[1]))
    I("poisson", 1, cmb_random_poisson(p[0]))
    I("dice", 2, cmb_random_dice((long)p[0], (long)p[1]))
    I("loaded_dice", 1, cmb_random_loaded_dice((unsigned)np, p))
    if (strcmp(name, "alias") == 0) {
        if (np < 1) return 0;
        if (*alias == NULL) *alias = cmb_random_alias_create((unsigned)np, p);
        *res = (uint64_t)cmb_random_alias_sample(*alias);
        return 1;
    }
#undef D
#undef I
    return 0;
}

static void exec_op(struct run *r, char *line)
{
    char op[32] = "";
    char name[48] = "";
    unsigned long long n = 0;
    if (sscanf(line, "%31s", op) != 1) return;
    if (strcmp(op, "seed") == 0) {
        sscanf(line, "%*s %llu", &n);
        cmb_random_initialize((uint64_t)n);
        emit(r, "seed\n");
    }
    else if (strcmp(op, "raw") == 0) {
        sscanf(line, "%*s %llu", &n);
        emit(r, "raw");
        for (unsigned long long i = 0; i < n; i++) emit(r, " %016" PRIx64, cmb_random_sfc64());
        emit(r, "\n");
    }
    else if (strcmp(op, "rawd") == 0) {
        sscanf(line, "%*s %llu", &n);
        uint64_t h = UINT64_C(14695981039346656037);
        for (unsigned long long i = 0; i < n; i++) h = fnv(h, cmb_random_sfc64());
        emit(r, "rawd %016" PRIx64 "\n", h);
    }
    else if (strcmp(op, "flip") == 0) {
        sscanf(line, "%*s %llu", &n);
        emit(r, "flip ");
        for (unsigned long long i = 0; i < n; i++) emit(r, "%d", cmb_random_flip());
        emit(r, "\n");
    }
    else if (strcmp(op, "flipd") == 0) {
        sscanf(line, "%*s %llu", &n);
        uint64_t h = UINT64_C(14695981039346656037);
        for (unsigned long long i = 0; i < n; i++) h = fnv(h, (uint64_t)(int64_t)cmb_random_flip());
        emit(r, "flipd %016" PRIx64 "\n", h);
    }
    else if (strcmp(op, "u53") == 0) {
        sscanf(line, "%*s %llu", &n);
        emit(r, "u53");
        for (unsigned long long i = 0; i < n; i++) {
            const double x = cmb_random();
            const double y = ldexp(x, 53);              /* exact: x is k * 2^-53 with k < 2^53 */
            const uint64_t k = (uint64_t)y;
            if ((double)k != y || ldexp((double)k, -53) != x) emit(r, " inexact");
            emit(r, " %016" PRIx64, k);
        }
        emit(r, "\n");
    }
    else if (strcmp(op, "curseed") == 0) {
        emit(r, "curseed %016" PRIx64 "\n", cmb_random_curseed());
    }
    else if (strcmp(op, "term") == 0) {
        cmb_random_terminate();
        emit(r, "term\n");
    }
    else if (strcmp(op, "mark") == 0) {
        emit(r, "mark\n");
    }
    else if (strcmp(op, "fpenv") == 0) {
        emit(r, "fpenv %04x\n", _mm_getcsr() & 0xE040u);
    }
    else if (strcmp(op, "ctx") == 0) {
        emit(r, "%s\n", line);
    }
    else if (strcmp(op, "dist") == 0 || strcmp(op, "distd") == 0) {
        const int digest = (op[4] == 'd');
        double p[MAXP];
        int np = 0, off = 0;
        if (sscanf(line, "%*s %47s %llu%n", name, &n, &off) < 2) { emit(r, "bad-op %s\n", line); return; }
        char *q = line + off;
        while (np < MAXP) {
            char *end;
            double v = strtod(q, &end);
            if (end == q) break;
            p[np++] = v;
            q = end;
        }
        struct cmb_random_alias *alias = NULL;
        uint64_t h = UINT64_C(14695981039346656037);
        emit(r, "%s %s", op, name);
        for (unsigned long long i = 0; i < n; i++) {
            uint64_t res;
            if (!sample(name, np, p, &res, &alias)) { emit(r, " unknown-or-too-few-parameters"); break; }
            if (digest) h = fnv(h, res);
            else emit(r, " %016" PRIx64, res);
        }
        if (digest) emit(r, " %016" PRIx64, h);
        emit(r, "\n");
        if (alias != NULL) cmb_random_alias_destroy(alias);
    }
    else {
        emit(r, "bad-op %s\n", op);
    }
}

static void *run_thread(void *arg)
{
    struct run *r = arg;
    if (concurrent) pthread_barrier_wait(&barrier);
    for (int i = 0; i < r->nops; i++) {
        exec_op(r, r->ops[i]);
        if (concurrent) sched_yield();
    }
    return NULL;
}

/* ---- execution contexts (mode ctx) ---- */
struct trial {
    int run;
};

static void trial_func(void *p)
{
    const struct trial *t = p;
    run_thread(&runs[t->run]);
}

static int in_context(const struct run *r, const char *where)
{
    char w[32] = "";
    if (r->nops == 0 || sscanf(r->ops[0], "ctx %31s", w) != 1) return strcmp(where, "main") == 0;
    return strcmp(w, where) == 0;
}

static void on_new_thread(const char *where)
{
    for (int i = 0; i < nruns; i++) {
        if (in_context(&runs[i], where)) {
            pthread_t th;
            pthread_create(&th, NULL, run_thread, &runs[i]);
            pthread_join(th, NULL);
        }
    }
}

static void run_contexts(void)
{
    for (int i = 0; i < nruns; i++) if (in_context(&runs[i], "main")) run_thread(&runs[i]);
    on_new_thread("thread");
    struct trial *tr = calloc((size_t)nruns + 1u, sizeof *tr);
    int nt = 0;
    for (int i = 0; i < nruns; i++) if (in_context(&runs[i], "worker")) tr[nt++].run = i;
    if (nt > 0) cimba_run_experiment(tr, (uint64_t)nt, sizeof *tr, trial_func);
    for (int i = 0; i < nruns; i++) if (in_context(&runs[i], "mainafter")) run_thread(&runs[i]);
    on_new_thread("threadafter");
    free(tr);
}

static struct run *new_run(void)
{
    if (nruns == runcap) {
        runcap = runcap ? 2 * runcap : 16;
        runs = realloc(runs, (size_t)runcap * sizeof *runs);
    }
    struct run *r = &runs[nruns++];
    memset(r, 0, sizeof *r);
    r->outcap = 256;
    r->out = malloc(r->outcap);
    r->out[0] = 0;
    return r;
}

int main(int argc, char **argv)
{
    const char *mode = (argc > 1) ? argv[1] : "seq";
    char *line = NULL;
    size_t cap = 0;
    struct run *cur = NULL;
    while (getline(&line, &cap, stdin) > 0) {
        char *p = line;
        while (*p == ' ' || *p == '\t') p++;
        if (*p == '#' || *p == '\n' || *p == 0) continue;
        p[strcspn(p, "\r\n")] = 0;
        if (strcmp(p, "run") == 0) { cur = new_run(); continue; }
        if (cur == NULL) cur = new_run();
        if (cur->nops == cur->cap) {
            cur->cap = cur->cap ? 2 * cur->cap : 16;
            cur->ops = realloc(cur->ops, (size_t)cur->cap * sizeof *cur->ops);
        }
        cur->ops[cur->nops++] = strdup(p);
    }
    if (strcmp(mode, "main") == 0) {
        for (int i = 0; i < nruns; i++) run_thread(&runs[i]);
    }
    else if (strcmp(mode, "ctx") == 0) {
        run_contexts();
    }
    else if (strcmp(mode, "conc") == 0) {
        concurrent = 1;
        pthread_t *th = calloc((size_t)nruns, sizeof *th);
        pthread_barrier_init(&barrier, NULL, (unsigned)nruns);
        for (int i = 0; i < nruns; i++) pthread_create(&th[i], NULL, run_thread, &runs[i]);
        for (int i = 0; i < nruns; i++) pthread_join(th[i], NULL);
    }
    else {
        for (int i = 0; i < nruns; i++) {
            pthread_t th;
            pthread_create(&th, NULL, run_thread, &runs[i]);
            pthread_join(th, NULL);
        }
    }
    for (int i = 0; i < nruns; i++) {
        printf("run %d\n", i);
        fputs(runs[i].out, stdout);
    }
    return 0;
}
