/*
 * expdrv - C19 harness: runs cimba_run_experiment (or a sequential reference) on a generated experiment, in-process
 * against the real library, and prints what happened.
 *
 * stdin: one or more scenario lines; every line is one experiment, all lines of one invocation run one after the other in the
 * SAME process (a fresh process per invocation, so that nothing else is inherited):
 *     run <mode> <W> <n> <size> <seed> <delaypat> <delaymax_us> <kinds>
 *         mode      par      cimba_run_experiment
 *                   seq      the same trial function on elements 0..n-1, one after another, in the calling thread
 *                   rev      the same, elements n-1..0
 *                   fresh    every trial in a newly created thread of its own (no earlier trial on that thread)
 *                   solo     every trial ALONE: a one-trial cimba_run_experiment in a forked child process (fresh worker,
 *                            nothing inherited) - the oracle for "the outcome does not depend on what ran before"
 *         W         number of worker threads reported by cmi_cpu_cores() (0: the real function from the library)
 *         n         number of trials;  size: sizeof one trial struct in bytes (>= 64, need not be a multiple of 8)
 *         seed      experiment seed; trial i gets parameter seed mix(seed, i)
 *         delaypat  0 none 1 random 2 increasing 3 decreasing 4 first-long 5 alternating 6 last-long   (busy-wait inside the trial)
 *         kinds     bit mask of what the trials contain (K_* below); with K_MIX the mask is varied per trial
 *
 * stdout, per experiment:
 *     X <ordinal>                     start of the block of the ordinal-th experiment of this process
 *     P <W> <n> <size> <base>
 *     S <seq> <tid> <idx> <addr>      call of the trial function entered   (sorted by seq; seq is one global atomic counter)
 *     E <seq> <tid> <idx>             call about to return
 *     C <idx> <calls> <own>           how often index idx was called; own = 1 iff every call got base + idx*size and the
 *                                     element's own parameter block
 *     D <idx> <digest> <aux>          result digest the trial stored in its element (read back from the array)
 *     R <ended-at-return> <extra> <guard-ok>   calls finished when the runner returned; calls outside 0..n-1; guard bytes intact
 */
#define _GNU_SOURCE
#include <inttypes.h>
#include <math.h>
#include <pthread.h>
#include <stdint.h>
#include <stdio.h>
#include <stdlib.h>
#include <string.h>
#include <time.h>
#include <sys/mman.h>
#include <sys/sysinfo.h>
#include <sys/wait.h>
#include <unistd.h>
#include <xmmintrin.h>

#include "cimba.h"

#define K_PROC   0x001u   /* processes contending for a resource */
#define K_BUF    0x002u   /* producer / consumer over a buffer */
#define K_OBJQ   0x004u   /* producer / consumer over an object queue */
#define K_SAMP   0x008u   /* a block of draws from many samplers */
#define K_FLIP   0x010u   /* coin flips (uses the cached-bits sampler) */
#define K_LOG    0x020u   /* sets its logger flags from its parameters and logs into a memory stream (digested) */
#define K_MEMO   0x040u   /* gamma / geometric with parameters that alternate between trials */
#define K_TIE    0x080u   /* two equal-priority processes queue for a held resource at the same instant */
#define K_LOGKEEP 0x100u  /* logs with user flag 1 WITHOUT setting its flags first; odd trials switch the flag off */
#define K_POLLUTE 0x200u  /* with K_TIE: even trials only malloc process-sized blocks and free them in descending address order */
#define K_SAMESEED 0x400u /* all trials of the experiment get the SAME seed parameter (common random numbers) */
#define K_MIX    0x800u
#define K_SEED3  0x1000u  /* seeds repeat with period 3 over the trial index */
#define K_TERM   0x2000u
#define K_ULP    0x4000u  /* memoised samplers (gamma family, geometric) with parameters that are equal to, 1 ulp from and far
                           * from those of the neighbouring trials; drawn first and last in the trial */  /* odd trials call cmb_random_terminate() before they return */   /* vary the mask per trial (derived from the trial's seed) */

#define USERFLAG1 UINT32_C(0x00000001)
#define USERFLAG2 UINT32_C(0x00000002)
#define USERFLAG3 UINT32_C(0x00000004)

struct trial_hdr {
    uint64_t magic;
    uint64_t idx_param;      /* parameter: the element's own index */
    uint64_t seed;           /* parameter */
    uint32_t kinds;          /* parameter */
    uint32_t delay_us;       /* parameter */
    uint64_t digest;         /* result */
    uint64_t aux;            /* result: second word (service order in K_TIE, log bytes in K_LOGKEEP) */
    uint64_t ncalls;         /* result: incremented by every call */
    uint64_t pad;
};
#define MAGIC UINT64_C(0xC19C19C19C19C19C)
#define GUARD_ELEMS 2u

static unsigned g_W = 0;
static unsigned char *g_base;
static size_t g_sz;
static uint64_t g_n;

static uint64_t g_seq;                    /* global event counter (atomic) */
static uint64_t g_started, g_ended;       /* atomic */
static uint64_t g_extra;                  /* calls with an address outside elements 0..n-1 */
struct ev { uint64_t seq; pthread_t th; uint64_t idx; uint64_t addr; int kind; };
static struct ev *g_ev;                   /* 2 slots per possible call, indexed by seq */
static uint64_t g_ev_cap;
static uint32_t *g_calls;                 /* per index (n + guards), atomic */
static uint32_t *g_notown;                /* per index: calls that did not get their own element */

/* the library's cmi_cpu_cores() lives in an archive member of its own; defining the symbol here makes the linker use this
 * one, which lets a run choose the number of worker threads.  W = 0 gives what the library's own function returns. */
uint32_t cmi_cpu_cores(void);
uint32_t cmi_cpu_cores(void)
{
    return g_W ? g_W : (uint32_t)get_nprocs();
}

static uint64_t mix64(uint64_t x)
{
    x += UINT64_C(0x9e3779b97f4a7c15);
    x = (x ^ (x >> 30)) * UINT64_C(0xbf58476d1ce4e5b9);
    x = (x ^ (x >> 27)) * UINT64_C(0x94d049bb133111eb);
    return x ^ (x >> 31);
}

static uint64_t fnv(uint64_t h, uint64_t x)
{
    for (int i = 0; i < 8; i++) {
        h = (h ^ ((x >> (8 * i)) & 0xff)) * UINT64_C(1099511628211);
    }
    return h;
}

static uint64_t fnvd(uint64_t h, double d)
{
    uint64_t u;
    memcpy(&u, &d, sizeof u);
    return fnv(h, u);
}

static void busy_wait_us(uint32_t us)
{
    if (us == 0) return;
    struct timespec t0, t;
    clock_gettime(CLOCK_MONOTONIC, &t0);
    for (;;) {
        clock_gettime(CLOCK_MONOTONIC, &t);
        int64_t d = (int64_t)(t.tv_sec - t0.tv_sec) * 1000000 + (t.tv_nsec - t0.tv_nsec) / 1000;
        if (d >= (int64_t)us) break;
    }
}

/* ---------------------------------------------------------------------------------------------------------------------
 * the simulation inside a trial
 * ------------------------------------------------------------------------------------------------------------------- */

struct world {
    uint64_t h;                      /* running digest of everything that happens, in execution order */
    struct cmb_resource *res;
    struct cmb_buffer *buf;
    struct cmb_objectqueue *oq;
    struct cmb_process *procs[12];
    unsigned nprocs;
    double shape_a, shape_b, geo_p;
    FILE *logfp;
    uint64_t order;                  /* K_TIE: order of service */
    uint64_t tokens[64];
    unsigned next_token;
};

static void *worker_proc(struct cmb_process *me, void *vw)
{
    struct world *w = vw;
    const uint64_t id = (uint64_t)cmb_process_priority(me);
    for (;;) {
        (void)cmb_process_hold(cmb_random_exponential(1.0));
        w->h = fnvd(fnv(w->h, 0x100 + id), cmb_time());
        const int64_t sig = cmb_resource_acquire(w->res);
        w->h = fnvd(fnv(w->h, 0x200 + id + (uint64_t)sig * 16), cmb_time());
        (void)cmb_process_hold(cmb_random_gamma((id & 1) ? w->shape_a : w->shape_b, 0.5));
        cmb_resource_release(w->res);
        w->h = fnvd(fnv(w->h, 0x300 + id), cmb_time());
        if (w->logfp) cmb_logger_user(w->logfp, USERFLAG1, "released %" PRIu64, id);
    }
    return NULL;
}

static void *producer_proc(struct cmb_process *me, void *vw)
{
    struct world *w = vw;
    const uint64_t id = (uint64_t)cmb_process_priority(me);
    for (;;) {
        (void)cmb_process_hold(cmb_random_uniform(0.1, 1.5));
        uint64_t amount = (uint64_t)cmb_random_dice(1, 4);
        w->h = fnvd(fnv(w->h, 0x400 + id + amount * 64), cmb_time());
        const int64_t sig = cmb_buffer_put(w->buf, &amount);
        w->h = fnvd(fnv(w->h, 0x500 + id + (uint64_t)sig * 16 + amount * 4096), cmb_time());
        if (w->logfp) cmb_logger_user(w->logfp, USERFLAG2, "put by %" PRIu64 " level %" PRIu64, id, cmb_buffer_level(w->buf));
    }
    return NULL;
}

static void *consumer_proc(struct cmb_process *me, void *vw)
{
    struct world *w = vw;
    const uint64_t id = (uint64_t)cmb_process_priority(me);
    for (;;) {
        uint64_t amount = (uint64_t)cmb_random_dice(1, 3);
        const int64_t sig = cmb_buffer_get(w->buf, &amount);
        w->h = fnvd(fnv(w->h, 0x600 + id + (uint64_t)sig * 16 + amount * 4096), cmb_time());
        (void)cmb_process_hold(cmb_random_triangular(0.1, 0.4, 1.2));
    }
    return NULL;
}

static void *oq_producer_proc(struct cmb_process *me, void *vw)
{
    struct world *w = vw;
    const uint64_t id = (uint64_t)cmb_process_priority(me);
    for (;;) {
        (void)cmb_process_hold(cmb_random_weibull(1.5, 0.8));
        uint64_t *tok = &w->tokens[w->next_token++ % 64u];
        *tok = cmb_random_sfc64();
        const int64_t sig = cmb_objectqueue_put(w->oq, tok);
        w->h = fnvd(fnv(fnv(w->h, 0x700 + id + (uint64_t)sig * 16), *tok), cmb_time());
    }
    return NULL;
}

static void *oq_consumer_proc(struct cmb_process *me, void *vw)
{
    struct world *w = vw;
    const uint64_t id = (uint64_t)cmb_process_priority(me);
    for (;;) {
        void *obj = NULL;
        const int64_t sig = cmb_objectqueue_get(w->oq, &obj);
        w->h = fnvd(fnv(fnv(w->h, 0x800 + id + (uint64_t)sig * 16), obj ? *(uint64_t *)obj : 0), cmb_time());
        (void)cmb_process_hold(cmb_random_erlang(2, 0.3));
        if (w->logfp) cmb_logger_user(w->logfp, USERFLAG3, "got at %f", cmb_time());
    }
    return NULL;
}

static void *flipper_proc(struct cmb_process *me, void *vw)
{
    struct world *w = vw;
    const uint64_t id = (uint64_t)cmb_process_priority(me);
    for (;;) {
        uint64_t bits = 0;
        for (int i = 0; i < 5; i++) bits = (bits << 1) | (uint64_t)cmb_random_flip();
        w->h = fnvd(fnv(w->h, 0x900 + id + bits * 4096), cmb_time());
        (void)cmb_process_hold(bits ? 0.25 * (double)bits : 0.125);
    }
    return NULL;
}

/* K_TIE: holder keeps the resource until t = 1; A and B (equal priority) both ask for it at t = 0.5 */
static void *tie_holder_proc(struct cmb_process *me, void *vw)
{
    struct world *w = vw;
    cmb_unused(me);
    (void)cmb_resource_acquire(w->res);
    (void)cmb_process_hold(1.0);
    cmb_resource_release(w->res);
    return NULL;
}

static void *tie_waiter_proc(struct cmb_process *me, void *vw)
{
    struct world *w = vw;
    const uint64_t tag = (me == w->procs[1]) ? 0xA : 0xB;
    (void)cmb_process_hold(0.5);
    (void)cmb_resource_acquire(w->res);
    w->order = (w->order << 4) | tag;
    (void)cmb_process_hold(0.25);
    cmb_resource_release(w->res);
    return NULL;
}

static void end_evt(void *subject, void *object)
{
    struct world *w = subject;
    cmb_unused(object);
    for (unsigned i = 0; i < w->nprocs; i++) {
        cmb_process_stop(w->procs[i], NULL);
    }
    cmb_event_queue_clear();
}

static void add_proc(struct world *w, const char *name, cmb_process_func *f, int64_t prio)
{
    struct cmb_process *p = cmb_process_create();
    cmb_process_initialize(p, name, f, w, prio);
    cmb_process_start(p);
    w->procs[w->nprocs++] = p;
}

static void sampler_block(struct world *w, unsigned rounds)
{
    static const double pa[4] = { 0.1, 0.2, 0.3, 0.4 };
    for (unsigned r = 0; r < rounds; r++) {
        w->h = fnv(w->h, cmb_random_sfc64());
        w->h = fnvd(w->h, cmb_random());
        w->h = fnvd(w->h, cmb_random_std_normal());
        w->h = fnvd(w->h, cmb_random_normal(3.0, 2.0));
        w->h = fnvd(w->h, cmb_random_std_exponential());
        w->h = fnvd(w->h, cmb_random_lognormal(0.5, 0.25));
        w->h = fnvd(w->h, cmb_random_triangular(0.0, 1.0, 4.0));
        w->h = fnvd(w->h, cmb_random_erlang(3, 2.0));
        w->h = fnvd(w->h, cmb_random_weibull(2.0, 1.0));
        w->h = fnvd(w->h, cmb_random_beta(2.0, 3.0, 0.0, 1.0));
        w->h = fnvd(w->h, cmb_random_PERT(1.0, 2.0, 5.0));
        w->h = fnv(w->h, (uint64_t)cmb_random_dice(1, 6));
        w->h = fnv(w->h, cmb_random_bernoulli(0.3));
        w->h = fnv(w->h, cmb_random_binomial(10, 0.4));
        w->h = fnv(w->h, cmb_random_poisson(3.5));
        w->h = fnv(w->h, cmb_random_loaded_dice(4, pa));
    }
}

static void memo_block(struct world *w, unsigned rounds)
{
    for (unsigned r = 0; r < rounds; r++) {
        w->h = fnvd(w->h, cmb_random_std_gamma(w->shape_a));
        w->h = fnvd(w->h, cmb_random_std_gamma(w->shape_a));
        w->h = fnvd(w->h, cmb_random_std_gamma(w->shape_b));
        w->h = fnv(w->h, cmb_random_geometric(w->geo_p));
        w->h = fnvd(w->h, cmb_random_chisquared(w->shape_a + 2.0));
    }
}

/* Parameters of the memoised samplers as a function of the trial index: six consecutive trials share a base value and use
 * base, next double up, base, next double down, next double down again (equal), and a value far away - so neighbouring trials
 * have keys that are 1 ulp apart, equal, and far apart.  Bases include shapes in [1,2) (adjacent doubles are DBL_EPSILON
 * apart), shapes below 1 (sampled as shape + 1), the boundary 1.0 / 2.0 and one above 2. */
static double ulp_variant(double base, uint64_t idx, double far)
{
    switch (idx % 6u) {
    case 1: return nextafter(base, INFINITY);
    case 3: case 4: return nextafter(base, -INFINITY);
    case 5: return far;
    default: return base;
    }
}

static void ulp_block(struct world *w, const struct trial_hdr *t)
{
    static const double shape_bases[8] = { 1.21, 1.5, 1.9999999999999998, 0.21, 0.75, 1.0, 3.0, 1.1 * 1.1 };
    static const double p_bases[4] = { 0.3, 0.5, 0.25, 0.7 };
    const uint64_t i = t->idx_param;
    const double s = ulp_variant(shape_bases[(i / 6u) % 8u], i, 3.0 * shape_bases[(i / 6u) % 8u] + 0.7);
    const double s2 = ulp_variant(shape_bases[(i / 6u + 3u) % 8u], i + 1u, 5.5);
    const double p = ulp_variant(p_bases[(i / 6u) % 4u], i, 0.05);
    w->h = fnvd(w->h, cmb_random_std_gamma(s));            /* first gamma draw of the trial: the cache holds an earlier trial's key */
    w->h = fnv(w->h, cmb_random_geometric(p));
    w->h = fnvd(w->h, cmb_random_gamma(s, 2.0));
    w->h = fnvd(w->h, cmb_random_chisquared(2.0 * s2));
    w->h = fnvd(w->h, cmb_random_std_beta(s, s2));
    w->h = fnvd(w->h, cmb_random_PERT(1.0, 1.0 + 1.9 * s / (s + 1.0), 3.0));
    w->h = fnvd(w->h, cmb_random_std_gamma(s2));
    w->h = fnvd(w->h, cmb_random_std_gamma(s));            /* leave the trial's own key in the cache */
    w->h = fnv(w->h, cmb_random_geometric(p));
}

static void simulate(struct trial_hdr *t)
{
    struct world w;
    memset(&w, 0, sizeof w);
    w.h = UINT64_C(14695981039346656037);
    uint32_t kinds = t->kinds;
    if (kinds & K_MIX) {
        /* the mask of a trial is a function of its own seed only */
        const uint64_t m = mix64(t->seed ^ 0x5151);
        kinds = (kinds & ~K_MIX & ~(K_PROC | K_BUF | K_OBJQ | K_SAMP | K_FLIP | K_LOG | K_MEMO))
              | ((uint32_t)m & kinds & (K_PROC | K_BUF | K_OBJQ | K_SAMP | K_FLIP | K_LOG | K_MEMO));
        if ((kinds & (K_PROC | K_BUF | K_OBJQ | K_SAMP | K_FLIP | K_MEMO)) == 0) kinds |= K_SAMP;
    }
    static const double shapes[5] = { 0.75, 1.0, 2.5, 4.0, 9.0 };
    w.shape_a = shapes[mix64(t->seed ^ 1) % 5];
    w.shape_b = shapes[mix64(t->seed ^ 2) % 5];
    w.geo_p = 0.1 + 0.2 * (double)(mix64(t->seed ^ 3) % 4);

    /* per-trial initialisation from the trial's own parameters */
    cmb_random_initialize(t->seed);
    cmb_logger_flags_off(CMB_LOGGER_INFO);
    char *logbuf = NULL;
    size_t loglen = 0;
    if (kinds & K_LOG) {
        /* logging settings established from the trial's own parameters: switch every user flag on, then some off */
        cmb_logger_flags_on(USERFLAG1 | USERFLAG2 | USERFLAG3);
        const uint32_t off = (uint32_t)(mix64(t->seed ^ 4) & 7u);
        if (off) cmb_logger_flags_off(off);
        w.logfp = open_memstream(&logbuf, &loglen);
    }
    if (kinds & K_LOGKEEP) {
        w.logfp = open_memstream(&logbuf, &loglen);
        if (t->idx_param & 1u) cmb_logger_flags_off(USERFLAG1);
    }
    cmb_event_queue_initialize(0.0);
    if (kinds & K_ULP) ulp_block(&w, t);

    if ((kinds & K_TIE) && (kinds & K_POLLUTE) && !(t->idx_param & 1u)) {
        /* An unrelated trial whose only trace is in the allocator: it allocates process-sized blocks and frees some of
         * them in descending address order.  Nothing of it is stored anywhere in the library or the experiment array.
         * (glibc: the first seven frees fill the thread cache for this size, which calloc() - what cmb_process_create's
         * malloc + memset compiles to - does not use; the others go to the bins, oldest first out.) */
        enum { NB = 7 + 8 };
        void *b[NB];
        for (int i = 0; i < NB; i++) b[i] = malloc(sizeof(struct cmb_process));
        for (int i = 0; i < 7; i++) free(b[i]);
        /* every second of the remaining blocks stays allocated (leaked on purpose: 4 x 152 bytes) so that the freed
         * ones cannot coalesce */
        void *q[4] = { b[8], b[10], b[12], b[14] };
        for (int i = 0; i < 4; i++) for (int j = i + 1; j < 4; j++) if (q[j] > q[i]) { void *x = q[i]; q[i] = q[j]; q[j] = x; }
        for (int i = 0; i < 4; i++) free(q[i]);
        t->aux = 0;
    }
    else if (kinds & K_TIE) {
        w.res = cmb_resource_create();
        cmb_resource_initialize(w.res, "R");
        add_proc(&w, "H", tie_holder_proc, 0);
        add_proc(&w, "A", tie_waiter_proc, 0);
        add_proc(&w, "B", tie_waiter_proc, 0);
        cmb_event_queue_execute();
        t->aux = w.order;
        w.h = fnv(w.h, w.order);
    }
    else {
        int64_t prio = 1;          /* all priorities distinct: no same-priority tie is ever decided by an address */
        if (kinds & (K_PROC | K_BUF | K_OBJQ | K_FLIP)) {
            const double t_end = 20.0 + (double)(mix64(t->seed ^ 5) % 30);
            (void)cmb_event_schedule(end_evt, &w, NULL, t_end, 0);
        }
        if (kinds & K_PROC) {
            w.res = cmb_resource_create();
            cmb_resource_initialize(w.res, "R");
            add_proc(&w, "W1", worker_proc, prio++);
            add_proc(&w, "W2", worker_proc, prio++);
            add_proc(&w, "W3", worker_proc, prio++);
        }
        if (kinds & K_BUF) {
            w.buf = cmb_buffer_create();
            cmb_buffer_initialize(w.buf, "B", 6);
            add_proc(&w, "P1", producer_proc, prio++);
            add_proc(&w, "P2", producer_proc, prio++);
            add_proc(&w, "C1", consumer_proc, prio++);
            add_proc(&w, "C2", consumer_proc, prio++);
        }
        if (kinds & K_OBJQ) {
            w.oq = cmb_objectqueue_create();
            cmb_objectqueue_initialize(w.oq, "Q", 4);
            add_proc(&w, "QP", oq_producer_proc, prio++);
            add_proc(&w, "QC", oq_consumer_proc, prio++);
        }
        if (kinds & K_FLIP) {
            add_proc(&w, "F", flipper_proc, prio++);
        }
        if (kinds & K_SAMP) sampler_block(&w, 6);
        if (kinds & K_MEMO) memo_block(&w, 4);
        if (kinds & K_FLIP) {
            for (int i = 0; i < 70; i++) w.h = fnv(w.h, (uint64_t)cmb_random_flip());
        }
        if (w.nprocs) cmb_event_queue_execute();
        if (kinds & K_SAMP) sampler_block(&w, 2);
        if (kinds & K_LOGKEEP) {
            for (int i = 0; i < 3; i++) cmb_logger_user(w.logfp, USERFLAG1, "line %d", i);
        }
        w.h = fnvd(w.h, cmb_time());
        if (w.buf) w.h = fnv(w.h, cmb_buffer_level(w.buf));
        if (w.oq) w.h = fnv(w.h, cmb_objectqueue_length(w.oq));
        if (w.res) w.h = fnv(w.h, cmb_resource_in_use(w.res));
    }

    /* clean up */
    cmb_event_queue_terminate();
    for (unsigned i = 0; i < w.nprocs; i++) {
        cmb_process_terminate(w.procs[i]);
        cmb_process_destroy(w.procs[i]);
    }
    if (w.res) { cmb_resource_terminate(w.res); cmb_resource_destroy(w.res); }
    if (w.buf) { cmb_buffer_terminate(w.buf); cmb_buffer_destroy(w.buf); }
    if (w.oq) { cmb_objectqueue_terminate(w.oq); cmb_objectqueue_destroy(w.oq); }
    if (w.logfp) {
        fclose(w.logfp);
        if (kinds & K_LOGKEEP) {
            t->aux = loglen;                   /* what was printed: NOT part of the digest */
        }
        else {
            /* the trial index column differs between the runner and the sequential reference by design
             * (cmi_logger_trial_idx is set by the worker loop only): digest the text after the first tab of each line
             * when a trial index is printed, i.e. hash only from the time column on */
            const char *p = logbuf;
            while (p && *p) {
                const char *nl = strchr(p, '\n');
                const char *q = p;
                /* skip a leading all-digits field */
                const char *tab = strchr(p, '\t');
                if (tab && (!nl || tab < nl)) {
                    int digits = 1;
                    for (const char *c = p; c < tab; c++) if (*c < '0' || *c > '9') digits = 0;
                    if (digits && tab > p) q = tab + 1;
                }
                const char *e = nl ? nl : p + strlen(p);
                for (const char *c = q; c < e; c++) w.h = (w.h ^ (unsigned char)*c) * UINT64_C(1099511628211);
                w.h = fnv(w.h, 0x0a);
                p = nl ? nl + 1 : NULL;
            }
            t->aux = loglen ? 1 : 0;
        }
        free(logbuf);
    }
    if (kinds & K_ULP) ulp_block(&w, t);
    /* the outcome includes where the stream stands: the next raw 64 bits */
    w.h = fnv(w.h, cmb_random_sfc64());
    /* normally no cmb_random_terminate(): nothing obliges a trial to call it, and the next trial on this thread must be
     * independent of the generator state left here; with K_TERM the odd trials do call it */
    if ((t->kinds & K_TERM) && (t->idx_param & 1u)) cmb_random_terminate();
    t->digest = w.h;
}

/* ---------------------------------------------------------------------------------------------------------------------
 * the trial function handed to cimba_run_experiment
 * ------------------------------------------------------------------------------------------------------------------- */

static void record(int kind, uint64_t idx, uint64_t addr)
{
    const uint64_t s = __atomic_fetch_add(&g_seq, 1, __ATOMIC_SEQ_CST);
    if (s < g_ev_cap) {
        g_ev[s].seq = s; g_ev[s].th = pthread_self(); g_ev[s].idx = idx; g_ev[s].addr = addr; g_ev[s].kind = kind;
    }
}

static void trial_func(void *vp)
{
    const unsigned char *p = vp;
    const uint64_t off = (uint64_t)(p - g_base);
    uint64_t idx = off / g_sz;
    const int aligned = (p >= g_base) && (off % g_sz == 0) && (idx < g_n + GUARD_ELEMS);
    if (!aligned) {
        __atomic_fetch_add(&g_extra, 1, __ATOMIC_SEQ_CST);
        record(1, UINT64_MAX, (uint64_t)p);
        record(2, UINT64_MAX, (uint64_t)p);
        return;
    }
    __atomic_fetch_add(&g_started, 1, __ATOMIC_SEQ_CST);
    record(1, idx, (uint64_t)p);
    __atomic_fetch_add(&g_calls[idx], 1, __ATOMIC_SEQ_CST);
    if (idx >= g_n) {
        __atomic_fetch_add(&g_extra, 1, __ATOMIC_SEQ_CST);
    }
    struct trial_hdr t;
    memcpy(&t, p, sizeof t);
    if (t.magic != MAGIC || t.idx_param != idx) {
        __atomic_fetch_add(&g_notown[idx], 1, __ATOMIC_SEQ_CST);
    }
    if (idx < g_n) {
        busy_wait_us(t.delay_us);
        simulate(&t);
        busy_wait_us(t.delay_us / 4);
    }
    t.ncalls += 1;
    memcpy(vp, &t, sizeof t);
    __atomic_fetch_add(&g_ended, 1, __ATOMIC_SEQ_CST);
    record(2, idx, (uint64_t)p);
}

extern void cmi_mempool_cleanup(void *arg);

static void *fresh_thread(void *vp)
{
    _mm_setcsr(0x1d00);
    trial_func(vp);
    cmi_mempool_cleanup(NULL);                          /* what worker_thread_func does at thread exit */
    return NULL;
}

static uint32_t delay_for(unsigned pat, uint32_t dmax, uint64_t seed, uint64_t i, uint64_t n)
{
    switch (pat) {
    case 1: return (uint32_t)(mix64(seed ^ (i * 7919 + 13)) % (dmax + 1u));
    case 2: return (uint32_t)((uint64_t)dmax * i / (n ? n : 1));
    case 3: return (uint32_t)((uint64_t)dmax * (n - 1 - i) / (n ? n : 1));
    case 4: return i == 0 ? dmax * 8u : dmax / 8u;
    case 5: return (i & 1) ? dmax : 0;
    case 6: return i + 1 == n ? dmax * 8u : dmax / 8u;
    default: return 0;
    }
}

static int cmp_ev(const void *a, const void *b)
{
    const struct ev *x = a, *y = b;
    return (x->seq > y->seq) - (x->seq < y->seq);
}

/* one experiment; several of them may follow each other in the same process (one `run` line each) */
static int one_experiment(const char *mode, unsigned W, uint64_t n, uint64_t sz, uint64_t seed, unsigned pat, unsigned dmax,
                          unsigned kinds, unsigned ordinal)
{
    printf("X %u\n", ordinal);
    g_seq = 0; g_started = 0; g_ended = 0; g_extra = 0;
    if (sz < sizeof(struct trial_hdr) || n == 0) {
        fprintf(stderr, "size must be >= %zu and n > 0\n", sizeof(struct trial_hdr));
        return 2;
    }
    g_W = W; g_n = n; g_sz = sz;
    const size_t total = (size_t)(n + GUARD_ELEMS) * sz;
    const int solo = strcmp(mode, "solo") == 0;
    /* solo: every trial is run ALONE, as a one-trial experiment in a forked child (a fresh worker thread in a process that
     * has never run a trial); the children write their element through a shared mapping */
    unsigned char *raw = solo ? mmap(NULL, total + 64, PROT_READ | PROT_WRITE, MAP_SHARED | MAP_ANONYMOUS, -1, 0)
                              : malloc(total + 64);
    if (raw == NULL || raw == MAP_FAILED) { fprintf(stderr, "allocation failed\n"); return 2; }
    memset(raw, 0xA5, total + 64);
    g_base = raw + 8;                                   /* elements need not be aligned to their size */
    g_calls = calloc(n + GUARD_ELEMS, sizeof *g_calls);
    g_notown = calloc(n + GUARD_ELEMS, sizeof *g_notown);
    g_ev_cap = 2 * (n + GUARD_ELEMS) + 64;
    g_ev = calloc(g_ev_cap, sizeof *g_ev);
    for (uint64_t i = 0; i < n + GUARD_ELEMS; i++) {
        struct trial_hdr t;
        memset(&t, 0, sizeof t);
        const uint64_t si = (kinds & K_SAMESEED) ? 0u : (kinds & K_SEED3) ? i % 3u : i;
        t.magic = MAGIC; t.idx_param = i; t.seed = mix64(seed * 1000003u + si) | 1u; t.kinds = kinds;
        t.delay_us = delay_for(pat, dmax, seed, i, n);
        memcpy(g_base + i * sz, &t, sizeof t);
    }
    uint64_t ended_at_return = 0;
    if (strcmp(mode, "par") == 0) {
        cimba_run_experiment(g_base, n, sz, trial_func);
        ended_at_return = __atomic_load_n(&g_ended, __ATOMIC_SEQ_CST);
    }
    else if (strcmp(mode, "seq") == 0 || strcmp(mode, "rev") == 0) {
        _mm_setcsr(0x1d00);                             /* what cimba_run_experiment sets for its threads */
        for (uint64_t k = 0; k < n; k++) {
            const uint64_t i = (mode[0] == 's') ? k : n - 1 - k;
            trial_func(g_base + i * sz);
        }
        ended_at_return = __atomic_load_n(&g_ended, __ATOMIC_SEQ_CST);
    }
    else if (solo) {
        fflush(stdout);
        for (uint64_t i = 0; i < n; i++) {
            const pid_t pid = fork();
            if (pid == 0) {
                g_W = W ? W : 1;
                cimba_run_experiment(g_base + i * sz, 1, sz, trial_func);   /* the child's experiment is this one element */
                _exit(0);
            }
            int status = 0;
            if (pid < 0 || waitpid(pid, &status, 0) < 0 || !WIFEXITED(status) || WEXITSTATUS(status) != 0) {
                fprintf(stderr, "solo child for trial %" PRIu64 " failed (status %d)\n", i, status);
                return 3;
            }
        }
        /* the counters live in the children: reconstruct them from what the children stored in their elements */
        for (uint64_t i = 0; i < n; i++) {
            struct trial_hdr t;
            memcpy(&t, g_base + i * sz, sizeof t);
            g_calls[i] = (uint32_t)t.ncalls;
            g_ended += t.ncalls;
        }
        ended_at_return = g_ended;
    }
    else if (strcmp(mode, "fresh") == 0) {
        for (uint64_t i = 0; i < n; i++) {
            pthread_t th;
            pthread_create(&th, NULL, fresh_thread, g_base + i * sz);
            pthread_join(th, NULL);
        }
        ended_at_return = __atomic_load_n(&g_ended, __ATOMIC_SEQ_CST);
    }
    else {
        fprintf(stderr, "unknown mode %s\n", mode);
        return 2;
    }

    printf("P %u %" PRIu64 " %" PRIu64 " %" PRIu64 "\n", cmi_cpu_cores(), n, sz, (uint64_t)g_base);
    uint64_t nev = __atomic_load_n(&g_seq, __ATOMIC_SEQ_CST);
    if (nev > g_ev_cap) nev = g_ev_cap;
    qsort(g_ev, nev, sizeof *g_ev, cmp_ev);
    /* small thread numbers in order of first appearance */
    pthread_t *ths = calloc(nev + 1, sizeof *ths);
    unsigned nth = 0;
    for (uint64_t k = 0; k < nev; k++) {
        unsigned tnum = nth;
        for (unsigned j = 0; j < nth; j++) if (pthread_equal(ths[j], g_ev[k].th)) { tnum = j; break; }
        if (tnum == nth) ths[nth++] = g_ev[k].th;
        if (g_ev[k].kind == 1)
            printf("S %" PRIu64 " %u %" PRIu64 " %" PRIu64 "\n", g_ev[k].seq, tnum, g_ev[k].idx, g_ev[k].addr);
        else
            printf("E %" PRIu64 " %u %" PRIu64 "\n", g_ev[k].seq, tnum, g_ev[k].idx);
    }
    int guard_ok = 1;
    for (size_t k = 0; k < 8; k++) if (raw[k] != 0xA5) guard_ok = 0;
    for (size_t k = 8 + total; k < total + 64; k++) if (raw[k] != 0xA5) guard_ok = 0;
    for (uint64_t i = 0; i < n + GUARD_ELEMS; i++) {
        struct trial_hdr t;
        memcpy(&t, g_base + i * sz, sizeof t);
        for (size_t k = sizeof t; k < sz; k++) if (g_base[i * sz + k] != 0xA5) guard_ok = 0;
        if (i < n) {
            printf("C %" PRIu64 " %u %d\n", i, g_calls[i], (g_notown[i] == 0 && t.ncalls == g_calls[i] && t.idx_param == i) ? 1 : 0);
            printf("D %" PRIu64 " %016" PRIx64 " %" PRIx64 "\n", i, t.digest, t.aux);
        }
        else if (t.ncalls != 0 || g_calls[i] != 0) {
            printf("C %" PRIu64 " %u 0\n", i, g_calls[i]);
        }
    }
    printf("R %" PRIu64 " %" PRIu64 " %d\n", ended_at_return, g_extra, guard_ok);
    fflush(stdout);
    free(ths); free(g_ev); free(g_calls); free(g_notown);
    if (solo) munmap(raw, total + 64); else free(raw);
    g_ev = NULL; g_calls = NULL; g_notown = NULL; g_base = NULL;
    return 0;
}

int main(void)
{
    char mode[16];
    unsigned W, pat, dmax, kinds, ordinal = 0;
    uint64_t n, sz, seed;
    int r;
    while ((r = scanf(" run %15s %u %" SCNu64 " %" SCNu64 " %" SCNu64 " %u %u %u", mode, &W, &n, &sz, &seed, &pat, &dmax, &kinds)) == 8) {
        const int rc = one_experiment(mode, W, n, sz, seed, pat, dmax, kinds, ordinal++);
        if (rc != 0) return rc;
    }
    if (ordinal == 0 || r != EOF) {
        fprintf(stderr, "bad scenario line\n");
        return 2;
    }
    return 0;
}
