/*
 * statdrv - correspondence driver for cmb_datasummary / cmb_wtdsummary (C17), see DESIGN.md §2.3.
 *
 * One operation per line on stdin, one result line per operation on stdout. Doubles travel as C99 hex floats (%a), so
 * nothing is rounded on the way. Slots d0..d7 hold struct cmb_datasummary, w0..w7 hold struct cmb_wtdsummary; merge
 * targets and sources are slot numbers and MAY coincide (merge into either operand).
 *
 *   dinit i | dadd i x | dmerge t a b | dset i count min max m1 m2 m3 m4 | dget i | dstat i
 *   xnew | xadd x | xsum i        a cmb_dataset: add values, cmb_dataset_summarize into d[i]      (users of the summaries,
 *   tnew | tadd x t | tfin t | tsum i   a cmb_timeseries: cmb_timeseries_summarize into w[i]       test part only)
 *   winit i | wadd i x w | wmerge t a b | wset i count min max m1 m2 m3 m4 wsum | wget i | wstat i
 *
 * Every library call is bracketed by feclearexcept / fetestexcept: "fe=<mask>" tells the caller whether the IEEE
 * arithmetic inside that call was exact (mask & 1 == 0: no FE_INEXACT) — only then the exact-field model must agree
 * bit for bit.  mask bits: 1 inexact, 2 invalid, 4 divbyzero, 8 overflow, 16 underflow.
 * A library abort (cmi_assert_failed -> abort) is caught and reported as "abort".
 */
#include <fenv.h>
#include <inttypes.h>
#include <math.h>
#include <setjmp.h>
#include <signal.h>
#include <stdio.h>
#include <stdlib.h>
#include <string.h>

#include "cmb_datasummary.h"
#include "cmb_wtdsummary.h"
#include "cmb_dataset.h"
#include "cmb_timeseries.h"

#pragma STDC FENV_ACCESS ON

#define NSLOT 8
static struct cmb_datasummary d[NSLOT];
static struct cmb_wtdsummary w[NSLOT];
static struct cmb_dataset *xds = NULL;
static struct cmb_timeseries *xts = NULL;
static sigjmp_buf jb;

static void on_abort(int sig)
{
    (void)sig;
    siglongjmp(jb, 1);
}

static void reset_slots(void)
{
    for (int i = 0; i < NSLOT; i++) {
        memset(&d[i], 0, sizeof d[i]);
        memset(&w[i], 0, sizeof w[i]);
        d[i].cookie = CMI_UNINITIALIZED;
        w[i].ds.cookie = CMI_UNINITIALIZED;
    }
}

static int fe_mask(void)
{
    const int f = fetestexcept(FE_ALL_EXCEPT);
    return ((f & FE_INEXACT) ? 1 : 0) | ((f & FE_INVALID) ? 2 : 0) | ((f & FE_DIVBYZERO) ? 4 : 0)
         | ((f & FE_OVERFLOW) ? 8 : 0) | ((f & FE_UNDERFLOW) ? 16 : 0);
}

static int slot(const char *s)
{
    const int i = atoi(s);
    if (i < 0 || i >= NSLOT) {
        fprintf(stderr, "bad slot %s\n", s);
        exit(2);
    }
    return i;
}

static void put_ds(const char *tag, const struct cmb_datasummary *p)
{
    printf("%s %" PRIu64 " %a %a %a %a %a %a", tag, p->count, p->min, p->max, p->m1, p->m2, p->m3, p->m4);
}

/* call one accessor, report value and exception mask */
#define STAT(expr) do { feclearexcept(FE_ALL_EXCEPT); volatile double v_ = (expr); printf(" %a:%d", v_, fe_mask()); } while (0)

int main(void)
{
    char line[4096];
    char *tok[16];
    struct sigaction sa;
    memset(&sa, 0, sizeof sa);
    sa.sa_handler = on_abort;
    sa.sa_flags = SA_NODEFER;
    sigaction(SIGABRT, &sa, NULL);
    reset_slots();
    /* the library reports assert failures on stderr; keep stdout line-per-op */
    while (fgets(line, sizeof line, stdin) != NULL) {
        int n = 0;
        for (char *t = strtok(line, " \t\r\n"); t != NULL && n < 16; t = strtok(NULL, " \t\r\n")) {
            tok[n++] = t;
        }
        if (n == 0 || tok[0][0] == '#') {
            continue;
        }
        const char *op = tok[0];
        if (sigsetjmp(jb, 1) != 0) {
            printf("abort\n");
            fflush(stdout);
            continue;
        }
        if (strcmp(op, "case") == 0) {
            reset_slots();
            printf("case %s\n", n > 1 ? tok[1] : "?");
        }
        else if (strcmp(op, "dinit") == 0 && n == 2) {
            cmb_datasummary_initialize(&d[slot(tok[1])]);
            printf("ok 0 fe=0\n");
        }
        else if (strcmp(op, "dadd") == 0 && n == 3) {
            const double x = strtod(tok[2], NULL);
            feclearexcept(FE_ALL_EXCEPT);
            const uint64_t r = cmb_datasummary_add(&d[slot(tok[1])], x);
            printf("ok %" PRIu64 " fe=%d\n", r, fe_mask());
        }
        else if (strcmp(op, "dmerge") == 0 && n == 4) {
            feclearexcept(FE_ALL_EXCEPT);
            const uint64_t r = cmb_datasummary_merge(&d[slot(tok[1])], &d[slot(tok[2])], &d[slot(tok[3])]);
            printf("ok %" PRIu64 " fe=%d\n", r, fe_mask());
        }
        else if (strcmp(op, "dset") == 0 && n == 9) {
            struct cmb_datasummary *p = &d[slot(tok[1])];
            p->cookie = CMI_INITIALIZED;
            p->count = strtoull(tok[2], NULL, 10);
            p->min = strtod(tok[3], NULL);
            p->max = strtod(tok[4], NULL);
            p->m1 = strtod(tok[5], NULL);
            p->m2 = strtod(tok[6], NULL);
            p->m3 = strtod(tok[7], NULL);
            p->m4 = strtod(tok[8], NULL);
            printf("ok 0 fe=0\n");
        }
        else if (strcmp(op, "dget") == 0 && n == 2) {
            put_ds("D", &d[slot(tok[1])]);
            printf("\n");
        }
        else if (strcmp(op, "dstat") == 0 && n == 2) {
            const struct cmb_datasummary *p = &d[slot(tok[1])];
            printf("S %" PRIu64, cmb_datasummary_count(p));
            STAT(cmb_datasummary_min(p));
            STAT(cmb_datasummary_max(p));
            STAT(cmb_datasummary_mean(p));
            STAT(cmb_datasummary_variance(p));
            STAT(cmb_datasummary_stddev(p));
            STAT(cmb_datasummary_skewness(p));
            STAT(cmb_datasummary_kurtosis(p));
            printf("\n");
        }
        else if (strcmp(op, "winit") == 0 && n == 2) {
            cmb_wtdsummary_initialize(&w[slot(tok[1])]);
            printf("ok 0 fe=0\n");
        }
        else if (strcmp(op, "wadd") == 0 && n == 4) {
            const double x = strtod(tok[2], NULL);
            const double ww = strtod(tok[3], NULL);
            feclearexcept(FE_ALL_EXCEPT);
            const uint64_t r = cmb_wtdsummary_add(&w[slot(tok[1])], x, ww);
            printf("ok %" PRIu64 " fe=%d\n", r, fe_mask());
        }
        else if (strcmp(op, "wmerge") == 0 && n == 4) {
            feclearexcept(FE_ALL_EXCEPT);
            const uint64_t r = cmb_wtdsummary_merge(&w[slot(tok[1])], &w[slot(tok[2])], &w[slot(tok[3])]);
            printf("ok %" PRIu64 " fe=%d\n", r, fe_mask());
        }
        else if (strcmp(op, "wset") == 0 && n == 10) {
            struct cmb_wtdsummary *q = &w[slot(tok[1])];
            struct cmb_datasummary *p = &q->ds;
            p->cookie = CMI_INITIALIZED;
            p->count = strtoull(tok[2], NULL, 10);
            p->min = strtod(tok[3], NULL);
            p->max = strtod(tok[4], NULL);
            p->m1 = strtod(tok[5], NULL);
            p->m2 = strtod(tok[6], NULL);
            p->m3 = strtod(tok[7], NULL);
            p->m4 = strtod(tok[8], NULL);
            q->wsum = strtod(tok[9], NULL);
            printf("ok 0 fe=0\n");
        }
        else if (strcmp(op, "wget") == 0 && n == 2) {
            const struct cmb_wtdsummary *q = &w[slot(tok[1])];
            put_ds("W", &q->ds);
            printf(" %a\n", q->wsum);
        }
        else if (strcmp(op, "wstat") == 0 && n == 2) {
            const struct cmb_wtdsummary *q = &w[slot(tok[1])];
            printf("S %" PRIu64, cmb_wtdsummary_count(q));
            STAT(cmb_wtdsummary_min(q));
            STAT(cmb_wtdsummary_max(q));
            STAT(cmb_wtdsummary_mean(q));
            STAT(cmb_wtdsummary_variance(q));
            STAT(cmb_wtdsummary_stddev(q));
            STAT(cmb_wtdsummary_skewness(q));
            STAT(cmb_wtdsummary_kurtosis(q));
            printf("\n");
        }
        else if (strcmp(op, "xnew") == 0) {
            if (xds != NULL) cmb_dataset_destroy(xds);
            xds = cmb_dataset_create();
            printf("ok 0 fe=0\n");
        }
        else if (strcmp(op, "xadd") == 0 && n == 2) {
            printf("ok %" PRIu64 " fe=0\n", cmb_dataset_add(xds, strtod(tok[1], NULL)));
        }
        else if (strcmp(op, "xsum") == 0 && n == 2) {
            feclearexcept(FE_ALL_EXCEPT);
            const uint64_t r = cmb_dataset_summarize(xds, &d[slot(tok[1])]);
            printf("ok %" PRIu64 " fe=%d\n", r, fe_mask());
        }
        else if (strcmp(op, "tnew") == 0) {
            if (xts != NULL) cmb_timeseries_destroy(xts);
            xts = cmb_timeseries_create();
            printf("ok 0 fe=0\n");
        }
        else if (strcmp(op, "tadd") == 0 && n == 3) {
            printf("ok %" PRIu64 " fe=0\n", cmb_timeseries_add(xts, strtod(tok[1], NULL), strtod(tok[2], NULL)));
        }
        else if (strcmp(op, "tfin") == 0 && n == 2) {
            printf("ok %" PRIu64 " fe=0\n", cmb_timeseries_finalize(xts, strtod(tok[1], NULL)));
        }
        else if (strcmp(op, "tsum") == 0 && n == 2) {
            feclearexcept(FE_ALL_EXCEPT);
            const uint64_t r = cmb_timeseries_summarize(xts, &w[slot(tok[1])]);
            printf("ok %" PRIu64 " fe=%d\n", r, fe_mask());
        }
        else {
            fprintf(stderr, "bad op: %s (%d tokens)\n", op, n);
            return 2;
        }
        fflush(stdout);
    }
    return 0;
}
