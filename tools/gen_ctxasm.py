"""T-gen for C03 (asm2lean): the assembled context-switch object -> lean/CimbaModel/Generated/CtxAsm.lean

Source of truth is the *object code*: `objdump -d -M intel` of <impl>/cmi_coroutine_context_asm.o (assembled by
vlib.build_impl from the current working tree).  Every instruction of `cmi_coroutine_context_switch` and
`cmi_coroutine_trampoline` is parsed into a constructor of CimbaModel.Ctx.Instr together with its encoded length.
An opcode / operand form that the model does not have is a translation failure (`Untranslatable`): the tie is
broken, never silently skipped.

Cross-check: the macro-expanded NASM source (`nasm -E`) is parsed independently into the same constructors; the two
lists have to be equal, so a change in the source that the assembler encodes differently, or a stale object, is seen.
"""
import hashlib
import os
import re

import vlib

ASM = os.path.join(vlib.PORT, "cmi_coroutine_context.asm")
CSRC = os.path.join(vlib.PORT, "cmi_coroutine_context.c")
ROUTINES = [("cmi_coroutine_context_switch", "switchCode"), ("cmi_coroutine_trampoline", "trampCode")]
REGS = ["rax", "rcx", "rdx", "rbx", "rsp", "rbp", "rsi", "rdi", "r8", "r9", "r10", "r11", "r12", "r13", "r14", "r15"]


class Untranslatable(Exception):
    pass


def _reg(tok, ctx):
    tok = tok.strip().lower()
    if tok not in REGS:
        raise Untranslatable("operand '%s' is not a 64-bit general purpose register (%s)" % (tok, ctx))
    return "." + tok


def _num(tok, ctx):
    tok = tok.strip().lower().replace("_", "")
    try:
        if tok.endswith("h") and re.fullmatch(r"[0-9][0-9a-f]*h", tok):
            return int(tok[:-1], 16)
        return int(tok, 0)
    except ValueError:
        raise Untranslatable("cannot read the number '%s' (%s)" % (tok, ctx))


def _w(n):
    return "0x%x#64" % (n % (1 << 64))


_MEM = re.compile(r"^(?:(qword|dword)\s*(?:ptr)?\s*)?\[\s*([a-z0-9]+)\s*(?:([+-])\s*([0-9a-fx_h]+)\s*)?\]$")


def _mem(tok, ctx):
    """-> (size or None, reg, disp) for `[reg]`, `[reg+disp]`, `QWORD PTR [reg-disp]` ..."""
    m = _MEM.match(tok.strip().lower())
    if not m:
        return None
    size, reg, sign, disp = m.groups()
    d = _num(disp, ctx) if disp else 0
    if sign == "-":
        d = -d
    return size, _reg(reg, ctx), d


def instr(mn, ops, ctx, from_objdump, raw=b""):
    """One instruction -> Lean term of type Instr.  `ops` is the operand string."""
    mn = mn.lower()
    o = [x.strip() for x in ops.split(",")] if ops.strip() else []
    if mn in ("pushf", "pushfq", "popf", "popfq"):
        if o:
            raise Untranslatable("operands on %s (%s)" % (mn, ctx))
        if from_objdump:
            # objdump prints the 64-bit form as pushf/popf; an operand-size prefix (66) makes it the 16-bit form
            if raw not in (b"\x9c", b"\x9d"):
                raise Untranslatable("%s with encoding %s is not PUSHFQ/POPFQ (%s)" % (mn, raw.hex(), ctx))
        elif not mn.endswith("q"):
            raise Untranslatable("%s in the source is not the 64-bit form (%s)" % (mn, ctx))
        return ".pushfq" if mn.startswith("push") else ".popfq"
    if mn in ("push", "pop") and len(o) == 1:
        return ".%s %s" % (mn, _reg(o[0], ctx))
    if mn == "mov" and len(o) == 2:
        md, ms = _mem(o[0], ctx), _mem(o[1], ctx)
        if md is None and ms is None:
            return ".movRR %s %s" % (_reg(o[0], ctx), _reg(o[1], ctx))
        if md is not None and ms is None:
            if md[0] == "dword":
                raise Untranslatable("32-bit store (%s)" % ctx)
            return ".movMR %s %s %s" % (md[1], _w(md[2]), _reg(o[1], ctx))
        if md is None and ms is not None:
            if ms[0] == "dword":
                raise Untranslatable("32-bit load (%s)" % ctx)
            return ".movRM %s %s %s" % (_reg(o[0], ctx), ms[1], _w(ms[2]))
    if mn in ("sub", "add") and len(o) == 2 and _mem(o[0], ctx) is None and _mem(o[1], ctx) is None:
        if o[1].lower() in REGS:
            raise Untranslatable("%s reg, reg is not modelled (%s)" % (mn, ctx))
        return ".%sRI %s %s" % (mn, _reg(o[0], ctx), _w(_num(o[1], ctx)))
    if mn == "xor" and len(o) == 2:
        return ".xorRR %s %s" % (_reg(o[0], ctx), _reg(o[1], ctx))
    if mn == "lea" and len(o) == 2:
        m = _mem(o[1], ctx)
        if m is not None:
            return ".leaRM %s %s %s" % (_reg(o[0], ctx), m[1], _w(m[2]))
    if mn in ("stmxcsr", "ldmxcsr") and len(o) == 1:
        m = _mem(o[0], ctx)
        if m is not None and m[0] in (None, "dword"):
            return ".%s %s %s" % (mn, m[1], _w(m[2]))
    if mn in ("call", "jmp") and len(o) == 1 and o[0].lower() in REGS:
        return ".%sR %s" % (mn, _reg(o[0], ctx))
    if mn in ("ret", "retq") and not o:
        if from_objdump and raw != b"\xc3":
            raise Untranslatable("ret with encoding %s (%s)" % (raw.hex(), ctx))
        return ".ret"
    raise Untranslatable("instruction '%s %s' is outside the modelled subset (%s)" % (mn, ops, ctx))


def parse_objdump(text):
    """-> {symbol: [(lean_term, length, offset, 'mnemonic operands')]}"""
    out, cur = {}, None
    for line in text.splitlines():
        m = re.match(r"^[0-9a-f]+ <([^>]+)>:\s*$", line)
        if m:
            cur = m.group(1)
            out[cur] = []
            continue
        m = re.match(r"^\s*([0-9a-f]+):\t((?:[0-9a-f]{2} )+)\s*(?:\t(.*))?$", line)
        if m and cur is not None:
            off, raw, txt = int(m.group(1), 16), bytes.fromhex(m.group(2).replace(" ", "")), (m.group(3) or "").strip()
            if not txt:
                # continuation line of a long encoding
                if out[cur]:
                    t, ln, o, s = out[cur][-1]
                    out[cur][-1] = (t, ln + len(raw), o, s)
                continue
            txt = re.sub(r"\s*#.*$", "", txt)
            parts = txt.split(None, 1)
            mn, ops = parts[0], (parts[1] if len(parts) > 1 else "")
            out[cur].append((instr(mn, ops, "%s+0x%x: %s" % (cur, off, txt), True, raw), len(raw), off, txt))
    return out


def parse_nasm(expanded):
    """macro-expanded NASM text -> {label: [lean_term]}"""
    out, cur = {}, None
    for line in expanded.splitlines():
        line = line.split(";", 1)[0].strip()
        if not line or line.startswith("%") or line.startswith("["):
            continue
        m = re.match(r"^([A-Za-z_.$][\w.$]*):\s*(.*)$", line)
        if m:
            cur = m.group(1)
            out[cur] = []
            line = m.group(2).strip()
            if not line:
                continue
        if cur is None:
            raise Untranslatable("instruction outside a label in the NASM source: " + line)
        parts = line.split(None, 1)
        out[cur].append(instr(parts[0], parts[1] if len(parts) > 1 else "", "source: " + line, False))
    return out


# ---------------------------------------------------------------------------------------------------------------
# the stores of cmi_coroutine_context_init (C source) -> `currentStores`
# ---------------------------------------------------------------------------------------------------------------

def _strip_c_comments(t):
    t = re.sub(r"/\*.*?\*/", " ", t, flags=re.S)
    return re.sub(r"//[^\n]*", " ", t)


def _c_value(e, ctx):
    """RHS of a store -> (Lean term of type W, python description)"""
    e = e.strip()
    while True:
        e2 = re.sub(r"^\(\s*(?:uintptr_t|uint64_t|uint32_t|void\s*\*)\s*\)\s*", "", e).strip()
        if e2.startswith("(") and e2.endswith(")") and e2.count("(") == e2.count(")") and _balanced(e2[1:-1]):
            e2 = e2[1:-1].strip()
        if e2 == e:
            break
        e = e2
    names = {"cmi_coroutine_trampoline": "tramp", "cp->cr_function": "fn", "cp": "cp", "cp->context": "ctx",
             "cmi_coroutine_exit": "exitf", "cp->cr_exit": "exitf"}
    if e in names:
        return names[e]
    m = re.fullmatch(r"cp->stack_base\s*-\s*(\w+)", e)
    if m:
        return "(base - %s)" % _w(_c_int(m.group(1), ctx))
    return _w(_c_int(e, ctx))


def _balanced(t):
    d = 0
    for ch in t:
        if ch == "(":
            d += 1
        elif ch == ")":
            d -= 1
            if d < 0:
                return False
    return d == 0


def _c_int(tok, ctx):
    t = re.sub(r"(?i)(ull|ul|u|ll|l)$", "", tok.strip())
    try:
        return int(t, 0)
    except ValueError:
        raise Untranslatable("cannot read the C expression '%s' (%s)" % (tok, ctx))


def parse_context_init(text):
    """-> (list of Lean CStore terms, bytes below stack_base where stack_pointer ends up, description list)"""
    text = _strip_c_comments(text)
    m = re.search(r"void\s+cmi_coroutine_context_init\s*\([^)]*\)\s*\{", text)
    if not m:
        raise Untranslatable("cmi_coroutine_context_init not found")
    body = text[m.end():]
    a = re.search(r"unsigned\s+char\s*\*\s*stkptr\s*=\s*cp->stack_base\s*;", body)
    b = re.search(r"cp->stack_pointer\s*=\s*stkptr\s*;", body)
    if not a or not b or b.start() < a.end():
        raise Untranslatable("cannot find the frame-writing part of cmi_coroutine_context_init (stkptr = stack_base ... stack_pointer = stkptr)")
    part = body[a.end():b.start()]
    # the one conditional: which exit function goes into the r15 slot; both arms must store to the same place
    def cond(mm):
        x, y = mm.group(1).strip(), mm.group(2).strip()
        px = re.fullmatch(r"(\*\s*\([^)]*\)\s*\(?[^=]*?\)?)\s*=\s*\(uintptr_t\)\s*cmi_coroutine_exit\s*;", x)
        py = re.fullmatch(r"(\*\s*\([^)]*\)\s*\(?[^=]*?\)?)\s*=\s*\(uintptr_t\)\s*\(?\s*cp->cr_exit\s*\)?\s*;", y)
        if not px or not py or re.sub(r"\s", "", px.group(1)) != re.sub(r"\s", "", py.group(1)):
            raise Untranslatable("the cr_exit conditional of cmi_coroutine_context_init has an unexpected shape")
        return px.group(1) + " = (uintptr_t)cmi_coroutine_exit;"
    part = re.sub(r"if\s*\(\s*cp->cr_exit\s*==\s*NULL\s*\)\s*\{([^{}]*)\}\s*else\s*\{([^{}]*)\}", cond, part)
    if re.search(r"\b(if|while|for|switch|goto)\b", part):
        raise Untranslatable("control flow in the frame-writing part of cmi_coroutine_context_init")
    below, stores, desc = 0, [], []
    for st in part.split(";"):
        st = " ".join(st.split())
        if not st or st.startswith("cmb_assert_debug"):
            continue
        m = re.fullmatch(r"stkptr -= (\w+)", st)
        if m:
            below += _c_int(m.group(1), st)
            continue
        m = re.fullmatch(r"stkptr \+= (\w+)", st)
        if m:
            below -= _c_int(m.group(1), st)
            continue
        m = re.fullmatch(r"\* ?\( ?(uint64_t|uint32_t) ?\* ?\) ?(?:stkptr|\( ?stkptr ?([+-]) ?(\w+) ?\)) ?= ?(.+)", st)
        if not m:
            raise Untranslatable("statement '%s' of cmi_coroutine_context_init is outside the modelled subset" % st)
        ty, sign, off, rhs = m.groups()
        k = _c_int(off, st) if off else 0
        d = below - k if sign != "-" else below + k
        v = _c_value(rhs, st)
        if d <= 0 or d % 4 != 0:
            raise Untranslatable("store at %d bytes below stack_base is not 4-aligned / not below it (%s)" % (d, st))
        if ty == "uint64_t":
            stores.append(".u64 %d %s" % (d, v))
        else:
            if v in ("tramp", "fn", "cp", "ctx", "exitf") or v.startswith("(base"):
                raise Untranslatable("32-bit store of an address (%s)" % st)
            stores.append(".u32 %d %s" % (d, v.replace("#64", "#32")))
        desc.append("%s@-%d=%s" % (ty, d, v))
    return stores, below, desc


def generate(impl):
    """Returns (lean_text, info).  Raises Untranslatable."""
    obj = os.path.join(impl["dir"], "cmi_coroutine_context_asm.o")
    if not os.path.exists(obj):
        raise Untranslatable("no assembled object " + obj)
    rc, dis = vlib.sh(["objdump", "-d", "-M", "intel", "-w", obj])
    if rc != 0:
        raise Untranslatable("objdump failed: " + dis[-500:])
    obj_r = parse_objdump(dis)
    rc, exp = vlib.sh(["nasm", "-E", os.path.join(vlib.REPO, ASM)])
    if rc != 0:
        raise Untranslatable("nasm -E failed: " + exp[-500:])
    src_r = parse_nasm(exp)
    out = ["/- GENERATED by tools/gen_ctxasm.py from the object code assembled out of /repo's current",
           "   src/port/x86-64/linux/cmi_coroutine_context.asm on every run. Do not edit. -/",
           "import CimbaModel.Ctx.X86", "import CimbaModel.Ctx.Frame", "", "namespace CimbaModel.Generated", "open CimbaModel.Ctx", ""]
    info = {"object_sha256": hashlib.sha256(open(obj, "rb").read()).hexdigest()[:16], "routines": {}}
    for sym, lname in ROUTINES:
        if sym not in obj_r:
            raise Untranslatable("symbol %s not found in the object" % sym)
        if sym not in src_r:
            raise Untranslatable("label %s not found in the NASM source" % sym)
        ins = obj_r[sym]
        a, b = [t for t, _, _, _ in ins], src_r[sym]
        if a != b:
            d = vlib.first_diff(a, b)
            raise Untranslatable("object code and NASM source of %s differ at instruction %s: object '%s' vs source '%s'" % (
                sym, d, a[d] if d is not None and d < len(a) else "<end>", b[d] if d is not None and d < len(b) else "<end>"))
        out.append("/-- %s: %d instructions, %d bytes -/" % (sym, len(ins), sum(n for _, n, _, _ in ins)))
        out.append("def %s : Code := [" % lname)
        for k, (t, n, off, txt) in enumerate(ins):
            out.append("  (%s, %d)%s  -- +0x%02x  %s" % (t, n, "," if k + 1 < len(ins) else "", off - ins[0][2], txt))
        out.append("]")
        out.append("")
        info["routines"][sym] = {"instructions": len(ins), "bytes": sum(n for _, n, _, _ in ins),
                                 "mnemonics": " ; ".join(txt for _, _, _, txt in ins)}
    # the stores of cmi_coroutine_context_init
    csrc = open(os.path.join(vlib.REPO, CSRC)).read()
    stores, below, desc = parse_context_init(csrc)
    out.append("/-- the stores of cmi_coroutine_context_init (src/port/x86-64/linux/cmi_coroutine_context.c), in program")
    out.append("    order, each at its distance below the aligned stack_base -/")
    out.append("def currentStores (tramp fn cp ctx exitf base : W) : List CStore := [")
    out.append(",\n".join("  " + t for t in stores))
    out.append("]")
    out.append("")
    out.append("/-- cp->stack_pointer ends up this many bytes below stack_base -/")
    out.append("def currentSpBelow : Nat := %d" % below)
    out.append("")
    info["context_init"] = {"stores": desc, "sp_below": below,
                            "source_sha256": hashlib.sha256(csrc.encode()).hexdigest()[:16]}
    out.append("end CimbaModel.Generated")
    return "\n".join(out) + "\n", info


def run(impl):
    text, info = generate(impl)
    changed = vlib.write_if_changed(os.path.join(vlib.GEN, "CtxAsm.lean"), text)
    return info, changed


if __name__ == "__main__":
    text, info = generate(vlib.build_impl("rel"))
    print(text)
