#!/usr/bin/env python3
"""Writes /verif/MANIFEST.json from tools/manifest_data.py; every property without a check is listed under not_applicable."""
import json
import os
import sys

HERE = os.path.dirname(os.path.abspath(__file__))
sys.path.insert(0, HERE)
import manifest_data as md  # noqa: E402

VERIF = os.path.dirname(HERE)
props = [json.loads(l)["id"] for l in open(os.path.join(VERIF, "properties.jsonl"))]
checks = []
for pid in props:
    c = md.CHECKS.get(pid)
    if not c or not os.path.exists(os.path.join(HERE, "props", pid + ".py")):
        continue
    checks.append({
        "property_id": pid,
        "quick_cmd": "./check %s --tier quick" % pid,
        "thorough_cmd": "./check %s --tier thorough" % pid,
        "evidence_file": "evidence/%s.json" % pid,
        "replay_cmd_template": "./check %s --replay {path}" % pid,
        "engine": c.get("engine", "lean"),
        "level_claimed": {"category": "proof", "text": c["text"], "design_ref": c.get("design_ref", "DESIGN.md §4 %s; notes/%s.md" % (pid, pid))},
        "level_note": c.get("note", md.LEVEL_NOTE_COMMON),
        "technique": c.get("technique", "Lean 4 theorem + correspondence"),
    })
claimed = {c["property_id"] for c in checks}
na = [{"property_id": p, "reason": md.PENDING.get(p, "check not built yet in this round (design in DESIGN.md §4); not claimed until its check exists")}
      for p in props if p not in claimed]
for e in md.ENGINES:
    if not e["serves_properties"]:
        e["serves_properties"] = sorted(claimed)
m = {
    "version": 1,
    "setup_cmd": "./setup.sh",
    "hooks": {"guard": "CIMBA_VERIF", "enable": "checks compile /repo's working tree themselves (tools/vlib.py build_impl) with -DCIMBA_VERIF for the 'hook' and 'san' variants",
              "baseline_off_cmd": "meson test -C /repo/_build",
              "source_commits": json.load(open(os.path.join(VERIF, "hooks.json")))["source_commits"], "add_only": True},
    "engines": md.ENGINES,
    "checks": checks,
    "not_applicable": na,
    "notes": "Machine-checked proof in Lean 4 with the model tied to the current source on every run (regenerated definitions and/or "
             "differential correspondence). See DESIGN.md. known_findings.json lists genuine defects recorded rather than repaired.",
}
with open(os.path.join(VERIF, "MANIFEST.json"), "w") as f:
    json.dump(m, f, indent=1)
    f.write("\n")
print("MANIFEST.json: %d checks, %d not claimed" % (len(checks), len(na)))
