"""Build the implementation variants, run every translator, build the whole Lean project and the C harnesses."""
import importlib
import os
import sys

HERE = os.path.dirname(os.path.abspath(__file__))
sys.path.insert(0, HERE)
import vlib  # noqa: E402

impls = {v: vlib.build_impl(v) for v in ("rel", "hook", "san")}
# translators (each gen_*.py exposes run(impl))
for f in sorted(os.listdir(HERE)):
    if f.startswith("gen_") and f.endswith(".py"):
        m = importlib.import_module(f[:-3])
        if hasattr(m, "run"):
            try:
                m.run(impls["rel"])
                print("translator", f, "ok")
            except Exception as ex:  # a broken tie is reported by the owning check, not here
                print("translator", f, "FAILED:", ex)
ok, out = vlib.lake_build([])
print(out[-3000:])
if not ok:
    sys.exit(1)
ok, out = vlib.lake_build([l.split('"')[1] for l in open(os.path.join(vlib.LEAN, "lakefile.toml")) if l.startswith("name = ") and l.split('"')[1] not in ("cimba_model", "CimbaModel", "Drivers")])
print(out[-2000:])
if not ok:
    sys.exit(1)
for f in sorted(os.listdir(os.path.join(vlib.VERIF, "harness"))):
    if f.endswith(".c") and not f.startswith("_"):
        for v in ("hook", "san"):
            try:
                vlib.cc_harness(f[:-2], impls[v])
            except vlib.ImplBuildError:
                # drivers that need extra objects (e.g. ctxdrv + ctxprobe.asm) are built by their own check
                print("harness", f, "is built by its own check")
                break
print("setup done")
