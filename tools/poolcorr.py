"""Exact-state correspondence between the real memory pool (harness/pooldrv.c) and the Lean model (poolmain),
script generation steered by the running model, verdicts and shrinking.  Used by tools/props/C20.py.

A script is a list of lines of the pooldrv protocol (see harness/pooldrv.c).  Scripts are generated against a
running model process: the model's answer to every line is read back, so the generator knows the chunk count, the
objects per chunk after page rounding and whether the free list is exhausted (next allocation expands), and the
answers collected on the way ARE the model's output for the script (no second model run is needed).
"""
import hashlib
import os
import random
import re
import subprocess

import vlib

CORPUS = os.path.join(vlib.VERIF, "corpus", "pool")
PAGE = os.sysconf("SC_PAGESIZE")
OBJ_SIZES = [8, 16, 24, 32, 40, 48, 64, 72, 96, 128, 192, 256, 384, 512]
LIB_POOLS = ["waiter", "awaitable", "holdable"]


# ---------------------------------------------------------------------------
# reading the configuration constants the model needs from the current source
# ---------------------------------------------------------------------------

def chunk_list_size(impl):
    """CHUNK_LIST_SIZE as the preprocessor sees it in the current src/cmi_mempool.c (None if it cannot be read)."""
    src = os.path.join(vlib.REPO, "src", "cmi_mempool.c")
    cmd = ["gcc", "-E", "-dM"] + [f for f in impl["cflags"] if f.startswith(("-I", "-D", "-std"))] + [src]
    rc, out = vlib.sh(cmd, timeout=120)
    if rc != 0:
        return None
    m = re.search(r"^#define\s+CHUNK_LIST_SIZE\s+\(?\s*(\d+)\s*[uUlL]*\s*\)?\s*$", out, re.M)
    return int(m.group(1)) if m else None


def lib_pool_sizes(c_exe):
    rc, o, e = vlib.run_driver(c_exe, "sizes\n")
    w = o.split()
    return {w[i]: (int(w[i + 1]), int(w[i + 2])) for i in range(0, len(w) - 2, 3)} if rc == 0 else {}


# ---------------------------------------------------------------------------
# model session
# ---------------------------------------------------------------------------

class Model:
    """A running poolmain; send() returns the model's answer line for one script line."""

    def __init__(self, lean_exe, cls, defective=False):
        args = [lean_exe, "cls=%d" % cls] + (["defective"] if defective else [])
        self.p = subprocess.Popen(args, stdin=subprocess.PIPE, stdout=subprocess.PIPE)

    def send(self, line):
        self.p.stdin.write((line + "\n").encode())
        self.p.stdin.flush()
        out = self.p.stdout.readline().decode().rstrip("\n")
        while out.startswith("PROPERTY"):          # the model never prints these (proved); keep the stream aligned anyway
            out += "\n" + self.p.stdout.readline().decode().rstrip("\n")
        return out

    def close(self):
        try:
            self.p.stdin.close()
            self.p.wait(timeout=10)
        except Exception:
            self.p.kill()


def model_output(lean_exe, cls, lines, defective=False, timeout=600):
    args = ["cls=%d" % cls] + (["defective"] if defective else [])
    rc, o, e = vlib.run_driver(lean_exe, "\n".join(lines) + "\n", timeout=timeout, args=args)
    return rc, o.splitlines(), e


def field(ans, name):
    m = re.search(r"\b%s=(\S+)" % name, ans)
    return m.group(1) if m else None


# ---------------------------------------------------------------------------
# generator
# ---------------------------------------------------------------------------

class Gen:
    def __init__(self, rng, model, lines=None):
        self.rng, self.model = rng, model
        self.lines, self.answers = [], []
        self.live = []            # live handles
        self.nalloc = 0
        self.cnt = 0              # chunks
        self.num = 0              # objects per chunk
        self.free_cnt = 0
        self.reuse = 0            # allocations served from returned objects
        self.returned = 0         # objects currently on the free list that were live before
        self.expands = 0
        self.max_live = 0
        self.faulted = False

    def do(self, line):
        ans = self.model.send(line)
        self.lines.append(line)
        self.answers.append(ans)
        if ans.startswith(("fault", "bad-op", "no-pool")):
            self.faulted = True
        return ans

    def alloc(self):
        before = self.cnt
        ans = self.do("a")
        if self.faulted:
            return
        self.cnt = int(field(ans, "cnt"))
        self.num = int(field(ans, "num"))
        if self.cnt > before:
            self.expands += 1
            self.free_cnt += self.num
        elif self.returned > 0:
            # LIFO: anything returned sits on top of the never-used objects
            self.returned -= 1
            self.reuse += 1
        self.free_cnt -= 1
        self.live.append(self.nalloc)
        self.nalloc += 1
        self.max_live = max(self.max_live, len(self.live))

    def free(self, h=None):
        if not self.live:
            return
        if h is None:
            r = self.rng.random()
            i = len(self.live) - 1 if r < 0.4 else (0 if r < 0.5 else self.rng.randrange(len(self.live)))
        else:
            i = self.live.index(h)
        h = self.live[i]
        self.live[i] = self.live[-1]
        self.live.pop()
        self.do("f %d" % h)
        self.free_cnt += 1
        self.returned += 1

    def write(self):
        if self.live:
            self.do("w %d %d" % (self.rng.choice(self.live), self.rng.randint(1, 10 ** 6)))

    def exhausted(self):
        return self.free_cnt == 0


def boundary(cnt, cls):
    """chunk counts around which the chunk list itself grows (cnt reaching a multiple of CHUNK_LIST_SIZE)"""
    r = cnt % cls
    return cnt >= cls - 2 and (r >= cls - 2 or r <= 1)


def objects_per_chunk(sz, num):
    return (((num * sz + PAGE - 1) // PAGE) * PAGE) // sz


def few_per_chunk(rng):
    """(obj_sz, obj_num) giving exactly n in {1, 2, 3} objects per chunk of P in {1..4} pages: the smallest and the largest
    object size (multiples of 8) with that population, sizes next to them, a random one in between; includes objects
    larger than a page and sizes just below / above a half and a third of the chunk."""
    for _ in range(200):
        n = rng.choice([1, 1, 2, 3])
        pages = rng.choice([1, 1, 2, 3, 4])
        B = pages * PAGE
        lo = (B // (n + 1)) // 8 * 8 + 8          # smallest multiple of 8 above B/(n+1): n objects fit, n+1 do not
        hi = (B // n) // 8 * 8                    # largest multiple of 8 with n objects in B bytes
        if lo > hi:
            continue
        sz = rng.choice([lo, lo, hi, hi, min(hi, lo + 8), max(lo, hi - 8), rng.randrange(lo, hi + 8, 8)])
        for num in rng.sample(range(1, n + 1), n):
            if objects_per_chunk(sz, num) == n:
                return sz, num
    return PAGE, 1


def gen_script(rng, model, cls, libsizes, deep, budget):
    """One script. `deep`: how many growths of the chunk list to cross (0, 1, 2, 3); `budget`: max allocations."""
    # deep scripts must actually get there: no random walk around a fixed level
    profile = rng.choice(["ramp", "ramp", "churn", "sawtooth"]) if deep == 0 else rng.choice(["ramp", "ramp", "ramp", "sawtooth"])
    kind = rng.choice(["dyn", "dyn", "static", "lib"]) if libsizes else rng.choice(["dyn", "dyn", "static"])
    if kind == "lib" and deep > 0:
        fits = [n for n, (sz_, num_) in libsizes.items()
                if ((((num_ * sz_ + PAGE - 1) // PAGE) * PAGE) // sz_) * (deep * cls + 3) <= budget]
        if not fits:
            kind = "static"
        else:
            libsizes = {n: libsizes[n] for n in fits}
    if kind == "lib":
        name = rng.choice(sorted(libsizes))
        sz, num = libsizes[name]
        init = "init lib %s %d %d" % (name, sz, num)
    elif rng.random() < 0.3:
        # boundary chunk populations: 1, 2 or 3 objects per chunk, object sizes at the edges of each population
        sz, num = few_per_chunk(rng)
        init = "init %s %d %d" % (kind, sz, num)
    else:
        sz = rng.choice(OBJ_SIZES)
        num = rng.choice([1, 1, 2, 3, 5, 8, 16, 64, 100, 128, 256, 511, 512, 513, 1000])
        init = "init %s %d %d" % (kind, sz, num)
    # objects per chunk after rounding, to pick parameters that reach the wanted depth within the budget
    per_chunk = max(1, (((num * sz + PAGE - 1) // PAGE) * PAGE) // sz)
    want_chunks = {0: rng.randint(1, 6), 1: cls + rng.randint(0, 3), 2: 2 * cls + rng.randint(0, 3),
                   3: 3 * cls + rng.randint(0, 2)}[deep]
    if kind != "lib" and per_chunk * want_chunks > budget:
        # few objects per chunk: large objects, small requested number
        sz = rng.choice([s for s in OBJ_SIZES if (PAGE // s) * want_chunks <= budget] or [512])
        num = rng.randint(1, max(1, PAGE // sz))
        init = "init %s %d %d" % (kind, sz, num)
        per_chunk = PAGE // sz
    g = Gen(rng, model)
    g.do("page %d" % PAGE)
    g.do(init)
    p_free = {"ramp": rng.choice([0.0, 0.05, 0.2, 0.35] if deep == 0 else [0.0, 0.03, 0.1]), "churn": 0.47, "sawtooth": 0.02}[profile]
    p_write = rng.choice([0.0, 0.05, 0.15])
    danced = set()
    steps = 0
    max_steps = 6 * budget + 2000
    saw_dir, saw_lo = 1, 0
    while not g.faulted and steps < max_steps and g.nalloc < budget:
        steps += 1
        if g.cnt >= want_chunks and g.exhausted():
            break
        if g.exhausted() and g.cnt > 0 and boundary(g.cnt + 1, cls) and g.cnt not in danced:
            # the next allocation expands, and the expansion is at / next to a growth of the chunk list: dance across it
            danced.add(g.cnt)
            g.alloc()
            if g.faulted:
                break
            top = g.live[-1]
            g.free(top)
            g.alloc()
            for _ in range(rng.randint(1, 4)):
                g.free()
            for _ in range(rng.randint(0, 5)):
                g.alloc()
                if g.faulted:
                    break
            if rng.random() < 0.5:
                g.do("v")
            continue
        r = rng.random()
        if profile == "sawtooth":
            if saw_dir > 0:
                g.alloc()
                if g.exhausted() and rng.random() < 0.3:
                    saw_dir, saw_lo = -1, rng.randint(0, len(g.live))
            else:
                g.free()
                if len(g.live) <= saw_lo:
                    saw_dir = 1
                    if rng.random() < 0.3:
                        g.do("dump")
            continue
        if r < p_free:
            g.free()
        elif r < p_free + p_write:
            g.write()
        else:
            g.alloc()
        if steps % 997 == 0:
            g.do("v")
    if not g.faulted:
        # drain part of the pool, check the LIFO reuse order, fill up again across the live-count thresholds
        k = rng.choice([0, len(g.live) // 3, len(g.live)]) if g.live else 0
        k = min(k, 3000)
        for _ in range(k):
            g.free()
        if k:
            g.do("dump")
        for _ in range(min(k, 3000) // 2):
            g.alloc()
            if g.faulted:
                break
        if not g.faulted:
            g.do("v")
            g.do("end")
    st = {"profile": profile, "kind": kind, "obj_sz": sz, "obj_num": num, "per_chunk": g.num, "chunks": g.cnt,
          "ops": len(g.lines), "allocs": g.nalloc, "reuse": g.reuse, "expands": g.expands, "max_live": g.max_live,
          "list_growths": g.cnt // cls, "model_fault": g.faulted, "reached": g.cnt >= want_chunks}
    return g.lines, g.answers, st


# ---------------------------------------------------------------------------
# running the implementation, verdicts
# ---------------------------------------------------------------------------

SAN_RE = re.compile(r"ERROR: AddressSanitizer|ERROR: LeakSanitizer|runtime error:|SUMMARY: \w+Sanitizer")


def run_impl(c_exe, lines, timeout=180):
    rc, o, e = vlib.run_driver(c_exe, "\n".join(lines) + "\n", timeout=timeout)
    return rc, o.splitlines(), e


def err_excerpt(err, n=14):
    """the informative part of a driver's stderr: head of a sanitizer report, else the tail"""
    ls = err.strip().splitlines()
    for i, l in enumerate(ls):
        if SAN_RE.search(l):
            return [re.sub(r"==\d+==", "", x) for x in ls[i:i + n]]
    return ls[-n:]


def strip_property(out):
    """(result lines, PROPERTY lines)"""
    return [l for l in out if not l.startswith("PROPERTY")], [l for l in out if l.startswith("PROPERTY")]


def verdict(rc, out, err):
    """Is the implementation's own run a violation of C20, independent of the model?  Returns a description or None.
    The scripts are valid client programs (every f/w names a live handle), so a monitor failure, a sanitizer report,
    a signal or a library abort is the pool failing to deliver what the property promises."""
    res, props = strip_property(out)
    if props:
        return props[0]
    m = SAN_RE.search(err)
    if m:
        first = [l for l in err.splitlines() if SAN_RE.search(l)][0]
        where = [l.strip() for l in err.splitlines() if "cmi_mempool" in l][:1]
        first = re.sub(r"==\d+==", "", first)
        first = re.sub(r" on address 0x[0-9a-f]+.*$", "", first)
        return "sanitizer report: %s %s" % (first.strip()[:200], re.sub(r"0x[0-9a-f]+ ", "", where[0]) if where else "")
    if rc < 0 or rc in (134, 139, 136, 138):
        sig = -rc if rc < 0 else rc - 128
        return "the pool crashed the process (signal %d) after %d operations%s" % (
            sig, len(res), (": " + err.strip().splitlines()[-1][:200]) if err.strip() else "")
    if rc == 124:
        return "the pool did not return (timeout) after %d operations" % len(res)
    return None


def compare(c_exe, lines, model_lines):
    """None if the implementation printed exactly the model's lines (and no PROPERTY line, clean exit), else a dict."""
    rc, out, err = run_impl(c_exe, lines)
    v = verdict(rc, out, err)
    res, _ = strip_property(out)
    d = vlib.first_diff(res, model_lines)
    if d is None and rc == 0 and v is None:
        return None
    return {"index": d, "op": lines[d] if d is not None and d < len(lines) else None,
            "impl": res[d] if d is not None and d < len(res) else "<no output> rc=%d" % rc,
            "model": model_lines[d] if d is not None and d < len(model_lines) else "<no output>",
            "rc": rc, "err": err[-3000:], "verdict": v}


# ---------------------------------------------------------------------------
# shrinking (handle-renumbering delta debugging on the implementation's own verdict)
# ---------------------------------------------------------------------------

def parse(lines):
    """-> (header lines, ops) with ops = ('a', id) | ('f', id) | ('w', id, v) | ('x', text); ids = allocation numbers"""
    head, ops, n = [], [], 0
    for l in lines:
        w = l.split()
        if not w or l.startswith("#"):
            continue
        if w[0] in ("page", "init"):
            head.append(l)
        elif w[0] == "a":
            ops.append(("a", n))
            n += 1
        elif w[0] == "f":
            ops.append(("f", int(w[1])))
        elif w[0] == "w":
            ops.append(("w", int(w[1]), int(w[2])))
        else:
            ops.append(("x", l))
    return head, ops


def render_valid(head, ops):
    """Like render, but handle numbers are allocation numbers of the reduced script (freed handles are not reused)."""
    num, live, out = {}, set(), list(head)
    k = 0
    for o in ops:
        if o[0] == "a":
            num[o[1]] = k
            live.add(o[1])
            k += 1
            out.append("a")
        elif o[0] == "f":
            if o[1] in live:
                live.discard(o[1])
                out.append("f %d" % num[o[1]])
        elif o[0] == "w":
            if o[1] in live:
                out.append("w %d %d" % (num[o[1]], o[2]))
        else:
            out.append(o[1])
    return out


def shrink(c_exe, lines, budget=120):
    """Reduce a script on which the implementation misbehaves by its own verdict; stays a valid client program."""
    head, ops = parse(lines)

    def bad(ops_):
        rc, out, err = run_impl(c_exe, render_valid(head, ops_), timeout=120)
        return verdict(rc, out, err) is not None

    if not bad(ops):
        return lines
    tries = 0
    # 1. everything that is not an allocation is usually irrelevant: try dropping all of it at once, then kinds
    for pred in (lambda o: o[0] == "a", lambda o: o[0] in ("a", "x"), lambda o: o[0] in ("a", "f"),
                 lambda o: o[0] in ("a", "f", "x")):
        cand = [o for o in ops if pred(o)]
        tries += 1
        if len(cand) < len(ops) and bad(cand):
            ops = cand
            break
    # 2. shortest failing prefix (bisection; the failure is at a definite operation)
    lo, hi = 1, len(ops)
    while lo < hi and tries < budget:
        mid = (lo + hi) // 2
        tries += 1
        if bad(ops[:mid]):
            hi = mid
        else:
            lo = mid + 1
    if hi < len(ops) and bad(ops[:hi]):
        ops = ops[:hi]
    # 3. delta-debug what is left
    n = 2
    while len(ops) > 1 and tries < budget:
        chunk = max(1, len(ops) // n)
        reduced = False
        i = len(ops) - chunk
        while i >= 0 and tries < budget:
            cand = ops[:i] + ops[i + chunk:]
            tries += 1
            if cand and bad(cand):
                ops = cand
                reduced = True
            i -= chunk
        if not reduced:
            if chunk == 1:
                break
            n = min(len(ops), n * 2)
    return render_valid(head, ops)


# ---------------------------------------------------------------------------
# corpus, workers
# ---------------------------------------------------------------------------

def read_script(path):
    return [l.strip() for l in open(path) if l.strip() and not l.startswith("#")]


def corpus_scripts():
    out = []
    if os.path.isdir(CORPUS):
        for f in sorted(os.listdir(CORPUS)):
            if f.endswith(".txt"):
                out.append((f, read_script(os.path.join(CORPUS, f))))
    return out


def sig(lines):
    return hashlib.sha256("\n".join(lines).encode()).hexdigest()[:16]


def worker(args):
    """Generate `plan` scripts (list of (deep, budget)) and compare; returns (stats, mismatches)."""
    seed, plan, c_exe, lean_exe, cls, libsizes = args
    rng = random.Random(seed)
    stats, bad = [], []
    for deep, budget in plan:
        model = Model(lean_exe, cls)
        try:
            lines, answers, st = gen_script(rng, model, cls, libsizes, deep, budget)
        finally:
            model.close()
        st["sig"] = sig(lines)
        st["deep"] = deep
        if not stats:
            # one written-out case per worker for the evidence file
            st["script_head"] = lines[:14] + (["... (%d more lines)" % (len(lines) - 14)] if len(lines) > 14 else [])
        if st["model_fault"]:
            # the model (proved never to fault on valid scripts) faulted: generator or model bug, report as mismatch
            bad.append((lines, {"index": len(lines) - 1, "op": lines[-1], "impl": "(not run)", "model": answers[-1],
                                "rc": 0, "err": "", "verdict": None}))
            stats.append(st)
            continue
        d = compare(c_exe, lines, answers)
        st["agree"] = d is None
        stats.append(st)
        if d is not None:
            bad.append((lines, d))
            if len(bad) >= 2:
                break
    return stats, bad


def run_generated(seed, plan, c_exe, lean_exe, cls, libsizes):
    import multiprocessing
    n = vlib.NPROC
    rng = random.Random(seed)
    plan = list(plan)
    rng.shuffle(plan)
    # spread the heavy scripts over the workers
    plan.sort(key=lambda p: -p[0] * 10 ** 7 - p[1])
    jobs = [(seed * 1000003 + w, plan[w::n], c_exe, lean_exe, cls, libsizes) for w in range(n) if plan[w::n]]
    with multiprocessing.Pool(len(jobs)) as pool:
        res = pool.map(worker, jobs)
    return [s for r in res for s in r[0]], [b for r in res for b in r[1]]
