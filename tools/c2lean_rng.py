"""T-gen for code that works on file-scope / function-static (thread-local) variables: cmb_random.c.

Extends tools/c2lean.py (the pure-function translator) by

  * a whole-translation-unit view of clang's JSON AST: every variable with static storage duration
    (file scope and function-static), its storage class, thread-local flag, constness, initialiser,
    and which functions read / write it (`inventory`);
  * `StateTranslator`: the variables that the translated functions touch become the fields of one Lean
    structure; a C function `T f(args)` becomes `def f (args) (s : RngState) : T × RngState`
    (`RngState` alone for `void`).  Side effects inside expressions (`x++`, `--x`, `(x += c)`, calls of
    other translated functions) are hoisted, in evaluation order, into `let`s in front of the statement.
    An expression whose value could depend on the (unspecified) evaluation order of its operands is
    rejected (`Untranslatable`), as is everything outside the subset.
  * integers are Lean's fixed-width `UInt64` / `UInt8` (native wrap-around), `int` is `Int`;
    `for (int i = 0; i < N; i++) body` with a literal N and a body that does not mention `i`
    becomes `Nat.repeat (fun s => body) N s`.

Shift amounts: Lean's `x >>> n` on UInt64 takes `n mod 64`, C leaves a shift by >= 64 undefined.  Literal
amounts are checked to be < 64 here; for a variable amount the range is a proof obligation on the Lean side
(Props/C15.lean `flip_shift_defined`).
"""
import json
import subprocess

import c2lean
from c2lean import Untranslatable, norm_type, qt, ind

UREPS = {"U8": ("UInt8", 8), "U16": ("UInt16", 16), "U32": ("UInt32", 32), "U64": ("UInt64", 64)}
LEAN_T = {"U8": "UInt8", "U16": "UInt16", "U32": "UInt32", "U64": "UInt64", "int": "Int", "bool": "Bool"}
TYPES = {"uint64_t": "U64", "unsigned long": "U64", "unsigned long long": "U64", "uint8_t": "U8", "unsigned char": "U8",
         "uint16_t": "U16", "unsigned short": "U16", "uint32_t": "U32", "unsigned int": "U32",
         "int": "int", "long": "int", "long long": "int", "int64_t": "int", "_Bool": "bool", "bool": "bool"}


# --------------------------------------------------------------------------------------------
# whole translation unit
# --------------------------------------------------------------------------------------------

def clang_tu(path, incs, defines=("-DNDEBUG",)):
    cmd = ["clang", "-std=c17", "-D_POSIX_C_SOURCE=200809L"] + list(defines) + ["-I" + i for i in incs] + [
        "-fsyntax-only", "-w", "-Xclang", "-ast-dump=json", path]
    p = subprocess.run(cmd, stdout=subprocess.PIPE, stderr=subprocess.PIPE)
    if p.returncode != 0:
        raise Untranslatable("clang failed on %s: %s" % (path, p.stderr.decode()[-2000:]))
    return json.loads(p.stdout.decode())


def annotate_files(tu):
    """clang prints "file" in a location only when it differs from the previously printed one; replay that
    to give every declaration its file (stored under '_file')."""
    cur = [None]

    def rec(n):
        if isinstance(n, dict):
            if "offset" in n and "file" in n:
                cur[0] = n["file"]
            mark = None
            for k, v in n.items():
                rec(v)
                if k == "loc" and isinstance(v, dict):
                    mark = cur[0]
            if mark is not None or "loc" in n:
                n["_file"] = mark
        elif isinstance(n, list):
            for x in n:
                rec(x)
    rec(tu)


def is_const_type(t):
    t = t.strip()
    if "*" in t:
        return t.endswith("const") and t.rstrip("const").rstrip().endswith("*")
    return t.startswith("const ") or " const" in t


def functions_with_bodies(tu):
    return [d for d in tu.get("inner", []) if d.get("kind") == "FunctionDecl" and
            any(c.get("kind") == "CompoundStmt" for c in d.get("inner", []))]


def inventory(tu, keep_file):
    """Every variable with static storage duration declared in a file for which keep_file(path) holds.
    Returns a list of dicts: id, name, scope ('file' or the function), storage ('threadLocal' / 'plainStatic' /
    'constant'), is_extern (declared here, defined elsewhere), ctype, file, line, init (AST or None), node,
    readers / writers (functions whose bodies read / write-or-take-the-address of it)."""
    annotate_files(tu)
    out, by_id = [], {}

    def add(v, scope):
        sc = v.get("storageClass")
        if scope != "file" and sc not in ("static", "extern"):
            return                                     # automatic
        if not keep_file(v.get("_file") or ""):
            return
        t = v["type"].get("qualType", "")
        tls = v.get("tls")
        has_init = any(c.get("kind") not in ("FullComment", "TLSModelAttr") and not c.get("kind", "").endswith("Attr")
                       for c in v.get("inner", []))
        shown = t
        if "unnamed" in t or "anonymous" in t:
            shown = t.split("(")[0].strip() + " {...}"     # the location inside the type name is a path; keep the text stable
        e = {"id": v["id"], "name": v["name"], "scope": scope, "ctype": t, "ctype_shown": shown,
             "desugared": v["type"].get("desugaredQualType", t),
             "storage": "threadLocal" if tls else ("constant" if is_const_type(t) else "plainStatic"),
             "const": is_const_type(t), "tls": bool(tls),
             "is_extern": sc == "extern" and not has_init, "file": v.get("_file"), "node": v,
             "readers": set(), "writers": set()}
        out.append(e)
        by_id[v["id"]] = e

    def walk_fn(n, fname):
        if not isinstance(n, dict):
            return
        if n.get("kind") == "VarDecl":
            add(n, fname)
        for c in n.get("inner", []):
            walk_fn(c, fname)

    for d in tu.get("inner", []):
        if d.get("kind") == "VarDecl":
            add(d, "file")
        elif d.get("kind") == "FunctionDecl":
            walk_fn(d, d.get("name"))
    # a later declaration of the same entity (extern decl followed by the definition) refers back via previousDecl
    for e in out:
        prev = e["node"].get("previousDecl")
        if prev in by_id:
            by_id[prev]["redeclared_by"] = e["id"]
    canon = {}
    for e in out:
        canon[e["id"]] = e
    for e in out:
        if "redeclared_by" in e:
            canon[e["id"]] = by_id[e["redeclared_by"]]

    # readers / writers: a reference is a plain read iff, going up through member / subscript / paren nodes, it ends
    # in an lvalue-to-rvalue conversion; everything else (assignment target, ++/--, &x, array decay that is not
    # immediately indexed and loaded) counts as write-or-escape.
    def refs(n, fname, ctx):
        """ctx: 'load' when the value of this lvalue is being loaded, else 'other'"""
        if not isinstance(n, dict):
            return
        k = n.get("kind")
        if k == "DeclRefExpr":
            rid = n.get("referencedDecl", {}).get("id")
            if rid in canon:
                (canon[rid]["readers"] if ctx == "load" else canon[rid]["writers"]).add(fname)
            return
        inner = n.get("inner", [])
        if k == "ImplicitCastExpr" and n.get("castKind") == "LValueToRValue":
            for c in inner:
                refs(c, fname, "load")
            return
        if k in ("MemberExpr", "ParenExpr"):
            for c in inner:
                refs(c, fname, ctx)
            return
        if k == "ArraySubscriptExpr":
            refs(inner[0], fname, ctx)
            refs(inner[1], fname, "other")
            return
        if k == "ImplicitCastExpr" and n.get("castKind") == "ArrayToPointerDecay":
            # a[i] loads through the decayed pointer: inherit the context of the subscript expression
            for c in inner:
                refs(c, fname, ctx)
            return
        if k in ("UnaryOperator",) and n.get("opcode") in ("++", "--"):
            for c in inner:
                refs(c, fname, "other")
                refs(c, fname, "load")
            return
        if k == "CompoundAssignOperator":
            refs(inner[0], fname, "other")
            refs(inner[0], fname, "load")
            refs(inner[1], fname, "other")
            return
        for c in inner:
            refs(c, fname, "other")

    for d in functions_with_bodies(tu):
        for c in d.get("inner", []):
            if c.get("kind") == "CompoundStmt":
                refs(c, d.get("name"), "other")
    # drop the shadowed first declarations (extern declaration later defined in this unit)
    res = [e for e in out if "redeclared_by" not in e]
    for e in res:
        # a plain `x = v;` statement's left side arrives with ctx 'other' => writer; good.
        e["readers"] = sorted(e["readers"])
        e["writers"] = sorted(e["writers"])
    return res


# --------------------------------------------------------------------------------------------
# translator
# --------------------------------------------------------------------------------------------

class StateTranslator(c2lean.Translator):
    SEQUENCING = ("&&", "||", ",")

    def __init__(self, tu, inv, state_name="RngState"):
        super().__init__(types=dict(TYPES), structs={})
        self.tu = tu
        self.state_name = state_name
        self.inv = {e["id"]: e for e in inv}
        self.fields = {}        # (decl id, member or None) -> (field name, rep)
        self.field_order = []   # field names in first-touch order
        self.fn_info = {}       # C name -> dict(lean, params, ret_rep, reads, writes)
        self.records = self._records()
        self.cur_reads, self.cur_writes = set(), set()
        self.tmp = 0
        self.pre = []
        self.locals_outer = set()

    # ---- records (struct layouts) ----------------------------------------------------------
    def _records(self):
        recs, last = {}, None
        for d in self.tu.get("inner", []):
            if d.get("kind") == "RecordDecl":
                last = d
            elif d.get("kind") == "VarDecl" and last is not None:
                t = d["type"].get("qualType", "")
                if "unnamed" in t or "anonymous" in t or (last.get("name") and last.get("name") in t):
                    recs[d["id"]] = [(f["name"], f["type"].get("qualType")) for f in last.get("inner", [])
                                     if f.get("kind") == "FieldDecl"]
                last = None
            else:
                last = None
        return recs

    # ---- state fields -----------------------------------------------------------------------
    def field(self, decl_id, member=None):
        key = (decl_id, member)
        if key in self.fields:
            return self.fields[key]
        e = self.inv.get(decl_id)
        if e is None:
            raise Untranslatable("reference to a variable outside the inventory")
        if e["const"] or not e["tls"] and e["storage"] != "plainStatic":
            raise Untranslatable("global %s is not a mutable state variable" % e["name"])
        base = e["name"] if e["scope"] == "file" else "%s_%s" % (e["scope"], e["name"])
        if member is None:
            if decl_id in self.records:
                raise Untranslatable("whole-struct access to %s" % e["name"])
            rep = self.rep_of_type(e["ctype"])
            name = base
        else:
            lay = dict(self.records.get(decl_id, []))
            if member not in lay:
                raise Untranslatable("member %s of %s not found in its record" % (member, e["name"]))
            rep = self.rep_of_type(lay[member])
            name = "%s_%s" % (base, member)
        if rep not in UREPS:
            raise Untranslatable("state variable %s has unsupported type" % name)
        self.fields[key] = (name, rep)
        self.field_order.append(key)
        return self.fields[key]

    def state_lvalue(self, n):
        """(field name, rep) if n designates a state variable (or a member of one), else None."""
        while n.get("kind") == "ParenExpr":
            n = n["inner"][0]
        if n.get("kind") == "DeclRefExpr" and n["referencedDecl"].get("kind") == "VarDecl":
            rid = n["referencedDecl"]["id"]
            if rid in self.inv:
                return self.field(rid)
        if n.get("kind") == "MemberExpr" and not n.get("isArrow"):
            b = n["inner"][0]
            while b.get("kind") == "ParenExpr":
                b = b["inner"][0]
            if b.get("kind") == "DeclRefExpr" and b["referencedDecl"].get("id") in self.inv:
                return self.field(b["referencedDecl"]["id"], n["name"])
        return None

    # ---- read / write sets of an expression (for the evaluation-order check) -------------------
    def rw(self, n):
        """(reads, writes) over state fields and locals ('L:name') of an expression, callee effects included."""
        k = n.get("kind")
        inner = [c for c in n.get("inner", []) if isinstance(c, dict)]
        if k in ("DeclRefExpr", "MemberExpr"):
            sl = self.state_lvalue(n) if (k == "DeclRefExpr" and n["referencedDecl"].get("id") in self.inv) or k == "MemberExpr" else None
            if sl:
                return {sl[0]}, set()
            if k == "DeclRefExpr":
                if n["referencedDecl"].get("kind") in ("FunctionDecl", "EnumConstantDecl"):
                    return set(), set()
                return {"L:" + n["referencedDecl"]["name"]}, set()
        if k == "UnaryOperator" and n.get("opcode") in ("++", "--"):
            r, w = self.rw(inner[0])
            return r, w | r
        if k == "CompoundAssignOperator":
            rl, wl = self.rw(inner[0])
            rr, wr = self.rw(inner[1])
            return rl | rr, wl | wr | rl
        if k == "BinaryOperator" and n.get("opcode") == "=":
            rl, wl = self.rw(inner[0])
            rr, wr = self.rw(inner[1])
            return rr, wl | wr | rl          # the target is written, not read
        if k == "CallExpr":
            name = self.callee(n)
            r, w = set(), set()
            if name in self.fn_info:
                r |= self.fn_info[name]["reads"]
                w |= self.fn_info[name]["writes"]
            for a in inner[1:]:
                ra, wa = self.rw(a)
                r |= ra
                w |= wa
            return r, w
        r, w = set(), set()
        for c in inner:
            rc, wc = self.rw(c)
            r |= rc
            w |= wc
        return r, w

    def check_unsequenced(self, n):
        """Reject `A op B` where one operand writes what the other reads or writes (C: unsequenced / unspecified order)."""
        k = n.get("kind")
        inner = [c for c in n.get("inner", []) if isinstance(c, dict)]
        if k == "BinaryOperator" and n.get("opcode") not in self.SEQUENCING + ("=",) or k == "CallExpr" and len(inner) > 2:
            ops = inner if k == "BinaryOperator" else inner[1:]
            sets = [self.rw(o) for o in ops]
            for i in range(len(ops)):
                for j in range(len(ops)):
                    if i != j and sets[i][1] & (sets[j][0] | sets[j][1]):
                        raise Untranslatable("operands with conflicting side effects on %s (evaluation order unspecified in C)"
                                             % sorted(sets[i][1] & (sets[j][0] | sets[j][1])))
        if k in ("BinaryOperator",) and n.get("opcode") in ("&&", "||") or k == "ConditionalOperator":
            for o in inner[1:]:
                if self.rw(o)[1]:
                    raise Untranslatable("side effect under a conditionally evaluated operand")
        for c in inner:
            self.check_unsequenced(c)

    # ---- expressions ---------------------------------------------------------------------------
    def callee(self, n):
        c = n["inner"][0]
        while c.get("kind") in ("ImplicitCastExpr", "ParenExpr"):
            c = c["inner"][0]
        return c.get("referencedDecl", {}).get("name")

    def fresh(self, stem):
        self.tmp += 1
        return "%s%d" % (stem, self.tmp)

    def lit(self, v, rep):
        if rep in UREPS:
            return "(%d : %s)" % (v % 2 ** UREPS[rep][1], UREPS[rep][0])
        return "(%d : Int)" % v if rep == "int" else str(v)

    def unwrap(self, n):
        while n.get("kind") in ("ParenExpr", "ConstantExpr"):
            n = n["inner"][0]
        return n

    def shift_amount(self, n, env):
        m = self.unwrap(n)
        while m.get("kind") == "ImplicitCastExpr" and m.get("castKind") == "IntegralCast":
            m = self.unwrap(m["inner"][0])
        if m.get("kind") == "IntegerLiteral":
            v = int(m["value"])
            if not 0 <= v < 64:
                raise Untranslatable("shift by %d is undefined on a 64-bit operand" % v)
            return "(%d : UInt64)" % v
        r = self.rep(m)
        e = self.expr(m, env)
        if r == "U64":
            return e
        if r in UREPS:
            return "(%s).toUInt64" % e
        raise Untranslatable("shift amount of representation %s" % r)

    def narrowed(self, a, b, env):
        """`(int)u8 cmp literal` compared at the narrow unsigned type when the literal fits; None otherwise."""
        ua, ub = self.unwrap(a), self.unwrap(b)
        if ua.get("kind") == "ImplicitCastExpr" and ua.get("castKind") == "IntegralCast" and ub.get("kind") == "IntegerLiteral":
            src = self.unwrap(ua["inner"][0])
            r = self.rep(src)
            if r in UREPS and self.rep(ua) == "int" and 0 <= int(ub["value"]) < 2 ** UREPS[r][1]:
                return self.expr(src, env), self.lit(int(ub["value"]), r)
        return None

    def assign_value(self, lhs, val, env):
        """Emit the store of `val` (a Lean term) into lvalue lhs; returns the term that reads it back."""
        sl = self.state_lvalue(lhs)
        if sl:
            self.cur_writes.add(sl[0])
            t = self.fresh("v")
            self.pre.append("let %s := %s" % (t, val))
            self.pre.append("let s := { s with %s := %s }" % (sl[0], t))
            return t
        l = self.unwrap(lhs)
        if l.get("kind") == "DeclRefExpr" and l["referencedDecl"]["name"] in env:
            name = l["referencedDecl"]["name"]
            if name in self.locals_outer:
                raise Untranslatable("assignment to local %s declared outside the loop body" % name)
            self.pre.append("let %s := %s" % (env[name], val))
            return env[name]
        raise Untranslatable("assignment target %s" % l.get("kind"))

    def expr(self, n, env):
        k = n.get("kind")
        if k in ("DeclRefExpr", "MemberExpr"):
            sl = self.state_lvalue(n)
            if sl:
                self.cur_reads.add(sl[0])
                return "s.%s" % sl[0]
            if k == "DeclRefExpr":
                name = n["referencedDecl"]["name"]
                if name in env:
                    return env[name]
                raise Untranslatable("reference to unknown name %s" % name)
            raise Untranslatable("member access on a non-state object")
        if k == "IntegerLiteral":
            return self.lit(int(n["value"]), self.rep(n))
        if k in ("ImplicitCastExpr", "CStyleCastExpr") and n.get("castKind") == "IntegralCast":
            inner = self.unwrap(n["inner"][0])
            src, dst = self.rep(inner), self.rep(n)
            if inner.get("kind") == "IntegerLiteral":
                return self.lit(int(inner["value"]), dst)
            e = self.expr(inner, env)
            if src == dst:
                return e
            if src in UREPS and dst in UREPS:
                return "(%s).to%s" % (e, UREPS[dst][0])
            if src in UREPS and dst == "int":
                return "((%s).toNat : Int)" % e
            raise Untranslatable("integral cast %s -> %s" % (src, dst))
        if k in ("ImplicitCastExpr", "CStyleCastExpr") and n.get("castKind") == "ToVoid":
            self.expr(n["inner"][0], env)
            return "()"
        if k == "UnaryOperator" and n.get("opcode") in ("++", "--"):
            lhs = n["inner"][0]
            r = self.rep(lhs)
            if r not in UREPS:
                raise Untranslatable("++/-- on representation %s" % r)
            old = self.fresh("t")
            self.pre.append("let %s := %s" % (old, self.expr(lhs, env)))
            new = self.assign_value(lhs, "%s %s %s" % (old, "+" if n["opcode"] == "++" else "-", self.lit(1, r)), env)
            return old if n.get("isPostfix") else new
        if k == "CompoundAssignOperator":
            lhs, rhs = n["inner"]
            fake = {"kind": "BinaryOperator", "opcode": n["opcode"][:-1], "inner": [lhs, rhs], "type": lhs["type"]}
            if self.rep_of_type(n.get("computeResultType", {}).get("qualType", qt(lhs))) != self.rep(lhs):
                raise Untranslatable("compound assignment computed at a different type")
            return self.assign_value(lhs, self.binop(fake, env), env)
        if k == "BinaryOperator" and n.get("opcode") == "=":
            lhs, rhs = n["inner"]
            val = self.boolify(rhs, env) if self.rep(lhs) == "bool" else self.expr(rhs, env)
            return self.assign_value(lhs, val, env)
        if k == "CallExpr":
            name = self.callee(n)
            if name not in self.fn_info:
                raise Untranslatable("call to untranslated function %s" % name)
            fi = self.fn_info[name]
            args = "".join(" (%s)" % self.expr(a, env) for a in n["inner"][1:])
            self.cur_reads |= fi["reads"]
            self.cur_writes |= fi["writes"]
            if fi["ret_rep"] is None:
                self.pre.append("let s := %s%s s" % (fi["lean"], args))
                return "()"
            p, r = self.fresh("p"), self.fresh("r")
            self.pre.append("let %s := %s%s s" % (p, fi["lean"], args))
            self.pre.append("let %s := %s.1" % (r, p))
            self.pre.append("let s := %s.2" % p)
            return r
        return super().expr(n, env)

    def binop(self, n, env):
        op = n["opcode"]
        a, b = n["inner"]
        if op in ("<<", ">>"):
            r = self.rep(n)
            if r != "U64" or self.rep(a) != "U64":
                raise Untranslatable("shift at representation %s" % r)
            return "(%s %s %s)" % (self.expr(a, env), "<<<" if op == "<<" else ">>>", self.shift_amount(b, env))
        if op in ("<", ">", "<=", ">=", "==", "!="):
            nar = self.narrowed(a, b, env)
            flip = False
            if nar is None:
                nar = self.narrowed(b, a, env)
                flip = nar is not None
            if nar is not None:
                ea, eb = (nar[1], nar[0]) if flip else nar
                lop = {"<": "<", ">": ">", "<=": "≤", ">=": "≥", "==": "=", "!=": "≠"}[op]
                return "(decide (%s %s %s))" % (ea, lop, eb)
        r = None
        try:
            r = self.rep(n)
        except Untranslatable:
            pass
        if r in UREPS and r != "U64":
            raise Untranslatable("arithmetic at the narrow type %s (C promotes to int)" % r)
        return super().binop(n, env)

    def full(self, n, env, boolean=False):
        """Translate a full expression: returns (prelude lines, value term)."""
        self.check_unsequenced(n)
        self.pre = []
        v = self.boolify(n, env) if boolean else self.expr(n, env)
        pre, self.pre = self.pre, []
        return pre, v

    # ---- statements --------------------------------------------------------------------------
    def canonical_for(self, s):
        """(N, body) for `for (int i = 0; i < N; i++) body` with literal N and a body not mentioning i."""
        init, _, cond, inc, body = s["inner"]
        try:
            v = init["inner"][0]
            assert init["kind"] == "DeclStmt" and len(init["inner"]) == 1 and v["kind"] == "VarDecl"
            i0 = [c for c in v.get("inner", []) if c.get("kind") == "IntegerLiteral"]
            assert i0 and int(i0[0]["value"]) == 0
            assert cond["kind"] == "BinaryOperator" and cond["opcode"] == "<"
            l, r = self.unwrap(cond["inner"][0]), self.unwrap(cond["inner"][1])
            while l.get("kind") == "ImplicitCastExpr":
                l = self.unwrap(l["inner"][0])
            assert l["kind"] == "DeclRefExpr" and l["referencedDecl"]["id"] == v["id"]
            assert r["kind"] == "IntegerLiteral"
            assert inc["kind"] == "UnaryOperator" and inc["opcode"] == "++"
            assert self.unwrap(inc["inner"][0])["referencedDecl"]["id"] == v["id"]
        except (AssertionError, KeyError, IndexError, TypeError):
            raise Untranslatable("for loop outside the form `for (int i = 0; i < LITERAL; i++)`")

        def mentions(n):
            if isinstance(n, dict):
                if n.get("kind") == "DeclRefExpr" and n["referencedDecl"].get("id") == v["id"]:
                    return True
                if n.get("kind") in ("ReturnStmt", "BreakStmt", "ContinueStmt", "GotoStmt"):
                    return True
                return any(mentions(c) for c in n.get("inner", []))
            return False
        if mentions(body):
            raise Untranslatable("loop body mentions the loop counter or leaves the loop early")
        return int(r["value"]), body

    def stmts(self, ss, env, ret_pack, depth=0):
        if depth > 200:
            raise Untranslatable("statement nesting too deep")
        if not ss:
            return ret_pack(None, env)
        s, rest = ss[0], ss[1:]
        k = s.get("kind")
        if self.is_assert_noop(s) or k == "NullStmt":
            return self.stmts(rest, env, ret_pack, depth)
        if k == "CompoundStmt":
            return self.stmts(list(s.get("inner", [])) + rest, env, ret_pack, depth + 1)
        if k == "ReturnStmt":
            inner = s.get("inner", [])
            return ret_pack(inner[0] if inner else None, env)
        if k == "DeclStmt":
            out_env, lines = dict(env), []
            for v in s["inner"]:
                if v.get("kind") != "VarDecl":
                    raise Untranslatable("declaration kind %s" % v.get("kind"))
                if v.get("storageClass") == "static":
                    if v["id"] not in self.inv:
                        raise Untranslatable("function-static %s missing from the inventory" % v["name"])
                    continue                            # a state field; its initialiser goes to the initial state
                name = v["name"]
                if name in ("s",) or name[:1] in "ptrv" and name[1:].isdigit():
                    raise Untranslatable("local name %s clashes with the translator's names" % name)
                init = [c for c in v.get("inner", []) if c.get("kind") not in ("FullComment",)]
                if not init:
                    raise Untranslatable("uninitialised local %s" % name)
                pre, e = self.full(init[0], out_env, boolean=self.rep(v) == "bool")
                lines += pre + ["let %s : %s := %s" % (name, LEAN_T[self.rep(v)], e)]
                out_env[name] = name
            return "\n".join(lines + [self.stmts(rest, out_env, ret_pack, depth)])
        if k == "IfStmt":
            parts = s["inner"]
            pre, c = self.full(parts[0], env, boolean=True)
            then = [parts[1]]
            els = [parts[2]] if s.get("hasElse") else []
            t = self.stmts(then + rest, env, ret_pack, depth + 1)
            e = self.stmts(els + rest, env, ret_pack, depth + 1)
            return "\n".join(pre + ["if %s then\n%s\nelse\n%s" % (c, ind(t), ind(e))])
        if k == "ForStmt":
            n, body = self.canonical_for(s)
            saved = self.locals_outer
            self.locals_outer = saved | set(env)
            b = self.stmts([body], env, lambda e, env2: "s", depth + 1)
            self.locals_outer = saved
            return "let s := Nat.repeat (fun s =>\n%s) %d s\n%s" % (ind(b, 4), n, self.stmts(rest, env, ret_pack, depth))
        if k in ("BinaryOperator", "CompoundAssignOperator", "UnaryOperator", "CallExpr", "CStyleCastExpr", "ParenExpr"):
            pre, _ = self.full(s, env)
            return "\n".join(pre + [self.stmts(rest, env, ret_pack, depth)])
        raise Untranslatable("statement kind %s" % k)

    # ---- functions -----------------------------------------------------------------------------
    def state_function(self, fn, lean_name):
        params, body = [], None
        for c in fn.get("inner", []):
            if c.get("kind") == "ParmVarDecl":
                params.append(c)
            elif c.get("kind") == "CompoundStmt":
                body = c
        env, sig = {}, []
        for p in params:
            env[p["name"]] = p["name"]
            sig.append("(%s : %s)" % (p["name"], LEAN_T[self.rep(p)]))
        rtype = fn["type"]["qualType"].split("(")[0].strip()
        rrep = None if rtype == "void" else self.rep_of_type(rtype)
        self.cur_reads, self.cur_writes, self.tmp = set(), set(), 0

        def ret_pack(e, env2):
            if e is None:
                if rrep is not None:
                    raise Untranslatable("control reaches the end of non-void function %s" % fn["name"])
                return "s"
            pre, v = self.full(e, env2, boolean=rrep == "bool")
            return "\n".join(pre + ["(%s, s)" % v])
        text = self.stmts([body], env, ret_pack)
        rl = self.state_name if rrep is None else "%s × %s" % (LEAN_T[rrep], self.state_name)
        self.fn_info[fn["name"]] = {"lean": lean_name, "params": [p["name"] for p in params], "ret_rep": rrep,
                                    "reads": set(self.cur_reads), "writes": set(self.cur_writes)}
        return "def %s %s(s : %s) : %s :=\n%s\n" % (lean_name, "".join(x + " " for x in sig), self.state_name, rl, ind(text))

    # ---- initial values -------------------------------------------------------------------------
    def initial_value(self, key):
        decl_id, member = key
        e = self.inv[decl_id]
        name, rep = self.fields[key]
        init = [c for c in e["node"].get("inner", []) if not c.get("kind", "").endswith("Attr") and c.get("kind") != "FullComment"]
        if not init:
            return self.lit(0, rep)                     # static storage duration: zero-initialised
        node = init[0]
        if member is not None:
            if node.get("kind") != "InitListExpr":
                raise Untranslatable("initialiser of %s is not a brace list" % e["name"])
            idx = [f for f, _ in self.records[decl_id]].index(member)
            items = node.get("inner", [])
            if idx >= len(items):
                return self.lit(0, rep)
            node = items[idx]
        node = self.unwrap(node)
        while node.get("kind") == "ImplicitCastExpr":
            node = self.unwrap(node["inner"][0])
        if node.get("kind") == "ImplicitValueInitExpr":
            return self.lit(0, rep)
        if node.get("kind") != "IntegerLiteral":
            raise Untranslatable("initialiser of %s is not an integer literal" % name)
        return self.lit(int(node["value"]), rep)


# --------------------------------------------------------------------------------------------
# memo prologues of the floating-point samplers (abstract double arithmetic)
# --------------------------------------------------------------------------------------------

class MemoTranslator:
    """Translates the memo prologue of a sampler — the leading statements of the function body that maintain its
    function-static `double` cache — into a Lean function over an abstract `FloatOps F`:

        def <fn>_prologue {F} (o : FloatOps F) (<params> : F) (m : <fn>_Memo F) : <fn>_Memo F

    Accepted: the library's assert statements (skipped), declarations of the statics, `if (cond) { … } [else { … }]`
    and plain stores `static = expr`, where expressions are built from parameters, the statics, floating literals,
    + - * /, unary -, comparisons and calls of one-argument libm functions (kept abstract: `o.fn "sqrt" x`).
    Also accepted (an early-return guard in front of the cache, e.g. the small-shape boost of cmb_random_std_gamma):
      * `return expr;` — ends the prologue on that path (the cache is what it is at that point); `expr` must not call the
        function itself;
      * a declaration of an automatic local initialised by a CALL OF THE FUNCTION ITSELF, `T g = f(args);` — the cache
        becomes what the recursive call leaves: `let m := self args m`; the translation carries fuel for this recursion
        (`…_prologue_fuel`, fuel 0 leaves the cache unchanged) and `…_prologue` is the depth-2 instance; that depth 2 is enough
        (the recursion argument no longer takes the guard) is a theorem of Props/C15.lean, under a stated IEEE hypothesis;
      * a declaration of an automatic local initialised by any other expression: no effect on the cache, PROVIDED no function
        called in it can reach the function itself (checked on the call graph of the translation unit).
    The rest of the body must not write the statics (checked)."""
    BIN = {"+": "add", "-": "sub", "*": "mul", "/": "div"}
    CMP = {"!=": "ne", "==": "eq", "<": "lt", "<=": "le", ">": "gt", ">=": "ge"}

    def __init__(self, fn, inv, fns=None):
        self.fn = fn
        self.name = fn["name"]
        self.fns = fns or {}           # name -> FunctionDecl with a body, for the re-entrancy check
        self.recursive = False
        self.statics = [e for e in inv if e["scope"] == self.name]
        self.ids = {e["id"]: e["name"] for e in self.statics}
        for e in self.statics:
            if norm_type(e["ctype"]) != "double":
                raise Untranslatable("memo static %s of %s is not a double" % (e["name"], self.name))
        self.params = {}
        for c in fn.get("inner", []):
            if c.get("kind") == "ParmVarDecl":
                self.params[c["id"]] = (c["name"], norm_type(qt(c)))

    def unwrap(self, n):
        while n.get("kind") in ("ParenExpr", "ConstantExpr") or (n.get("kind") == "ImplicitCastExpr" and
                                                                 n.get("castKind") in ("LValueToRValue", "NoOp", "FunctionToPointerDecay")):
            n = n["inner"][0]
        return n

    def is_assert(self, s):
        s0 = s
        while s0.get("kind") == "ParenExpr":
            s0 = s0["inner"][0]
        if s0.get("kind") == "DoStmt":
            return True          # NDEBUG form: do { (void)sizeof(...); } while (0)
        if s0.get("kind") == "ConditionalOperator":
            def calls_noreturn(n):
                if isinstance(n, dict):
                    if n.get("kind") == "CallExpr" and "noreturn" in json.dumps(n["inner"][0].get("type", {})):
                        return True
                    return any(calls_noreturn(c) for c in n.get("inner", []))
                return False
            return calls_noreturn(s0)
        return False

    def writes_static(self, n):
        if isinstance(n, dict):
            k = n.get("kind")
            if k in ("BinaryOperator", "CompoundAssignOperator") and (n.get("opcode") == "=" or k == "CompoundAssignOperator") or \
                    k == "UnaryOperator" and n.get("opcode") in ("++", "--", "&"):
                t = self.unwrap(n["inner"][0])
                if t.get("kind") == "DeclRefExpr" and t["referencedDecl"].get("id") in self.ids:
                    return True
            return any(self.writes_static(c) for c in n.get("inner", []))
        return False

    def expr(self, n):
        n = self.unwrap(n)
        k = n.get("kind")
        if k == "DeclRefExpr":
            rid = n["referencedDecl"].get("id")
            if rid in self.ids:
                return "m.%s" % self.ids[rid]
            if rid in self.params and self.params[rid][1] == "double":
                return self.params[rid][0]
            raise Untranslatable("memo prologue of %s refers to %s" % (self.name, n["referencedDecl"].get("name")))
        if k == "FloatingLiteral":
            return '(o.lit "%s")' % n["value"]
        if k == "BinaryOperator" and n["opcode"] in self.BIN:
            return "(o.%s %s %s)" % (self.BIN[n["opcode"]], self.expr(n["inner"][0]), self.expr(n["inner"][1]))
        if k == "BinaryOperator" and n["opcode"] in self.CMP:
            return "(o.%s %s %s)" % (self.CMP[n["opcode"]], self.expr(n["inner"][0]), self.expr(n["inner"][1]))
        if k == "UnaryOperator" and n["opcode"] == "-":
            return "(o.neg %s)" % self.expr(n["inner"][0])
        if k == "CallExpr" and len(n["inner"]) == 2:
            callee = self.unwrap(n["inner"][0])
            if callee.get("kind") == "DeclRefExpr" and norm_type(qt(n)) == "double":
                return '(o.fn "%s" %s)' % (callee["referencedDecl"]["name"], self.expr(n["inner"][1]))
        raise Untranslatable("memo prologue of %s: expression kind %s" % (self.name, k))

    def callees(self, n, acc=None):
        """names of the functions called somewhere below n"""
        if acc is None:
            acc = set()
        if isinstance(n, dict):
            if n.get("kind") == "CallExpr":
                c = self.unwrap(n["inner"][0])
                if c.get("kind") == "DeclRefExpr":
                    acc.add(c["referencedDecl"].get("name"))
                else:
                    raise Untranslatable("memo prologue of %s: call through a pointer" % self.name)
            for c in n.get("inner", []):
                self.callees(c, acc)
        return acc

    def reaches_self(self, names):
        """can one of the named functions (transitively, through functions with a body in this unit) call this function?"""
        seen, todo = set(), list(names)
        while todo:
            f = todo.pop()
            if f == self.name:
                return True
            if f in seen or f not in self.fns:
                continue                # no body here: libm / another translation unit, which cannot name a static function's cache
            seen.add(f)
            todo += list(self.callees(self.fns[f]))
        return False

    def self_call(self, n):
        """`f(args)` with f this very function -> the argument nodes, else None"""
        n = self.unwrap(n)
        if n.get("kind") == "CallExpr":
            c = self.unwrap(n["inner"][0])
            if c.get("kind") == "DeclRefExpr" and c["referencedDecl"].get("name") == self.name:
                return n["inner"][1:]
        return None

    def block(self, ss):
        if not ss:
            return "m"
        s, rest = ss[0], ss[1:]
        k = s.get("kind")
        if k == "CompoundStmt":
            return self.block(list(s.get("inner", [])) + rest)
        if k == "NullStmt" or self.is_assert(s):
            return self.block(rest)
        if k == "DeclStmt" and all(v.get("kind") == "VarDecl" and v.get("storageClass") == "static" for v in s["inner"]):
            return self.block(rest)
        if k == "ReturnStmt":
            if self.reaches_self(self.callees(s)):
                raise Untranslatable("memo prologue of %s: the returned expression can call the function itself" % self.name)
            return "m"
        if k == "DeclStmt" and all(v.get("kind") == "VarDecl" and v.get("storageClass") in (None, "auto", "register") for v in s["inner"]):
            out = []
            for v in s["inner"]:
                init = [c for c in v.get("inner", []) if not c.get("kind", "").endswith("Attr") and c.get("kind") != "FullComment"]
                if not init:
                    continue
                args = self.self_call(init[0])
                if args is not None:
                    if any(self.reaches_self(self.callees(a)) for a in args):
                        raise Untranslatable("memo prologue of %s: nested self call" % self.name)
                    dbl = [p for p, t in self.params.values() if t == "double"]
                    if len(args) != len(dbl) or len(dbl) != len(self.params):
                        raise Untranslatable("memo prologue of %s: self call with non-double parameters" % self.name)
                    self.recursive = True
                    out.append("let m := self %s m" % " ".join(self.expr(a) for a in args))
                elif self.reaches_self(self.callees(init[0])):
                    raise Untranslatable("memo prologue of %s: the initialiser of %s can call the function itself" % (self.name, v.get("name")))
            return "\n".join(out + [self.block(rest)])
        if k == "IfStmt":
            parts = s["inner"]
            c = self.expr(parts[0])
            t = self.block([parts[1]] + rest)
            e = self.block(([parts[2]] if s.get("hasElse") else []) + rest)
            return "if %s then\n%s\nelse\n%s" % (c, ind(t), ind(e))
        if k == "BinaryOperator" and s.get("opcode") == "=":
            t = self.unwrap(s["inner"][0])
            if t.get("kind") == "DeclRefExpr" and t["referencedDecl"].get("id") in self.ids:
                return "let m := { m with %s := %s }\n%s" % (self.ids[t["referencedDecl"]["id"]], self.expr(s["inner"][1]), self.block(rest))
        raise Untranslatable("memo prologue of %s: statement kind %s" % (self.name, k))

    def translate(self):
        body = [c for c in self.fn["inner"] if c.get("kind") == "CompoundStmt"][0]["inner"]
        last = -1
        for i, s in enumerate(body):
            if self.writes_static(s):
                last = i
        pro, rest = body[:last + 1], body[last + 1:]
        # `return`, loops etc. inside the prologue are outside the subset (block() rejects them)
        text = self.block(pro)
        mt = "%s_Memo" % self.name
        ps = [p for p, t in self.params.values() if t == "double"]
        inits = []
        for e in self.statics:
            init = [c for c in e["node"].get("inner", []) if c.get("kind") == "FloatingLiteral"]
            if not init and any(not c.get("kind", "").endswith("Attr") for c in e["node"].get("inner", [])):
                raise Untranslatable("initialiser of %s in %s is not a floating literal" % (e["name"], self.name))
            inits.append('%s := o.lit "%s"' % (e["name"], init[0]["value"] if init else "0"))
        pat = "".join(", %s" % p for p in ps)
        out = ["structure %s (F : Type) where" % mt] + ["  %s : F" % e["name"] for e in self.statics] + [
            "", "def %s.init {F : Type} (o : FloatOps F) : %s F :=\n  { %s }" % (mt, mt, ", ".join(inits)), "",
            "/-- fuel bounds the depth of the function's calls of itself inside the prologue (%s); fuel 0 leaves the cache as it is -/" % (
                "it does call itself" if self.recursive else "it does not call itself: the fuel is not used"),
            "def %s_prologue_fuel {F : Type} (o : FloatOps F) : Nat → %s%s F → %s F\n  | 0%s, m => m\n  | fuel_ + 1%s, m =>\n    let self := %s_prologue_fuel o fuel_\n%s" % (
                self.name, "".join("F → " for _ in ps), mt, mt, "".join(", _" for _ in ps), pat, self.name, ind(text, 4)), "",
            "def %s_prologue {F : Type} (o : FloatOps F) %s(m : %s F) : %s F :=\n  %s_prologue_fuel o 2 %sm" % (
                self.name, "".join("(%s : F) " % p for p in ps), mt, mt, self.name, "".join("%s " % p for p in ps)), ""]
        return "\n".join(out), [e["name"] for e in self.statics]
