"""T-gen: translate a fixed subset of C (from clang's JSON AST of /repo's current sources) to Lean 4.

The subset (DESIGN.md §2.2): scalar locals, assignment / compound assignment to locals and to fields of
struct-pointer parameters, ++/--, if/else, ?:, return, for with a literal trip count, calls to other
translated functions, integer ops with C's fixed-width wrap-around, comparisons, logical operators.
Anything else raises Untranslatable, which the check reports as a broken tie (never skipped).

Statements are translated in continuation-passing style into a pure nested if/let expression:
   T(return e ; _)          = e
   T(if c S1 else S2 ; R)   = if c then T(S1 ; R) else T(S2 ; R)
   T(x = e ; R)             = let x := e; T(R)            (shadowing)
   T(p->f = e ; R)          = let p := { p with f := e }; T(R)
A function whose struct-pointer parameters are written returns them (in parameter order) after its C
return value.

Number representation is chosen per C type by the caller (`types`):
   'ideal'  unbounded Int / Nat, only comparisons and +,-,* that provably cannot wrap are allowed ... we allow
            comparisons, ==, != and literal arithmetic only
   'u64'    Nat with explicit `% 2^64` on +,-,*,<< (wrap-around)
   'u32'    Nat with explicit `% 2^32`
   'U64'    Lean's UInt64 (native wrap-around)
   'bool'   Bool
   'field'  an abstract field K (doubles in exact arithmetic); comparisons are Prop-decidable via instances
"""
import hashlib
import json
import os
import re
import subprocess


UNASSIGNED = object()      # environment value of a local that is declared but not yet assigned on this path


class Untranslatable(Exception):
    pass


def clang_ast(path, fn_filter, incs, defines=("-DNDEBUG",)):
    cmd = ["clang", "-std=c17", "-D_POSIX_C_SOURCE=200809L"] + list(defines) + ["-I" + i for i in incs] + [
        "-fsyntax-only", "-w", "-Xclang", "-ast-dump=json", "-Xclang", "-ast-dump-filter=" + fn_filter, path]
    p = subprocess.run(cmd, stdout=subprocess.PIPE, stderr=subprocess.PIPE)
    if p.returncode != 0:
        raise Untranslatable("clang failed on %s: %s" % (path, p.stderr.decode()[-2000:]))
    s = p.stdout.decode()
    dec = json.JSONDecoder()
    i, docs = 0, []
    while i < len(s):
        while i < len(s) and s[i].isspace():
            i += 1
        if i >= len(s):
            break
        o, j = dec.raw_decode(s, i)
        docs.append(o)
        i = j
    return docs


def find_function(docs, name):
    """The FunctionDecl with a body named exactly `name`."""
    for d in docs:
        if d.get("kind") == "FunctionDecl" and d.get("name") == name and any(
                c.get("kind") == "CompoundStmt" for c in d.get("inner", [])):
            return d
    raise Untranslatable("function %s with a body not found" % name)


def strip_ids(n):
    """AST without ids/locations, for hashing."""
    if isinstance(n, dict):
        return {k: strip_ids(v) for k, v in n.items() if k not in ("id", "loc", "range", "previousDecl", "mangledName")
                and not (k == "referencedDecl" and False)}
    if isinstance(n, list):
        return [strip_ids(x) for x in n]
    return n


_PTR = re.compile(r"^0x[0-9a-f]+$")


def _strip_ref(n):
    if isinstance(n, dict):
        r = {}
        for k, v in n.items():
            if k in ("id", "loc", "range", "previousDecl", "mangledName"):
                continue
            if isinstance(v, str) and _PTR.match(v):
                continue        # referencedMemberDecl, typeAliasDeclId, ...: addresses inside clang, different on every run
            if k == "referencedDecl":
                r[k] = {"name": v.get("name"), "kind": v.get("kind")}
            else:
                r[k] = _strip_ref(v)
        return r
    if isinstance(n, list):
        return [_strip_ref(x) for x in n]
    return n


def ast_hash(fn):
    return hashlib.sha256(json.dumps(_strip_ref(fn), sort_keys=True).encode()).hexdigest()[:16]


def qt(n):
    t = n.get("type", {})
    return t.get("desugaredQualType") or t.get("qualType", "")


def norm_type(t):
    t = t.replace("const ", "").replace("volatile ", "").strip()
    t = re.sub(r"\s+", " ", t)
    return t


WRAP = {"u64": 2 ** 64, "u32": 2 ** 32, "u16": 2 ** 16, "u8": 2 ** 8}


class Translator:
    def __init__(self, types, structs, funcs=None, consts=None):
        """types: C scalar type name -> representation ('ideal','u64','u32','U64','bool','field', ...)
        structs: C struct pointer type (normalised, e.g. 'struct cmi_heap_tag *') ->
                 dict(lean='HTag', fields={'dsortkey': ('d','ideal'), ...})
        funcs: C function name -> Lean name for calls to other translated functions."""
        self.types = types
        self.structs = structs
        self.funcs = funcs or {}
        self.consts = consts or {}

    # ---- types --------------------------------------------------------
    def rep_of_type(self, ctype):
        t = norm_type(ctype)
        if t in self.types:
            return self.types[t]
        if t in ("_Bool", "bool"):
            return "bool"
        raise Untranslatable("no representation chosen for C type '%s'" % ctype)

    def rep(self, n):
        t = n.get("type", {})
        for cand in (t.get("qualType"), t.get("desugaredQualType")):
            if cand and norm_type(cand) in self.types:
                return self.types[norm_type(cand)]
        return self.rep_of_type(t.get("desugaredQualType") or t.get("qualType", ""))

    # ---- expressions ----------------------------------------------------
    def is_assert_noop(self, n):
        # do { (void)sizeof(x); } while (0)
        if n.get("kind") != "DoStmt":
            return False
        body, cond = n["inner"][0], n["inner"][1]
        if not (cond.get("kind") == "IntegerLiteral" and cond.get("value") == "0"):
            return False
        for c in body.get("inner", []):
            if not (c.get("kind") == "CStyleCastExpr" and c.get("castKind") == "ToVoid"):
                return False
        return True

    def expr(self, n, env):
        """Returns a Lean expression string. Bool-typed C expressions (comparisons, logical ops) are Lean Bool."""
        k = n.get("kind")
        if k in ("ParenExpr", "ConstantExpr"):
            return self.expr(n["inner"][0], env)
        if k == "ImplicitCastExpr" or k == "CStyleCastExpr":
            ck = n.get("castKind")
            inner = n["inner"][0]
            if ck in ("LValueToRValue", "NoOp", "FunctionToPointerDecay"):
                return self.expr(inner, env)
            if ck == "IntegralToBoolean":
                if inner.get("kind") == "IntegerLiteral":
                    return "true" if inner.get("value") != "0" else "false"
                if self.is_boolish(inner):
                    return self.expr(inner, env)
                return "(decide (%s ≠ 0))" % self.expr(inner, env)
            if ck == "IntegralCast":
                return self.integral_cast(n, inner, env)
            if ck in ("IntegralToPointer", "BitCast", "NullToPointer") and self.types.get("void *") in ("ideal", "nat"):
                # pointers are opaque words; only (in)equality is ever applied to them
                return self.expr(inner, env)
            if ck == "ArrayToPointerDecay":
                return self.expr(inner, env)
            if ck == "IntegralToFloating":
                return "((%s : Nat) : K)" % self.expr(inner, env) if self.rep(inner) in ("ideal", "u64", "u32") else "(%s : K)" % self.expr(inner, env)
            raise Untranslatable("cast kind %s" % ck)
        if k == "IntegerLiteral":
            v = n["value"]
            r = self.rep(n)
            if r == "U64":
                return "(%s : UInt64)" % v
            return v
        if k == "CXXBoolLiteralExpr":
            return "true" if n.get("value") else "false"
        if k == "DeclRefExpr":
            name = n["referencedDecl"]["name"]
            if name in env:
                if env[name] is UNASSIGNED:
                    raise Untranslatable("local %s may be read before it is assigned" % name)
                return env[name]
            if name in self.consts:
                return self.consts[name]
            raise Untranslatable("reference to unknown name %s" % name)
        if k == "MemberExpr":
            base = n["inner"][0]
            bt = norm_type(qt(base))
            st = self.structs.get(bt)
            if st is None:
                raise Untranslatable("member access on unsupported type %s" % bt)
            f = n["name"]
            if f not in st["fields"]:
                raise Untranslatable("field %s of %s not mapped" % (f, bt))
            return "%s.%s" % (self.expr(base, env), st["fields"][f][0])
        if k == "ArraySubscriptExpr":
            base, idx = n["inner"]
            while base.get("kind") in ("ImplicitCastExpr", "ParenExpr"):
                base = base["inner"][0]
            if base.get("kind") == "MemberExpr" and idx.get("kind") == "IntegerLiteral":
                sb = base["inner"][0]
                st = self.structs.get(norm_type(qt(sb)))
                f = base["name"]
                if st and f in st["fields"] and isinstance(st["fields"][f][1], list):
                    return "%s.%s.%s" % (self.expr(sb, env), st["fields"][f][0], st["fields"][f][1][int(idx["value"])])
            raise Untranslatable("array subscript outside the supported form s->arr[literal]")
        if k == "UnaryOperator":
            op = n["opcode"]
            a = n["inner"][0]
            if op == "!":
                return "(!%s)" % self.boolify(a, env)
            if op == "-":
                return "(-%s)" % self.expr(a, env)
            raise Untranslatable("unary operator %s in expression" % op)
        if k == "BinaryOperator":
            return self.binop(n, env)
        if k == "ConditionalOperator":
            c, a, b = n["inner"]
            return "(if %s then %s else %s)" % (self.boolify(c, env), self.expr(a, env), self.expr(b, env))
        if k == "CallExpr":
            callee = n["inner"][0]
            while callee.get("kind") in ("ImplicitCastExpr", "ParenExpr"):
                callee = callee["inner"][0]
            name = callee.get("referencedDecl", {}).get("name")
            if name in self.funcs:
                args = " ".join("(%s)" % self.expr(a, env) for a in n["inner"][1:])
                return "(%s %s)" % (self.funcs[name], args)
            raise Untranslatable("call to untranslated function %s" % name)
        raise Untranslatable("expression kind %s" % k)

    def integral_cast(self, n, inner, env):
        src, dst = self.rep(inner), self.rep(n)
        e = self.expr(inner, env)
        if src == dst:
            return e
        # widening of unsigned wrap types, or literal conversions
        order = ["u8", "u16", "u32", "u64"]
        if src in order and dst in order:
            if order.index(src) <= order.index(dst):
                return e
            return "(%s %% %d)" % (e, WRAP[dst])
        if inner.get("kind") == "IntegerLiteral" or (inner.get("kind") in ("ImplicitCastExpr", "ParenExpr") and False):
            v = int(inner["value"])
            if dst in WRAP:
                return str(v % WRAP[dst])
            if dst == "U64":
                return "(%d : UInt64)" % (v % 2 ** 64)
            if dst in ("ideal", "int"):
                return str(v)
        if src == "int" and dst in WRAP:
            # signed int (promoted small unsigned, known non-negative in our sources) -> unsigned
            return "(%s %% %d)" % (e, WRAP[dst])
        if src in ("u8", "u16") and dst == "int":
            return e
        if dst == "ideal" and src in ("ideal", "int"):
            return e
        if dst == "int" and src == "ideal":
            return e
        raise Untranslatable("integral cast %s -> %s" % (src, dst))

    def is_boolish(self, n):
        k = n.get("kind")
        if k in ("ParenExpr", "ImplicitCastExpr") and n.get("castKind") in (None, "LValueToRValue", "NoOp", "IntegralCast"):
            if k == "ImplicitCastExpr" and n.get("castKind") == "IntegralCast":
                return self.is_boolish(n["inner"][0])
            return self.is_boolish(n["inner"][0])
        if k == "BinaryOperator" and n["opcode"] in ("<", ">", "<=", ">=", "==", "!=", "&&", "||"):
            return True
        if k == "UnaryOperator" and n["opcode"] == "!":
            return True
        if k == "CXXBoolLiteralExpr":
            return True
        if k in ("DeclRefExpr", "MemberExpr", "CallExpr") and norm_type(qt(n)) in ("_Bool", "bool"):
            return True
        if k == "ImplicitCastExpr" and n.get("castKind") == "IntegralToBoolean":
            return True
        return False

    def boolify(self, n, env):
        if self.is_boolish(n):
            # strip int-typed wrappers around a comparison
            m = n
            while m.get("kind") in ("ParenExpr",) or (m.get("kind") == "ImplicitCastExpr" and m.get("castKind") == "IntegralCast"):
                m = m["inner"][0]
            return self.expr(m, env)
        return "(decide (%s ≠ 0))" % self.expr(n, env)

    def binop(self, n, env):
        op = n["opcode"]
        a, b = n["inner"]
        if op in ("&&", "||"):
            return "(%s %s %s)" % (self.boolify(a, env), op, self.boolify(b, env))
        if op in ("<", ">", "<=", ">=", "==", "!="):
            ra, rb = self.rep(a), self.rep(b)
            if ra != rb and not ({ra, rb} <= {"ideal", "int"}) and not ({ra, rb} <= {"nat", "int"}):
                raise Untranslatable("comparison between representations %s and %s" % (ra, rb))
            lop = {"<": "<", ">": ">", "<=": "≤", ">=": "≥", "==": "=", "!=": "≠"}[op]
            if ra == "bool":
                ea, eb = self.boolify(a, env), self.boolify(b, env)
                return "(decide (%s %s %s))" % (ea, lop, eb)
            return "(decide (%s %s %s))" % (self.expr(a, env), lop, self.expr(b, env))
        r = self.rep(n)
        ea, eb = self.expr(a, env), self.expr(b, env)
        if r in WRAP:
            m = WRAP[r]
            if op in ("+", "*"):
                return "((%s %s %s) %% %d)" % (ea, op, eb, m)
            if op == "-":
                return "((%s + %d - %s) %% %d)" % (ea, m, eb, m)
            if op == ">>":
                return "(%s >>> %s)" % (ea, eb)
            if op == "<<":
                return "((%s <<< %s) %% %d)" % (ea, eb, m)
            if op in ("&", "|", "^"):
                return "(%s %s %s)" % (ea, {"&": "&&&", "|": "|||", "^": "^^^"}[op], eb)
            if op in ("/", "%"):
                return "(%s %s %s)" % (ea, op, eb)
        if r == "U64":
            lop = {"+": "+", "-": "-", "*": "*", ">>": ">>>", "<<": "<<<", "&": "&&&", "|": "|||", "^": "^^^",
                   "/": "/", "%": "%"}.get(op)
            if lop:
                return "(%s %s %s)" % (ea, lop, eb)
        if r == "int":
            # C int arithmetic on small promoted values: exact as long as it stays within int, which the caller asserts
            if op in ("+", "-", "*"):
                return "(%s %s %s)" % (ea, op, eb)
        if r == "field":
            if op in ("+", "-", "*", "/"):
                return "(%s %s %s)" % (ea, op, eb)
        raise Untranslatable("binary operator %s at representation %s" % (op, r))

    # ---- statements ------------------------------------------------------
    def always_returns(self, stmts):
        for s in stmts:
            k = s.get("kind")
            if k == "ReturnStmt":
                return True
            if k == "CompoundStmt" and self.always_returns(s.get("inner", [])):
                return True
            if k == "IfStmt":
                parts = s["inner"]
                if s.get("hasElse") and self.always_returns([parts[1]]) and self.always_returns([parts[2]]):
                    return True
        return False

    def stmts(self, ss, env, ret_pack, depth=0):
        """Translate statement list `ss` followed by nothing; must end in return on every path.
        `ret_pack(expr_or_None, env)` builds the Lean result for `return expr`."""
        if depth > 200:
            raise Untranslatable("statement nesting too deep")
        if not ss:
            return ret_pack(None, env)
        s, rest = ss[0], ss[1:]
        k = s.get("kind")
        if self.is_assert_noop(s) or k == "NullStmt":
            return self.stmts(rest, env, ret_pack, depth)
        if k == "CompoundStmt":
            # block scoping of declarations is ignored: names are unique in our sources (checked)
            return self.stmts(list(s.get("inner", [])) + rest, env, ret_pack, depth + 1)
        if k == "ReturnStmt":
            inner = s.get("inner", [])
            return ret_pack(inner[0] if inner else None, env)
        if k == "DeclStmt":
            out_env = dict(env)
            lets = []
            for v in s["inner"]:
                if v.get("kind") != "VarDecl":
                    raise Untranslatable("declaration kind %s" % v.get("kind"))
                name = v["name"]
                if name in env and depth >= 0 and env[name] != name:
                    pass
                init = [c for c in v.get("inner", []) if c.get("kind") not in ("FullComment",)]
                if not init:
                    # declared without a value: every path has to assign it before it is read (checked at the reads; an `if`
                    # translates its continuation once per branch, so "assigned in every branch" needs no extra analysis)
                    out_env[name] = UNASSIGNED
                    continue
                r = self.rep(v)
                e = self.boolify(init[0], out_env) if r == "bool" else self.expr(init[0], out_env)
                lets.append("let %s := %s" % (name, e))
                out_env[name] = name
            return "\n".join(lets) + "\n" + self.stmts(rest, out_env, ret_pack, depth)
        if k == "IfStmt":
            parts = s["inner"]
            c = self.boolify(parts[0], env)
            then = [parts[1]]
            els = [parts[2]] if s.get("hasElse") else []
            if self.always_returns(then) and (not els or self.always_returns(els)) and els:
                return "if %s then\n%s\nelse\n%s" % (c, ind(self.stmts(then, env, ret_pack, depth + 1)),
                                                      ind(self.stmts(els, env, ret_pack, depth + 1)))
            t = self.stmts(then + rest, env, ret_pack, depth + 1)
            e = self.stmts(els + rest, env, ret_pack, depth + 1)
            return "if %s then\n%s\nelse\n%s" % (c, ind(t), ind(e))
        if k == "BinaryOperator" and s["opcode"] == "=":
            lhs, rhs = s["inner"]
            return self.assign(lhs, None, rhs, rest, env, ret_pack, depth)
        if k == "CompoundAssignOperator":
            lhs, rhs = s["inner"]
            return self.assign(lhs, s["opcode"][:-1], rhs, rest, env, ret_pack, depth, node=s)
        if k == "UnaryOperator" and s["opcode"] in ("++", "--"):
            lhs = s["inner"][0]
            one = {"kind": "IntegerLiteral", "value": "1", "type": lhs["type"]}
            return self.assign(lhs, "+" if s["opcode"] == "++" else "-", one, rest, env, ret_pack, depth, node=s)
        raise Untranslatable("statement kind %s" % k)

    def assign(self, lhs, op, rhs, rest, env, ret_pack, depth, node=None):
        while lhs.get("kind") == "ParenExpr":
            lhs = lhs["inner"][0]
        r = self.rep(lhs)
        if op is None:
            val = self.boolify(rhs, env) if r == "bool" else self.expr(rhs, env)
        else:
            fake = {"kind": "BinaryOperator", "opcode": op, "inner": [lhs, rhs], "type": lhs["type"]}
            val = self.binop(fake, env)
        if lhs.get("kind") == "DeclRefExpr":
            name = lhs["referencedDecl"]["name"]
            if name not in env:
                raise Untranslatable("assignment to unknown name %s" % name)
            if env[name] is UNASSIGNED:
                env = dict(env)
                env[name] = name
            return "let %s := %s\n%s" % (env[name], val, self.stmts(rest, env, ret_pack, depth))
        if lhs.get("kind") == "MemberExpr":
            base = lhs["inner"][0]
            while base.get("kind") in ("ImplicitCastExpr", "ParenExpr"):
                base = base["inner"][0]
            if base.get("kind") != "DeclRefExpr":
                raise Untranslatable("assignment through a non-trivial base expression")
            bname = base["referencedDecl"]["name"]
            st = self.structs.get(norm_type(qt(base)))
            if st is None or lhs["name"] not in st["fields"]:
                raise Untranslatable("assignment to unmapped field %s" % lhs["name"])
            f = st["fields"][lhs["name"]][0]
            return "let %s := { %s with %s := %s }\n%s" % (env[bname], env[bname], f, val,
                                                        self.stmts(rest, env, ret_pack, depth))
        raise Untranslatable("assignment target kind %s" % lhs.get("kind"))

    # ---- functions ---------------------------------------------------------
    def function(self, fn, lean_name, ret_lean=None, written_params=()):
        params, body = [], None
        for c in fn.get("inner", []):
            if c.get("kind") == "ParmVarDecl":
                params.append(c)
            elif c.get("kind") == "CompoundStmt":
                body = c
        env, sig = {}, []
        for p in params:
            name = p["name"]
            t = norm_type(qt(p))
            if t in self.structs:
                lt = self.structs[t]["lean"]
            else:
                lt = {"ideal": "Int", "u64": "Nat", "u32": "Nat", "U64": "UInt64", "bool": "Bool", "field": "K",
                      "int": "Int", "u16": "Nat", "nat": "Nat"}[self.rep(p)]
                if self.rep(p) == "ideal" and "uint" in t:
                    lt = "Nat"
            env[name] = name
            sig.append("(%s : %s)" % (name, lt))
        rtype = fn["type"]["qualType"].split("(")[0].strip()
        rrep = None if rtype == "void" else self.rep_of_type(rtype)

        def ret_pack(e, env2):
            parts = []
            if e is not None:
                parts.append(self.boolify(e, env2) if rrep == "bool" else self.expr(e, env2))
            elif rrep is not None:
                raise Untranslatable("control reaches end of non-void function %s" % fn["name"])
            parts += [env2[w] for w in written_params]
            if not parts:
                return "()"
            return parts[0] if len(parts) == 1 else "(" + ", ".join(parts) + ")"
        text = self.stmts([body], env, ret_pack)
        rl = ret_lean
        if rl is None:
            base = {"bool": "Bool", "u64": "Nat", "u32": "Nat", "U64": "UInt64", "ideal": "Int", "field": "K", None: None,
                    "int": "Int", "nat": "Nat"}[rrep]
            outs = ([base] if base else []) + [self.structs[norm_type(qt(p))]["lean"] for p in params if p["name"] in written_params]
            rl = " × ".join(outs) if outs else "Unit"
        return "def %s %s : %s :=\n%s\n" % (lean_name, " ".join(sig), rl, ind(text))


def ind(s, n=2):
    return "\n".join(" " * n + l for l in s.splitlines())
