"""Shared machinery for the cimba verification checks (see DESIGN.md §2.4).

Everything a per-property check (tools/props/Cnn.py) needs:
  * build_impl(variant)      build /repo's *current working tree* into a static library
  * cc_harness(...)          compile a C harness against that library
  * lake_build(targets)      build Lean targets (serialised with a file lock)
  * audit(prop)              forbidden-token grep + `#print axioms` on every theorem of Props/<prop>.lean
  * run_pair / diff_streams  correspondence: same input to C driver and Lean driver, diff outputs
  * Check                    bookkeeping: obligations, evidence, violations, known findings
"""
import contextlib
import fcntl
import hashlib
import json
import os
import re
import shutil
import subprocess
import sys
import time

VERIF = os.path.dirname(os.path.dirname(os.path.abspath(__file__)))
REPO = os.environ.get("VERIF_REPO", "/repo")
BUILD = os.path.join(VERIF, ".build")
LEAN = os.path.join(VERIF, "lean")
GEN = os.path.join(LEAN, "CimbaModel", "Generated")
GUARD = "CIMBA_VERIF"
NPROC = os.cpu_count() or 4
ALLOWED_AXIOMS = {"propext", "Classical.choice", "Quot.sound"}

os.makedirs(BUILD, exist_ok=True)


def sh(cmd, cwd=None, timeout=None, env=None, input=None, check=False):
    """Run a command (list), return (rc, stdout+stderr as str)."""
    e = dict(os.environ)
    if env:
        e.update(env)
    try:
        p = subprocess.run(cmd, cwd=cwd, timeout=timeout, env=e, input=input,
                           stdout=subprocess.PIPE, stderr=subprocess.STDOUT)
        out = p.stdout.decode("utf-8", "replace") if isinstance(p.stdout, bytes) else p.stdout
        rc = p.returncode
    except subprocess.TimeoutExpired as ex:
        out = (ex.stdout or b"").decode("utf-8", "replace") + "\n[timeout]"
        rc = 124
    if check and rc != 0:
        raise RuntimeError("command failed (%d): %s\n%s" % (rc, " ".join(cmd), out[-4000:]))
    return rc, out


@contextlib.contextmanager
def locked(name):
    path = os.path.join(BUILD, name + ".lock")
    with open(path, "w") as f:
        fcntl.flock(f, fcntl.LOCK_EX)
        try:
            yield
        finally:
            fcntl.flock(f, fcntl.LOCK_UN)


# --------------------------------------------------------------------------
# Building the implementation from the current working tree
# --------------------------------------------------------------------------

SRC_DIRS = ["src", "include", "codegen"]


def tree_hash():
    h = hashlib.sha256()
    for d in SRC_DIRS:
        root = os.path.join(REPO, d)
        for dp, dn, fn in sorted(os.walk(root)):
            dn.sort()
            for f in sorted(fn):
                p = os.path.join(dp, f)
                h.update(os.path.relpath(p, REPO).encode())
                with open(p, "rb") as fh:
                    h.update(hashlib.sha256(fh.read()).digest())
    return h.hexdigest()[:16]


VARIANTS = {
    # the shipped configuration minus LTO
    "rel": ["-O2", "-g", "-DNDEBUG"],
    # sanitizers, debug asserts on, hooks on
    "san": ["-O1", "-g", "-fno-omit-frame-pointer", "-fsanitize=address,undefined",
            "-fno-sanitize-recover=all", "-D" + GUARD],
    # hooks on, release asserts only, no sanitizer (fast exact-state runs)
    "hook": ["-O2", "-g", "-DNDEBUG", "-D" + GUARD],
}
COMMON = ["-std=c17", "-D_POSIX_C_SOURCE=200809L", "-Wno-pedantic", "-w"]
PORT = "src/port/x86-64/linux"


class ImplBuildError(Exception):
    pass


def build_impl(variant="rel"):
    """Compile REPO's working tree. Returns dict(dir, lib, cflags, ldflags). Cached by content hash."""
    th = tree_hash()
    d = os.path.join(BUILD, "impl", "%s-%s" % (variant, th))
    info = {
        "dir": d, "lib": os.path.join(d, "libcimba.a"), "variant": variant, "tree": th,
        "cflags": COMMON + VARIANTS[variant] + ["-I" + os.path.join(REPO, "include"),
                                                 "-I" + os.path.join(REPO, "src"), "-I" + d],
        "ldflags": ["-lm", "-lpthread"],
    }
    with locked("impl-" + variant):
        if os.path.exists(os.path.join(d, ".done")):
            return info
        # remove stale builds of this variant
        base = os.path.join(BUILD, "impl")
        os.makedirs(base, exist_ok=True)
        for old in os.listdir(base):
            if old.startswith(variant + "-"):
                shutil.rmtree(os.path.join(base, old), ignore_errors=True)
        os.makedirs(d)
        try:
            _do_build(d, info)
        except Exception:
            shutil.rmtree(d, ignore_errors=True)
            raise
        open(os.path.join(d, ".done"), "w").close()
    return info


def _do_build(d, info):
    def run(cmd, cwd=d):
        rc, out = sh(cmd, cwd=cwd, timeout=600)
        if rc != 0:
            raise ImplBuildError("build step failed: %s\n%s" % (" ".join(cmd), out[-3000:]))
        return out
    cg = os.path.join(REPO, "codegen")
    for name in ("exponential", "normal"):
        exe = os.path.join(d, "calc_" + name)
        run(["gcc", "-O1", "-w", "-o", exe, os.path.join(cg, "calc_%s.c" % name),
             os.path.join(cg, "calc_utils.c"), "-lm"])
        out = run([exe])
        short = {"exponential": "exp", "normal": "nor"}[name]
        with open(os.path.join(d, "cmi_random_%s_zig.inc" % short), "w") as f:
            f.write(out)
    objs = []
    port = os.path.join(REPO, PORT)
    for f in sorted(os.listdir(port)):
        if f.endswith(".asm"):
            o = os.path.join(d, f[:-4] + "_asm.o")
            run(["nasm", "-f", "elf64", "-g", os.path.join(port, f), "-o", o])
            objs.append(o)
    srcs = [os.path.join(REPO, "src", f) for f in sorted(os.listdir(os.path.join(REPO, "src"))) if f.endswith(".c")]
    srcs += [os.path.join(port, f) for f in sorted(os.listdir(port)) if f.endswith(".c")]
    procs = []
    for s in srcs:
        o = os.path.join(d, os.path.basename(s)[:-2] + ".o")
        objs.append(o)
        procs.append((s, subprocess.Popen(["gcc"] + info["cflags"] + ["-c", s, "-o", o],
                                          stdout=subprocess.PIPE, stderr=subprocess.STDOUT)))
    for s, p in procs:
        out, _ = p.communicate()
        if p.returncode != 0:
            raise ImplBuildError("compile failed: %s\n%s" % (s, out.decode("utf-8", "replace")[-3000:]))
    run(["ar", "rcs", info["lib"]] + objs)


def cc_harness(name, impl, extra_src=(), extra_flags=(), lang="c"):
    """Compile harness/<name>.c against the implementation build `impl`. Returns path of the binary."""
    src = os.path.join(VERIF, "harness", name + ".c")
    exe = os.path.join(impl["dir"], name)
    deps = [src] + [os.path.join(VERIF, "harness", e) for e in extra_src]
    with locked("cc-%s-%s" % (impl["variant"], name)):
        stamp = exe + ".stamp"
        h = hashlib.sha256()
        for p in deps + [os.path.join(VERIF, "harness", f) for f in sorted(os.listdir(os.path.join(VERIF, "harness"))) if f.endswith(".h")]:
            with open(p, "rb") as fh:
                h.update(fh.read())
        h.update(" ".join(extra_flags).encode())
        dig = h.hexdigest()
        if os.path.exists(exe) and os.path.exists(stamp) and open(stamp).read() == dig:
            return exe
        cmd = ["gcc"] + impl["cflags"] + list(extra_flags) + ["-I" + os.path.join(VERIF, "harness")] + deps + \
              [impl["lib"]] + impl["ldflags"] + ["-o", exe]
        rc, out = sh(cmd, timeout=600)
        if rc != 0:
            raise ImplBuildError("harness compile failed: %s\n%s" % (name, out[-4000:]))
        with open(stamp, "w") as f:
            f.write(dig)
    return exe


# --------------------------------------------------------------------------
# Lean
# --------------------------------------------------------------------------

def write_if_changed(path, text):
    os.makedirs(os.path.dirname(path), exist_ok=True)
    if os.path.exists(path) and open(path).read() == text:
        return False
    tmp = path + ".tmp%d" % os.getpid()
    with open(tmp, "w") as f:
        f.write(text)
    os.replace(tmp, path)
    return True


def lake_build(targets, timeout=3600):
    """Build Lean targets. Returns (ok, output)."""
    with locked("lake"):
        rc, out = sh(["lake", "build"] + list(targets), cwd=LEAN, timeout=timeout)
    return rc == 0, out


def lean_exe(name):
    return os.path.join(LEAN, ".lake", "build", "bin", name)


def lean_run_file(text, timeout=1200):
    """Elaborate a scratch Lean file inside the project environment; returns (rc, out)."""
    p = os.path.join(BUILD, "scratch_%d_%d.lean" % (os.getpid(), int(time.time() * 1e6) % 10**9))
    with open(p, "w") as f:
        f.write(text)
    try:
        rc, out = sh(["lake", "env", "lean", p], cwd=LEAN, timeout=timeout)
    finally:
        os.unlink(p)
    return rc, out


FORBIDDEN = re.compile(r"\bsorry\b|\badmit\b|^\s*axiom\s|native_decide|bv_decide|implemented_by|\bunsafe\s|maxHeartbeats\s+0\b|@\[extern")


def strip_lean_comments(src):
    # remove block comments (nested) and line comments, keep string literals intact enough for our grep
    out = []
    i, n, depth = 0, len(src), 0
    while i < n:
        if src.startswith("/-", i):
            depth += 1
            i += 2
        elif depth and src.startswith("-/", i):
            depth -= 1
            i += 2
        elif depth:
            if src[i] == "\n":
                out.append("\n")
            i += 1
        elif src.startswith("--", i):
            while i < n and src[i] != "\n":
                i += 1
        else:
            out.append(src[i])
            i += 1
    return "".join(out)


def lean_module_closure(mod):
    """All project-local modules reachable from `mod` via import (source paths)."""
    seen, todo = {}, [mod]
    while todo:
        m = todo.pop()
        if m in seen:
            continue
        p = os.path.join(LEAN, *m.split(".")) + ".lean"
        if not os.path.exists(p):
            continue
        seen[m] = p
        for line in open(p):
            mm = re.match(r"\s*(?:public\s+)?import\s+(\S+)", line)
            if mm and (mm.group(1).startswith("CimbaModel") or mm.group(1).startswith("Drivers")):
                todo.append(mm.group(1))
    return seen


def theorem_names(path):
    """Fully qualified names of the theorems declared in a Props file."""
    src = strip_lean_comments(open(path).read())
    ns, names = [], []
    for line in src.splitlines():
        m = re.match(r"\s*namespace\s+(\S+)", line)
        if m:
            ns.append(m.group(1))
            continue
        m = re.match(r"\s*end\s+(\S+)\s*$", line)
        if m and ns and ns[-1] == m.group(1):
            ns.pop()
            continue
        m = re.match(r"\s*(?:@\[[^\]]*\]\s*)?(?:protected\s+|private\s+)?theorem\s+([^\s:({\[]+)", line)
        if m:
            names.append(".".join(ns + [m.group(1)]))
    return names


def audit(prop, extra_modules=()):
    """Returns dict(ok, theorems, axioms{thm: [..]}, problems[..]). Requires the module to be built."""
    mod = "CimbaModel.Props." + prop
    problems = []
    closure = lean_module_closure(mod)
    for m in extra_modules:
        closure.update(lean_module_closure(m))
    if mod not in closure:
        return {"ok": False, "theorems": [], "axioms": {}, "problems": ["missing " + mod], "modules": []}
    for m, p in sorted(closure.items()):
        src = strip_lean_comments(open(p).read())
        for ln, line in enumerate(src.splitlines(), 1):
            if FORBIDDEN.search(line):
                problems.append("%s:%d: forbidden token: %s" % (os.path.relpath(p, VERIF), ln, line.strip()[:120]))
    thms = theorem_names(closure[mod])
    text = "import %s\n" % mod + "".join("#print axioms %s\n" % t for t in thms)
    rc, out = lean_run_file(text)
    axioms = {}
    cur = None
    if rc != 0:
        problems.append("#print axioms failed: " + out[-2000:])
    # parse: "'X' depends on axioms: [a, b]" (possibly multi-line) or "'X' does not depend on any axioms"
    flat = re.sub(r"\s+", " ", out)
    for m in re.finditer(r"'([^']+)' (does not depend on any axioms|depends on axioms: \[([^\]]*)\])", flat):
        name = m.group(1)
        axs = [a.strip() for a in (m.group(3) or "").split(",") if a.strip()]
        axioms[name] = axs
        bad = [a for a in axs if a not in ALLOWED_AXIOMS]
        if bad:
            problems.append("theorem %s depends on non-standard axioms %s" % (name, bad))
    for t in thms:
        if t not in axioms:
            problems.append("no axiom report for theorem " + t)
    if not thms:
        problems.append("no theorems in " + mod)
    return {"ok": not problems, "theorems": thms, "axioms": axioms, "problems": problems,
            "modules": sorted(closure)}


def leanchecker(modules, timeout=3600):
    bad = []
    for m in modules:
        with locked("lake"):
            rc, out = sh(["lake", "env", "leanchecker", m], cwd=LEAN, timeout=timeout)
        if rc != 0:
            bad.append((m, out[-1500:]))
    return bad


# --------------------------------------------------------------------------
# Correspondence helpers
# --------------------------------------------------------------------------

def run_driver(exe, text, timeout=600, env=None, args=()):
    """Feed `text` on stdin to a driver. Returns (rc, stdout, stderr)."""
    e = dict(os.environ)
    e.setdefault("ASAN_OPTIONS", "detect_leaks=0:abort_on_error=0:detect_stack_use_after_return=0")
    e.setdefault("UBSAN_OPTIONS", "print_stacktrace=1")
    if env:
        e.update(env)
    try:
        p = subprocess.run([exe] + list(args), input=text.encode(), stdout=subprocess.PIPE, stderr=subprocess.PIPE,
                           timeout=timeout, env=e)
        return p.returncode, p.stdout.decode("utf-8", "replace"), p.stderr.decode("utf-8", "replace")
    except subprocess.TimeoutExpired as ex:
        return 124, (ex.stdout or b"").decode("utf-8", "replace"), "[timeout]"


def first_diff(a_lines, b_lines):
    n = min(len(a_lines), len(b_lines))
    for i in range(n):
        if a_lines[i] != b_lines[i]:
            return i
    if len(a_lines) != len(b_lines):
        return n
    return None


def parallel_map(fn, items, workers=None):
    """Thread pool map (the work is in subprocesses)."""
    from concurrent.futures import ThreadPoolExecutor
    with ThreadPoolExecutor(max_workers=workers or NPROC) as ex:
        return list(ex.map(fn, items))


# --------------------------------------------------------------------------
# Check bookkeeping
# --------------------------------------------------------------------------

class Check:
    def __init__(self, prop, tier, seed):
        self.prop, self.tier, self.seed = prop, tier, seed
        self.t0 = time.time()
        self.violations = []          # (kind, replay_path)
        self.known_hits = []
        self.cov = {"obligations": 0, "discharged": 0, "checker_cmd": "", "trusted_base": [],
                    "evaluations": 0, "distinct_nontrivial": 0, "rule": "", "samples": [],
                    "traces_validated_against_impl": 0}
        self.assumptions = []
        self.notes = []
        kf = os.path.join(VERIF, "known_findings.json")
        self.known = []
        if os.path.exists(kf):
            self.known = [k for k in json.load(open(kf)).get("findings", []) if k.get("property") == prop]

    def log(self, *a):
        print("[%s %6.1fs]" % (self.prop, time.time() - self.t0), *a, flush=True)

    # -- violations ------------------------------------------------------
    def violation(self, what, replay_text, found_input):
        """Record a violation. `found_input`: a concrete failing input confirmed on the implementation."""
        d = os.path.join(VERIF, "evidence", "replay")
        os.makedirs(d, exist_ok=True)
        h = hashlib.sha256((what + replay_text).encode()).hexdigest()[:12]
        p = os.path.join(d, "%s-%s.txt" % (self.prop, h))
        with open(p, "w") as f:
            f.write("# property %s\n# %s\n# tier=%s seed=%d\n" % (self.prop, what.replace("\n", "\n# "), self.tier, self.seed))
            f.write(replay_text)
            if not replay_text.endswith("\n"):
                f.write("\n")
        self.violations.append((what, p, found_input))
        tail = "" if found_input else " no-failing-input-found"
        print("VIOLATION property=%s replay=%s%s" % (self.prop, p, tail), flush=True)
        self.log("  ^", what.splitlines()[0][:300])

    def known_finding(self, what):
        self.known_hits.append(what)
        print("KNOWN-FINDING: property=%s %s" % (self.prop, what), flush=True)

    # -- proof part --------------------------------------------------------
    def prove(self, extra_targets=(), extra_modules=()):
        """lake build the property module (+ extra targets), audit it. Returns True if all proof obligations hold."""
        mod = "CimbaModel.Props." + self.prop
        targets = [mod] + list(extra_targets)
        ok, out = lake_build(targets)
        self.cov["checker_cmd"] = "cd lean && lake build %s && lake env lean <#print axioms for every theorem of Props/%s.lean>" % (" ".join(targets), self.prop)
        path = os.path.join(LEAN, "CimbaModel", "Props", self.prop + ".lean")
        thms = theorem_names(path) if os.path.exists(path) else []
        self.cov["obligations"] = len(thms)
        if not ok:
            self.cov["discharged"] = 0
            errs = [l for l in out.splitlines() if "error" in l][:20]
            self.build_error = out
            self.log("lake build failed:\n" + "\n".join(errs))
            return False
        a = audit(self.prop, extra_modules)
        self.cov["discharged"] = sum(1 for t in a["theorems"] if t in a["axioms"] and
                                     all(x in ALLOWED_AXIOMS for x in a["axioms"][t]))
        self.cov["theorems"] = a["theorems"]
        self.cov["axioms_used"] = sorted({x for v in a["axioms"].values() for x in v})
        self.cov["modules_audited"] = a["modules"]
        self.audit_result = a
        if not a["ok"]:
            self.log("audit problems:\n" + "\n".join(a["problems"][:20]))
            return False
        if self.tier == "thorough":
            bad = leanchecker([mod])
            self.cov["leanchecker"] = "failed" if bad else "ok"
            if bad:
                self.log("leanchecker failed: %s" % bad)
                return False
        return True

    # -- finishing -------------------------------------------------------
    def finish(self):
        ev = {
            "property_id": self.prop, "tier": self.tier, "seed": self.seed, "level": "proof",
            "coverage": self.cov, "assumptions": self.assumptions,
            "wall_s": round(time.time() - self.t0, 2), "violations": len(self.violations),
        }
        if self.known_hits:
            ev["coverage"]["known_findings_reproduced"] = self.known_hits
        if self.notes:
            ev["coverage"]["notes"] = self.notes
        if self.violations:
            ev["coverage"]["violation_replays"] = [p for _, p, _ in self.violations]
        if not ev["coverage"]["samples"]:
            ev["coverage"]["samples"] = ["(none)"]
        evdir = os.environ.get("VERIF_EVIDENCE_DIR", os.path.join(VERIF, "evidence"))
        os.makedirs(evdir, exist_ok=True)
        with open(os.path.join(evdir, self.prop + ".json"), "w") as f:
            json.dump(ev, f, indent=1, default=str)
            f.write("\n")
        self.log("done: obligations %d/%d discharged, %d evaluations, %d violations, %.1fs" % (
            self.cov["discharged"], self.cov["obligations"], self.cov["evaluations"],
            len(self.violations), time.time() - self.t0))
        return 1 if self.violations else 0
