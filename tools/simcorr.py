"""Observable-log correspondence between the real process layer (harness/simdrv.c) and the Lean model (simmain)."""
import hashlib
import os
import random

import gen_sim
import vlib

CORPUS = os.path.join(vlib.VERIF, "corpus", "sim")


def run_pair(c_exe, lean_exe, lines, timeout=60):
    txt = "\n".join(lines) + "\n"
    rc1, o1, e1 = vlib.run_driver(c_exe, txt, timeout=timeout)
    rc2, o2, e2 = vlib.run_driver(lean_exe, txt, timeout=timeout)
    if rc2 == 124:
        # the model always terminates (fuel); a time-out only says the machine is busy: wait for it
        rc2, o2, e2 = vlib.run_driver(lean_exe, txt, timeout=40 * timeout)
    if rc1 == 124 and rc2 == 0:
        # same for the implementation, once; if it still does not finish while the model does, that is a divergence
        rc1, o1, e1 = vlib.run_driver(c_exe, txt, timeout=10 * timeout)
    return (rc1, o1.splitlines(), e1), (rc2, o2.splitlines(), e2)


def compare(c_exe, lean_exe, lines):
    (rc1, a, e1), (rc2, b, e2) = run_pair(c_exe, lean_exe, lines)
    d = vlib.first_diff(a, b)
    if d is None and rc1 == 0 and rc2 == 0:
        return None
    return {"index": d, "impl": a[d] if d is not None and d < len(a) else "<none> rc=%d" % rc1,
            "model": b[d] if d is not None and d < len(b) else "<none> rc=%d" % rc2,
            "impl_rc": rc1, "impl_err": e1[-3000:], "impl_out": a, "model_out": b}


def parse(lines):
    head, procs, i = [], [], 0
    while i < len(lines):
        w = lines[i].split()
        if w[0] == "proc":
            n = int(w[3])
            procs.append((w[1], w[2], lines[i + 1:i + 1 + n]))
            i += 1 + n
        else:
            head.append(lines[i])
            i += 1
    return head, procs


def unparse(head, procs):
    out = list(head)
    for pr, au, cmds in procs:
        out.append("proc %s %s %d" % (pr, au, len(cmds)))
        out += cmds
    return out


def shrink(pred, lines, budget=300):
    head, procs = parse(lines)
    tries = [0]

    def ok(h, ps):
        tries[0] += 1
        return pred(unparse(h, ps))
    # drop commands (keep processes so that pids stay stable)
    for pi in range(len(procs)):
        pr, au, cmds = procs[pi]
        chunk = max(1, len(cmds) // 2)
        while chunk >= 1 and tries[0] < budget:
            i, red = 0, False
            while i < len(cmds) and tries[0] < budget:
                cand = cmds[:i] + cmds[i + chunk:]
                ps = procs[:pi] + [(pr, au, cand)] + procs[pi + 1:]
                if ok(head, ps):
                    cmds = cand
                    procs = ps
                    red = True
                else:
                    i += chunk
            if not red:
                chunk //= 2
    # drop trailing processes that became empty
    while len(procs) > 1 and not procs[-1][2] and tries[0] < budget and ok(head, procs[:-1]):
        procs = procs[:-1]
    return unparse(head, procs)


def corpus():
    out = []
    if os.path.isdir(CORPUS):
        for f in sorted(os.listdir(CORPUS)):
            if f.endswith(".txt"):
                out.append((f, [l.strip() for l in open(os.path.join(CORPUS, f)) if l.strip() and not l.startswith("#")]))
    return out


def worker(args):
    seed, n, profiles, c_exe, lean_exe, exclude = args
    rng = random.Random(seed)
    stats, bad = [], []
    for _ in range(n):
        lines, st = gen_sim.gen_scenario(rng, rng.choice(profiles), exclude=exclude)
        d = compare(c_exe, lean_exe, lines)
        st["sig"] = hashlib.sha256("\n".join(lines).encode()).hexdigest()[:16]
        st["log_lines"] = 0 if d else None
        stats.append(st)
        if d is not None:
            bad.append((lines, d))
            if len(bad) >= 4:
                break
    return stats, bad


def run_generated(seed, total, profiles, c_exe, lean_exe, exclude=frozenset()):
    import multiprocessing
    per = max(1, total // vlib.NPROC)
    jobs = [(seed * 104729 + w, per, profiles, c_exe, lean_exe, exclude) for w in range(vlib.NPROC)]
    with multiprocessing.Pool(vlib.NPROC) as pool:
        res = pool.map(worker, jobs)
    return [s for r in res for s in r[0]], [b for r in res for b in r[1]]
