"""C03 ties: the real library (harness/ctxdrv.c + harness/ctxprobe.asm) against the Lean models (Drivers/CtxMain).

  * script correspondence: random scripts of create / start / resume / transfer / yield / exit / ret / stop / reset over
    up to 8 coroutines; generated *against the running Lean model* (a rejected operation — one that would hit a release
    assert — is not put into the script), executed through the real API, outputs compared line by line
  * `monitor`: the property clauses of C03 evaluated on the implementation's own log, independent of the model
  * frame / entry / roundtrip / yield probes
"""
import hashlib
import os
import random
import subprocess

import vlib

CORPUS = os.path.join(vlib.VERIF, "corpus", "ctx")
USER_MASK = 0x244DD5
REGS = ["rbx", "rbp", "r12", "r13", "r14", "r15", "mxcsr", "rflags(user)", "rax", "msg_seen_by_other", "rsp_delta"]


def build_harness(impl):
    src = os.path.join(vlib.VERIF, "harness", "ctxprobe.asm")
    h = hashlib.sha256(open(src, "rb").read()).hexdigest()[:12]
    obj = os.path.join(impl["dir"], "ctxprobe-%s.o" % h)
    with vlib.locked("ctxprobe-" + impl["variant"]):
        if not os.path.exists(obj):
            rc, out = vlib.sh(["nasm", "-f", "elf64", src, "-o", obj])
            if rc != 0:
                raise vlib.ImplBuildError("nasm ctxprobe.asm failed: " + out[-2000:])
    return vlib.cc_harness("ctxdrv", impl, extra_flags=[obj])


# --------------------------------------------------------------------------------------------------------------
# Lean model session
# --------------------------------------------------------------------------------------------------------------

class Model:
    def __init__(self, lean_exe):
        self.p = subprocess.Popen([lean_exe], stdin=subprocess.PIPE, stdout=subprocess.PIPE, bufsize=0)

    def ask(self, line):
        self.p.stdin.write((line + "\n").encode())
        self.p.stdin.flush()
        return self.p.stdout.readline().decode().rstrip("\n")

    def tell(self, line):
        self.p.stdin.write((line + "\n").encode())
        self.p.stdin.flush()

    def close(self):
        try:
            self.p.stdin.close()
            self.p.wait(timeout=5)
        except Exception:
            self.p.kill()


def parse_state(line):
    """'ev | cur=K | 0:st,ex,par,cal ...' -> (ev words, cur, {id: (st, ex, par, cal)})"""
    parts = line.split(" | ")
    if len(parts) != 3:
        return None
    ev = parts[0].split()
    cur = int(parts[1].split("=")[1])
    cos = {}
    for tok in parts[2].split():
        i, rest = tok.split(":")
        st, ex, par, cal = rest.split(",")
        cos[int(i)] = (int(st), int(ex), None if par == "-" else int(par), None if cal == "-" else int(cal))
    return ev, cur, cos


# --------------------------------------------------------------------------------------------------------------
# script generation (against the model)
# --------------------------------------------------------------------------------------------------------------

PROFILES = ["asym", "sym", "nested", "restart", "mixed"]


def gen_script(rng, lean_exe, max_ops):
    """Returns (script lines, model output lines, stats)."""
    n = rng.randint(2, 8)
    profile = rng.choice(PROFILES)
    m = Model(lean_exe)
    try:
        m.tell("n %d" % n)
        lines, outs = ["n %d" % n], []
        st = {"profile": profile, "n": n, "ops": 0, "rejected": {}, "kinds": {}, "restarts": 0, "nested_starts": 0,
              "peer_transfers": 0, "stops_other": 0, "exits_via_ret": 0, "exit_parent_ne_caller": 0, "self_transfers": 0,
              "max_depth": 0}
        cur, cos = 0, {i: (0, 0, None, None) for i in range(n)}
        cos[0] = (1, 0, None, None)
        inited, ever_started = {0}, set()
        # target[x] = the coroutine x's pending cmi_coroutine_transfer went to; the debug assert after the switch
        # (cmi_coroutine_stack_valid(to), cmi_coroutine.c:255) wants that one to have a stack still when x continues,
        # so a coroutine some suspended one is waiting "on" is not re-initialised (documented-precondition level)
        pend_to = {}
        val = [rng.randint(1, 9)]

        def nv():
            val[0] += rng.randint(1, 5)
            return val[0]

        def attempt(op, switching):
            nonlocal cur, cos
            depth = rng.choice([0, 0, 1, 2, 3, 5, 8, 13, 21, 34, 55, 64]) if switching else 0
            resp = m.ask(op)
            if resp.startswith("fault") or resp.startswith("bad"):
                k = resp.split(".")[-1] if resp.startswith("fault") else resp
                st["rejected"][k] = st["rejected"].get(k, 0) + 1
                return False
            ps = parse_state(resp)
            lines.append(op + (" @%d" % depth if switching else ""))
            outs.append(resp)
            st["ops"] += 1
            st["max_depth"] = max(st["max_depth"], depth)
            kind = op.split()[0]
            st["kinds"][kind] = st["kinds"].get(kind, 0) + 1
            w = op.split()
            if kind == "start":
                c = int(w[1])
                if c in ever_started:
                    st["restarts"] += 1
                ever_started.add(c)
                if cur != 0:
                    st["nested_starts"] += 1
            if kind == "transfer":
                c = int(w[1])
                if c == cur:
                    st["self_transfers"] += 1
                elif c != 0 and cur != 0:
                    st["peer_transfers"] += 1
            if kind == "stop" and int(w[1]) != cur:
                st["stops_other"] += 1
            if kind in ("exit", "ret") or (kind == "stop" and int(w[1]) == cur):
                if kind == "ret":
                    st["exits_via_ret"] += 1
                if cos[cur][2] != cos[cur][3]:
                    st["exit_parent_ne_caller"] += 1
            if kind == "create":
                inited.add(int(w[1]))
            prev_cur = cur
            _, cur, cos = ps
            if cur != prev_cur:
                pend_to[prev_cur] = cur
                pend_to.pop(cur, None)
            return True

        # create most coroutines first
        for c in range(1, n):
            if rng.random() < 0.85:
                attempt("create %d %d" % (c, 100 + c), False)
        target = rng.randint(max_ops // 4, max_ops)
        tries = 0
        while st["ops"] < target and tries < target * 6:
            tries += 1
            running = [c for c in range(n) if cos[c][0] == 1]
            others = [c for c in running if c != cur]
            idle = [c for c in inited if c != 0 and cos[c][0] != 1]
            r = rng.random()
            wts = {"asym": (0.30, 0.25, 0.05, 0.12, 0.08, 0.05, 0.05, 0.05, 0.05),
                   "sym": (0.15, 0.05, 0.40, 0.10, 0.08, 0.05, 0.05, 0.07, 0.05),
                   "nested": (0.15, 0.15, 0.10, 0.30, 0.10, 0.05, 0.05, 0.05, 0.05),
                   "restart": (0.15, 0.10, 0.05, 0.25, 0.15, 0.05, 0.12, 0.10, 0.03),
                   "mixed": (0.18, 0.14, 0.14, 0.16, 0.10, 0.06, 0.08, 0.08, 0.06)}[profile]
            acc, pick = 0.0, 0
            for i, x in enumerate(wts):
                acc += x
                if r < acc:
                    pick = i
                    break
            else:
                pick = 8
            if pick == 0:
                attempt("yield %d" % nv(), True)
            elif pick == 1:
                c = rng.choice(others) if others and rng.random() < 0.9 else rng.randrange(n)
                attempt("resume %d %d" % (c, nv()), True)
            elif pick == 2:
                c = rng.choice(running) if running and rng.random() < 0.9 else rng.randrange(n)
                attempt("transfer %d %d" % (c, nv()), True)
            elif pick == 3:
                c = rng.choice(idle) if idle and rng.random() < 0.9 else rng.randrange(n)
                attempt("start %d %d" % (c, nv()), True)
            elif pick == 4:
                attempt(("exit %d" if rng.random() < 0.5 else "ret %d") % nv(), False)
            elif pick == 5:
                attempt("ret %d" % nv(), False)
            elif pick == 6:
                c = rng.choice(running) if running and rng.random() < 0.9 else rng.randrange(n)
                attempt("stop %d %d" % (c, nv()), False)
            elif pick == 7:
                c = rng.choice(sorted(inited)) if rng.random() < 0.9 else rng.randrange(n)
                attempt("reset %d" % c, False)
            else:
                c = rng.randrange(1, n)
                if c not in pend_to.values():
                    attempt("create %d %d" % (c, 100 + c + 10 * rng.randint(0, 3)), False)
        if cur != 0:
            attempt("transfer 0 %d" % nv(), True)
        return lines, outs, st
    finally:
        m.close()


# --------------------------------------------------------------------------------------------------------------
# the property clauses on a log (used on the IMPLEMENTATION's log when it differs from the model's)
# --------------------------------------------------------------------------------------------------------------

def monitor(lines, out):
    """None if the log satisfies the C03 clauses, else a message.  `lines` = script (first line 'n K'), `out` = one
    output line per operation."""
    ops = [l for l in lines if not l.startswith("n ") and not l.startswith("#")]
    if len(out) < len(ops) or any(parse_state(o) is None for o in out[:len(ops)]):
        bad = next((o for o in out if parse_state(o) is None), "<missing>")
        return "implementation stopped / printed '%s' after %d of %d operations" % (bad[:80], min(len(out), len(ops)), len(ops))
    cur = 0
    last_call, starter, last_into, ctxs = {}, {}, {}, {}
    prev = None
    for i, (op, o) in enumerate(zip(ops, out)):
        w = [x for x in op.split() if not x.startswith("@")]
        ev, ncur, cos = parse_state(o)
        kind = w[0]
        pcos = prev if prev is not None else {}
        if kind == "create":
            ctxs[int(w[1])] = int(w[2])
        switch_to = None
        if kind == "start":
            c = int(w[1])
            if ev != ["enter", str(c), str(ctxs.get(c, 0))]:
                return "op %d '%s': a started coroutine must enter its function with its own handle and context %s, log says '%s'" % (i, op, ctxs.get(c), " ".join(ev))
            if cos[c][2] != cur or cos[c][3] != cur or cos[c][0] != 1 or cos[c][1] != 0:
                return "op %d '%s': after start parent/caller must be the starter, status RUNNING, exit value cleared: %s" % (i, op, cos[c])
            starter[c] = cur
            last_call.pop(c, None)
            last_call[cur] = i
            last_into[c] = cur
            if ncur != c:
                return "op %d '%s': control must be in the started coroutine" % (i, op)
            cur = ncur
            prev = cos
            continue
        if kind in ("resume", "transfer"):
            switch_to, msg = int(w[1]), int(w[2])
        elif kind == "yield":
            switch_to, msg = last_into.get(cur), int(w[1])
            if switch_to is None:
                return "op %d: yield with no caller accepted" % i
        elif kind in ("exit", "ret") or (kind == "stop" and int(w[1]) == cur):
            msg = int(w[-1])
            switch_to = starter.get(cur)
            if cos[cur][0] != 2 or cos[cur][1] != msg:
                return "op %d '%s': exit value / FINISHED status not stored: %s" % (i, op, cos[cur])
        elif kind == "stop":
            c = int(w[1])
            if ev != ["none"] or ncur != cur or cos[c][0] != 2 or cos[c][1] != int(w[2]):
                return "op %d '%s': stopping another coroutine must only mark it FINISHED with the value" % (i, op)
        elif kind in ("reset", "create"):
            if ev != ["none"] or ncur != cur:
                return "op %d '%s': must not transfer control" % (i, op)
        if switch_to is not None:
            if switch_to == cur:
                at = i
            else:
                at = last_call.get(switch_to)
            exp = ["deliver", str(switch_to), str(msg), str(at)]
            if ev != exp or ncur != switch_to:
                return "op %d '%s' issued by %d: expected '%s' (target by the documented rule, value handed over, the call the target last gave up control in), log says '%s' cur=%d" % (i, op, cur, " ".join(exp), " ".join(ev), ncur)
            last_call[cur] = i
            last_call.pop(switch_to, None) if switch_to != cur else None
            last_into[switch_to] = cur
            cur = ncur
        prev = cos
    return None


# --------------------------------------------------------------------------------------------------------------
# running both sides
# --------------------------------------------------------------------------------------------------------------

def run_c(c_exe, lines, timeout=120):
    rc, o, e = vlib.run_driver(c_exe, "\n".join(lines) + "\n", timeout=timeout, args=["script"])
    out = o.splitlines()
    return rc, out, e


def run_model(lean_exe, lines, timeout=120):
    rc, o, e = vlib.run_driver(lean_exe, "\n".join(lines) + "\nend\n", timeout=timeout)
    return rc, [l for l in o.splitlines()], e


def compare_script(c_exe, lean_exe, lines, model_out=None):
    """None if implementation and model agree, else dict(index, op, impl, model, impl_out, impl_err, impl_rc)."""
    if model_out is None:
        _, mo, _ = run_model(lean_exe, lines)
        model_out = mo
    model_out = list(model_out)
    if not model_out or model_out[-1] != "end":
        model_out.append("end")
    rc, out, err = run_c(c_exe, lines)
    d = vlib.first_diff(out, model_out)
    if d is None and rc == 0:
        return None
    ops = [l for l in lines if not l.startswith("n ") and not l.startswith("#")]
    return {"index": d, "op": ops[d] if d is not None and d < len(ops) else None,
            "impl": out[d] if d is not None and d < len(out) else "<no output> rc=%d %s" % (rc, err[-800:]),
            "model": model_out[d] if d is not None and d < len(model_out) else "<no output>",
            "impl_out": out, "impl_err": err[-3000:], "impl_rc": rc}


def model_accepts(lean_exe, lines):
    rc, out, _ = run_model(lean_exe, lines)
    return rc == 0 and not any(l.startswith("fault") or l.startswith("bad") for l in out) and \
        (len(out) < 2 or " cur=0 " in out[-2])


def shrink(c_exe, lean_exe, lines, pred, budget=250):
    """delta-debug a script while `pred(lines)` stays true and the model accepts every operation"""
    cur = list(lines)
    chunk = max(1, (len(cur) - 1) // 2)
    tries = 0
    while chunk >= 1 and tries < budget:
        i, reduced = 1, False
        while i < len(cur) and tries < budget:
            cand = cur[:i] + cur[i + chunk:]
            tries += 1
            if len(cand) >= 2 and model_accepts(lean_exe, cand) and pred(cand):
                cur, reduced = cand, True
            else:
                i += chunk
        if not reduced:
            chunk //= 2
    return cur


def corpus_scripts():
    out = []
    if os.path.isdir(CORPUS):
        for f in sorted(os.listdir(CORPUS)):
            if f.endswith(".txt"):
                ls = [l.strip() for l in open(os.path.join(CORPUS, f)) if l.strip() and not l.startswith("#")]
                if ls and ls[0].startswith("n "):
                    out.append((f, ls))
    return out


def worker(args):
    seed, n, max_ops, c_exe, lean_exe = args
    rng = random.Random(seed)
    stats, bad = [], []
    for _ in range(n):
        lines, outs, st = gen_script(rng, lean_exe, max_ops)
        st["sig"] = hashlib.sha256("\n".join(lines).encode()).hexdigest()[:16]
        d = compare_script(c_exe, lean_exe, lines, outs)
        stats.append(st)
        if d is not None:
            bad.append((lines, d))
            if len(bad) >= 2:
                break
    return stats, bad


def run_generated(seed, total, max_ops, c_exe, lean_exe):
    import multiprocessing
    per = max(1, total // vlib.NPROC)
    jobs = [(seed * 1000003 + 17 * w, per, max_ops, c_exe, lean_exe) for w in range(vlib.NPROC)]
    with multiprocessing.Pool(vlib.NPROC) as pool:
        res = pool.map(worker, jobs)
    return [s for r in res for s in r[0]], [b for r in res for b in r[1]]


# --------------------------------------------------------------------------------------------------------------
# machine-level ties
# --------------------------------------------------------------------------------------------------------------

def kv(line):
    d = {}
    for tok in line.replace("|", " ").split():
        if "=" in tok:
            k, v = tok.split("=", 1)
            d[k] = v
    return d


def frame_check(c_exe, lean_exe):
    """-> (n compared, problems[], info)"""
    rc, o, e = vlib.run_driver(c_exe, "", args=["frame"])
    problems, n, info = [], 0, {}
    if rc != 0:
        return 0, ["ctxdrv frame failed rc=%d %s" % (rc, e[-1500:])], info
    m = Model(lean_exe)
    try:
        for line in o.splitlines():
            if not line.startswith("frame "):
                continue
            f = kv(line)
            words = line.split(" words ")[1].split()
            resp = m.ask("frame %s %s %s %s %s %s" % (f["tramp"], f["fn"], f["cp"], f["ctx"], f["exitf"], f["base"]))
            g = kv(resp)
            mw = resp.split(" words ")[1].split(" initFrame ")[0].split()
            mf = resp.split(" initFrame ")[1].split()
            n += 1
            info["aligned_stores"] = g.get("aligned")
            if words != mw:
                problems.append("frame image differs: impl %s vs model (regenerated stores) %s" % (words, mw))
            if words[1:] != mf:
                problems.append("frame image differs from initFrame: impl %s vs initFrame %s" % (words[1:], mf))
            if f["sp"] != g["sp"]:
                problems.append("stack_pointer differs: impl %s vs model %s" % (f["sp"], g["sp"]))
            if f["basealign"] != "0":
                problems.append("stack_base not 16-aligned: %s" % f["base"])
            if f["limit"] != "fa151f1ab1e":
                problems.append("stack_limit sentinel %s" % f["limit"])
            if not (int(f["stackend"], 16) - 16 < int(f["base"], 16) <= int(f["stackend"], 16)):
                problems.append("stack_base %s not within 16 bytes below the end of the allocation %s" % (f["base"], f["stackend"]))
            info["sample"] = line
    finally:
        m.close()
    return n, problems, info


def entry_check(c_exe, lean_exe):
    rc, o, e = vlib.run_driver(c_exe, "", args=["entry"])
    problems, n, sample = [], 0, None
    if rc != 0:
        return 0, ["ctxdrv entry failed rc=%d (the real first entry / return crashed): %s %s" % (rc, o[-300:], e[-1200:])], None
    m = Model(lean_exe)
    try:
        for line in o.splitlines():
            if not line.startswith("entry "):
                continue
            f = kv(line)
            resp = m.ask("entry %s %s %s %s %s %s" % (f["tramp"], f["fn"], f["cp"], f["ctx"], f["exitf"], f["base"]))
            g = kv(resp)
            n += 1
            sample = line
            for k in ("rsp", "rdi", "rsi", "mxcsr", "df", "ret", "rbp", "r15", "exit_rsp", "exit_rdi"):
                if f.get(k) != g.get(k):
                    problems.append("entry: %s on the CPU is %s, the machine model says %s" % (k, f.get(k), g.get(k)))
            # the claims themselves, on the real run
            tr, base, ctx = int(f["tramp"], 16), int(f["base"], 16), int(f["ctx"], 16)
            claims = [("rdi = coroutine pointer", f["rdi"] == f["cp"]), ("rsi = context", f["rsi"] == f["ctx"]),
                      ("rsp = 8 mod 16 at function entry", int(f["rsp"], 16) % 16 == 8),
                      ("MXCSR = 0x1d00", f["mxcsr"] == "1d00"), ("DF clear", f["df"] == "0"),
                      ("return address = trampoline + 12", int(f["ret"], 16) == tr + 12),
                      ("exit function entered with rsp = 8 mod 16", int(f["exit_rsp"], 16) % 16 == 8),
                      ("exit function gets the returned value", int(f["exit_rdi"], 16) == ctx + 1),
                      ("start returns the exit value to the starter", int(f["start_returned"], 16) == ctx + 1),
                      ("status FINISHED", f["status"] == "2"), ("exit value stored", int(f["exit_value"], 16) == ctx + 1)]
            for name, okk in claims:
                if not okk:
                    problems.append("entry: claim '%s' fails on the real run: %s" % (name, line))
    finally:
        m.close()
    return n, problems, sample


def regfiles(seed, n):
    rng = random.Random(seed * 7919 + 3)
    out = []
    specials = [0, 0xFFFFFFFFFFFFFFFF, 0x8000000000000000, 1]
    for i in range(n):
        regs = [rng.choice(specials) if rng.random() < 0.1 else rng.getrandbits(64) for _ in range(6)]
        mx = rng.getrandbits(16) & 0xFFC0
        fl = rng.getrandbits(12) & 0xCD5
        if i == 0:
            mx, fl = 0x1F80, 0
        if i == 1:
            mx, fl = 0xFFC0, 0xCD5
        out.append(regs + [mx, fl, rng.getrandbits(64), rng.getrandbits(64)])
    return out


def rt_line(rf):
    return " ".join("%x" % x for x in rf)


def model_rt(lean_exe, files):
    """-> list of (fields[11] as ints, flags dict) per register file, or None for a line the model could not do"""
    text = "".join("rt " + rt_line(rf) + "\n" for rf in files)
    rc, o, e = vlib.run_driver(lean_exe, text)
    res = []
    for line in o.splitlines():
        if not line.startswith("rt "):
            res.append(None)
            continue
        vals = [int(x, 16) for x in line.split(" | ")[0].split()[1:]]
        res.append((vals, kv(line)))
    return res


def cpu_rt(c_exe, files):
    text = "".join(rt_line(rf) + "\n" for rf in files)
    rc, o, e = vlib.run_driver(c_exe, text, args=["roundtrip"])
    res = []
    for line in o.splitlines():
        if line.startswith("rt "):
            vals = [int(x, 16) for x in line.split()[1:]]
            vals[7] &= USER_MASK
            vals[6] &= 0xFFC0
            res.append(vals)
    return rc, res, e


def expected_rt(rf):
    """what the PROPERTY demands of the double switch"""
    return rf[0:6] + [rf[6] & 0xFFC0, (rf[7] & 0xCD5), rf[9], rf[8], 0]


def first_unpreserved(rf, vals):
    exp = expected_rt(rf)
    for i in range(11):
        if vals[i] != exp[i]:
            return "%s: before the switch %x, after the round trip %x" % (REGS[i], exp[i], vals[i]) if i < 8 else \
                   "%s: expected %x, got %x" % (REGS[i], exp[i], vals[i])
    return None
