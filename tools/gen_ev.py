"""Script generator for the event-kernel correspondence (C01). Every op is self-guarding, so every script is valid."""
import random

I64MAX, I64MIN = 2 ** 63 - 1, -2 ** 63
NACT = 8
NVAR = 24


def gen_script(rng, size, profile=None):
    profile = profile or rng.choice(["ties", "mutate", "grow", "extreme", "pattern", "mixed", "inaction"])
    nvar = rng.choice([4, 8, NVAR])

    def t():
        r = rng.random()
        if profile == "ties":
            return rng.choice(["+0", "+0", "+1", "+1", "+2", "@%d" % rng.randint(-2, 6)])
        if profile == "extreme" and r < 0.3:
            return rng.choice(["@4503599627370496", "+1099511627776", "@4503599627370497", "+1", "+0"])
        if r < 0.15:
            return "@%d" % rng.randint(-5, 60)
        return "+%d" % rng.randint(0, 12 if profile != "grow" else 200)

    def p():
        if profile == "extreme":
            return rng.choice([0, 1, -1, I64MAX, I64MIN, I64MAX - 1, I64MIN + 1, 5])
        if profile == "ties":
            return rng.randint(-1, 1)
        return rng.randint(-5, 5)

    def word():
        return rng.randint(0, 2)

    def pat():
        return "*" if rng.random() < 0.5 else str(rng.randint(0, 2))

    def apat():
        return "*" if rng.random() < 0.5 else str(rng.randint(0, NACT - 1))

    def op(in_action):
        v = rng.randrange(nvar)
        w = {"ties": [40, 6, 10, 10, 4, 3, 3, 2, 2, 3, 0, 3, 2, 2],
             "mutate": [25, 15, 18, 18, 6, 4, 4, 2, 2, 3, 1, 2, 2, 2],
             "grow": [70, 3, 6, 6, 2, 1, 1, 1, 1, 1, 0, 2, 1, 1],
             "extreme": [35, 8, 14, 14, 4, 6, 6, 2, 2, 2, 0, 2, 2, 2],
             "pattern": [30, 4, 4, 4, 3, 2, 2, 14, 14, 12, 1, 3, 1, 1],
             "mixed": [30, 8, 8, 8, 5, 4, 4, 4, 4, 3, 1, 3, 2, 2],
             "inaction": [30, 10, 12, 12, 5, 4, 4, 3, 3, 4, 1, 3, 4, 3]}[profile]
        kinds = ["sched", "cancel", "resched", "reprio", "issched", "time", "prio", "pfind", "pcount", "pcancel", "clear",
                 "count", "cur", "now"]
        k = rng.choices(kinds, w)[0]
        if k == "sched":
            return "sched %d %d %d %d %s %d" % (v, rng.randrange(NACT), word(), word(), t(), p())
        if k in ("cancel", "issched", "time", "prio"):
            return "%s %d" % (k, v)
        if k == "resched":
            return "resched %d %s" % (v, t())
        if k == "reprio":
            return "reprio %d %d" % (v, p())
        if k in ("pfind", "pcount", "pcancel"):
            return "%s %s %s %s" % (k, apat(), pat(), pat())
        return k

    out = []
    start = rng.choice([0, 0, 0, -7, 100, -1000000])
    out.append("start %d" % start)
    heavy = profile in ("inaction", "mutate", "mixed")
    for a in range(NACT):
        n = rng.randint(0, 6 if heavy else 2)
        if profile == "grow":
            n = rng.randint(0, 1)
        body = [op(True) for _ in range(n)]
        out.append("act %d %d" % (a, len(body)))
        out += body
    main = []
    for _ in range(size):
        r = rng.random()
        if r < 0.12:
            main.append("next")
        elif r < 0.14:
            main.append("run")
        else:
            main.append(op(False))
    main.append("run")
    main += ["count", "cur", "now"]
    out.append("main %d" % len(main))
    out += main
    return out, {"profile": profile, "ops": len(out), "start": start}
