#!/usr/bin/env python3
"""Run the registered checks against the seeded changes under /verif/seeded/<id>/ (patch.diff, demo, meta.json).

For each change: a scratch git worktree of /repo HEAD outside /repo and /verif, `git apply patch.diff`, then
`VERIF_REPO=<worktree> ./check <property> --tier quick` (evidence redirected to a scratch directory so the committed
evidence is untouched) for the property it breaks and for the related checks given on the command line; the worktree
and its build output are removed afterwards. Writes seeded/<id>/result.json and prints a table.

usage: tools/seedtest.py [id ...] [--also C10,C02]
"""
import json
import os
import re
import shutil
import subprocess
import sys
import tempfile

VERIF = os.path.dirname(os.path.dirname(os.path.abspath(__file__)))
SEEDED = os.path.join(VERIF, "seeded")


def run_one(sid, also=()):
    d = os.path.join(SEEDED, sid)
    meta = json.load(open(os.path.join(d, "meta.json")))
    prop = meta["property"]
    wt = tempfile.mkdtemp(prefix="seed-%s-" % sid, dir="/tmp")
    os.rmdir(wt)
    subprocess.check_call(["git", "-C", "/repo", "worktree", "add", "-q", "--detach", wt, "HEAD"])
    res = {"id": sid, "property": prop, "checks": {}}
    try:
        subprocess.check_call(["git", "-C", wt, "apply", os.path.join(d, "patch.diff")])
        evdir = tempfile.mkdtemp(prefix="seed-ev-", dir="/tmp")
        for p in [prop] + [a for a in also if a != prop]:
            env = dict(os.environ, VERIF_REPO=wt, VERIF_EVIDENCE_DIR=evdir, VERIF_SEED=os.environ.get("VERIF_SEED", "1"))
            r = subprocess.run([os.path.join(VERIF, "check"), p, "--tier", "quick"], cwd=VERIF, env=env,
                               stdout=subprocess.PIPE, stderr=subprocess.STDOUT, timeout=3600)
            out = r.stdout.decode("utf-8", "replace")
            viol = [l for l in out.splitlines() if l.startswith("VIOLATION")]
            why = [l for l in out.splitlines() if "  ^ " in l]
            res["checks"][p] = {"exit": r.returncode, "violations": len(viol),
                                "found_input": any("no-failing-input-found" not in l for l in viol),
                                "first": (why[0].split("  ^ ", 1)[1][:300] if why else "")}
        shutil.rmtree(evdir, ignore_errors=True)
    finally:
        subprocess.call(["git", "-C", "/repo", "worktree", "remove", "--force", wt])
        # drop the scratch builds keyed by the mutant's tree hash (stale builds are replaced on the next build anyway)
    json.dump(res, open(os.path.join(d, "result.json"), "w"), indent=1)
    return res


def main():
    args = [a for a in sys.argv[1:] if not a.startswith("--")]
    also = []
    for a in sys.argv[1:]:
        if a.startswith("--also"):
            also = a.split("=", 1)[1].split(",") if "=" in a else []
    ids = args or sorted(os.listdir(SEEDED))
    for sid in ids:
        if not os.path.exists(os.path.join(SEEDED, sid, "patch.diff")):
            continue
        r = run_one(sid, also)
        for p, c in r["checks"].items():
            print("%-10s %-4s exit=%d %s %s" % (sid, p, c["exit"], "FOUND-INPUT" if c["found_input"] else ("no-input" if c["violations"] else "MISSED"),
                                              c["first"][:160]))
    # restore Generated/ and builds for the real tree
    subprocess.call([sys.executable, os.path.join(VERIF, "tools", "setup_all.py")], stdout=subprocess.DEVNULL)


if __name__ == "__main__":
    main()
