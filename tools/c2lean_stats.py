"""T-gen for the statistics code: a second C-subset translator (clang JSON AST -> Lean 4), built next to tools/c2lean.py
(whose helpers it reuses; gen_orders.py keeps using c2lean.Translator unchanged).

What is new compared with c2lean.Translator:

  * C structs become Lean structures generated from the RecordDecl (field for field, nested structs allowed);
    struct-typed locals, `{0}` initialisers, whole-struct assignment (`*tgt = cs`, `cs = *dsp2`), struct return values;
  * pointers are *places* (root variable + field path): pointer parameters, `&local`, `&p->f`, pointer locals initialised
    from one of these, and the "parent class" cast `(struct B *)p` which is accepted only when B is the type of the FIRST
    member of *p's struct (it then denotes that member);
  * `double` is an abstract linearly ordered field K; floating literals become exact rationals, DBL_MAX becomes the ambient
    parameter `dblMax`, calls of libm `sqrt`/`pow` become the ambient parameters `sqrt`/`pow` (abstract functions);
    `uint64_t` is ℕ (`a - b` produces the obligation `b ≤ a`; sums of counts are assumed not to wrap; a PRODUCT of
    two unsigned values is reduced mod 2^64 as in C);
  * every function f is emitted twice, from one walk over the AST, in C evaluation order:
        f      : the value (the updated pointees after the C return value), with Lean's total `/`;
        f_dom  : a decidable Prop that says the C call is *defined and does not abort* on that path:
                 every `cmb_assert_release`/`cmb_assert_debug` condition that is still in the preprocessed source holds
                 (pointer non-NULL tests are dropped: pointers are valid places by construction), no division by zero,
                 no unsigned wrap-around, and the `_dom` of every callee.
    Theorems about f are stated together with f_dom, so that Lean's `x / 0 = 0` can never hide an IEEE 0/0.
  * aliasing: the model passes pointees by value.  That is only sound if the function does not read through one pointer
    parameter after it has written through another one that may alias it; the translator checks exactly that and raises
    Untranslatable otherwise ("merge into either operand" rests on this check).

Anything outside the subset raises c2lean.Untranslatable (a broken tie), never a silent skip.
"""
import re
import sys
from fractions import Fraction

from c2lean import Untranslatable, qt, norm_type, ind

DBL_MAX = Fraction(sys.float_info.max)

NAT_TYPES = {"uint64_t", "unsigned long", "unsigned int", "unsigned long long", "size_t"}
FIELD_TYPES = {"double"}
INT_TYPES = {"int", "long"}
AMBIENT = [("dblMax", "K"), ("sqrt", "K → K"), ("pow", "K → K → K")]
AMBIENT_FUNCS = {"sqrt": 1, "pow": 2}


def paren(x):
    return x if re.fullmatch(r"[A-Za-z_][A-Za-z0-9_.]*", x) else "(%s)" % x


def strip(n):
    """look through parentheses and value-preserving casts"""
    while True:
        k = n.get("kind")
        if k in ("ParenExpr", "ConstantExpr"):
            n = n["inner"][0]
        elif k in ("ImplicitCastExpr", "CStyleCastExpr") and n.get("castKind") in ("LValueToRValue", "NoOp"):
            n = n["inner"][0]
        else:
            return n


def children(n):
    return [c for c in n.get("inner", []) if not c.get("kind", "").endswith("Comment")]


def struct_name(ctype):
    """'const struct foo *' -> ('foo', True) ; 'struct foo' -> ('foo', False); else None"""
    t = norm_type(ctype)
    ptr = t.endswith("*")
    if ptr:
        t = t[:-1].strip()
    if t.startswith("struct "):
        return t[7:].strip(), ptr
    return None


class Records:
    """Lean structures generated from C RecordDecls."""

    def __init__(self, lean_names):
        self.lean_names = lean_names  # C struct name -> Lean structure name
        self.fields = {}              # C struct name -> [(field, ('field'|'nat'|('struct', name)))]

    def add(self, decl):
        name = decl.get("name")
        if name not in self.lean_names:
            raise Untranslatable("struct %s has no Lean name assigned" % name)
        fs = []
        for c in children(decl):
            if c.get("kind") != "FieldDecl":
                raise Untranslatable("struct %s: member kind %s" % (name, c.get("kind")))
            t = norm_type(qt(c))
            q = norm_type(c.get("type", {}).get("qualType", ""))
            if t in FIELD_TYPES or q in FIELD_TYPES:
                rep = "field"
            elif t in NAT_TYPES or q in NAT_TYPES:
                rep = "nat"
            elif struct_name(t) and not struct_name(t)[1]:
                sn = struct_name(t)[0]
                if sn not in self.fields:
                    raise Untranslatable("struct %s: member %s of unknown struct type %s" % (name, c["name"], sn))
                rep = ("struct", sn)
            else:
                raise Untranslatable("struct %s: member %s of unsupported type %s" % (name, c["name"], t))
            fs.append((c["name"], rep))
        if not fs:
            raise Untranslatable("struct %s has no fields (forward declaration?)" % name)
        self.fields[name] = fs

    def rep_of(self, sname, f):
        for g, r in self.fields[sname]:
            if g == f:
                return r
        raise Untranslatable("struct %s has no field %s" % (sname, f))

    def lean_type(self, rep):
        if rep == "field":
            return "K"
        if rep == "nat":
            return "ℕ"
        return "%s K" % self.lean_names[rep[1]]

    def zero(self, sname):
        parts = []
        for f, r in self.fields[sname]:
            parts.append("%s := %s" % (f, "0" if r in ("field", "nat") else self.zero(r[1])))
        return "({ %s } : %s K)" % (", ".join(parts), self.lean_names[sname])

    def lean_decls(self):
        out = []
        for sname, fs in self.fields.items():
            out.append("/-- C `struct %s`, field for field -/" % sname)
            out.append("structure %s (K : Type) where" % self.lean_names[sname])
            for f, r in fs:
                out.append("  %s : %s" % (f, self.lean_type(r)))
            out.append("")
        return "\n".join(out)


# IR: ('let', name, expr, rest) | ('obl', prop, rest) | ('if', cond, a, b) | ('ret', expr)

def render(node, dom):
    k = node[0]
    if k == "let":
        return "let %s := %s\n%s" % (node[1], node[2], render(node[3], dom))
    if k == "obl":
        if not dom:
            return render(node[2], dom)
        return "(%s) ∧ (\n%s)" % (node[1], render(node[2], dom))
    if k == "if":
        return "if %s then\n%s\nelse\n%s" % (node[1], ind(render(node[2], dom)), ind(render(node[3], dom)))
    if k == "ret":
        return "True" if dom else node[1]
    raise AssertionError(k)


class Env:
    def __init__(self):
        self.vars = {}          # C name -> ('scalar', lean, rep) | ('struct', lean, sname) | ('ptr', root, path, sname)
        self.param_roots = {}   # lean root name -> sname, for pointer parameters
        self.written = frozenset()
        self.undef = frozenset()  # scalar locals declared without a value and not yet definitely assigned

    def copy(self):
        e = Env()
        e.vars = dict(self.vars)
        e.param_roots = self.param_roots
        e.written = self.written
        e.undef = self.undef
        return e


class StructTranslator:
    def __init__(self, records, funcs=None):
        self.rec = records
        self.funcs = funcs if funcs is not None else {}   # C name -> dict(lean, params=[(kind, ...)], ambient, ret, written)
        self.resolver = None  # callback(name): translate a callee on demand
        self.assumed = []   # dropped pointer-validity asserts etc. (reported in the evidence)

    # ---- type helpers --------------------------------------------------
    def rep(self, n):
        t = n.get("type", {})
        for cand in (t.get("qualType"), t.get("desugaredQualType")):
            if not cand:
                continue
            c = norm_type(cand)
            if c in FIELD_TYPES:
                return "field"
            if c in NAT_TYPES:
                return "nat"
            if c in INT_TYPES:
                return "int"
            if c in ("_Bool", "bool"):
                return "bool"
        sn = struct_name(qt(n))
        if sn:
            return ("ptr", sn[0]) if sn[1] else ("struct", sn[0])
        raise Untranslatable("no representation for C type '%s'" % qt(n))

    def contains(self, outer, inner):
        """struct `outer` is or (transitively, at any position) contains struct `inner`"""
        if outer == inner:
            return True
        return any(isinstance(r, tuple) and self.contains(r[1], inner) for _, r in self.rec.fields.get(outer, []))

    # ---- places --------------------------------------------------------
    def ptr_place(self, n, env):
        """pointer-valued expression -> (root, path, sname)"""
        n = strip(n)
        k = n.get("kind")
        if k == "DeclRefExpr":
            b = env.vars.get(n["referencedDecl"]["name"])
            if b and b[0] == "ptr":
                return b[1], list(b[2]), b[3]
            raise Untranslatable("pointer variable %s is not a known place" % n["referencedDecl"]["name"])
        if k == "UnaryOperator" and n["opcode"] == "&":
            root, path, r = self.lvalue(n["inner"][0], env)
            if not (isinstance(r, tuple) and r[0] == "struct"):
                raise Untranslatable("address of a non-struct object")
            return root, path, r[1]
        if k in ("CStyleCastExpr", "ImplicitCastExpr") and n.get("castKind") == "BitCast":
            root, path, sn = self.ptr_place(n["inner"][0], env)
            tgt = struct_name(qt(n))
            if not tgt or not tgt[1]:
                raise Untranslatable("pointer cast to %s" % qt(n))
            if tgt[0] == sn:
                return root, path, sn
            first = self.rec.fields[sn][0]
            if first[1] == ("struct", tgt[0]):
                return root, path + [first[0]], tgt[0]
            raise Untranslatable("cast from struct %s * to struct %s *: target is not the type of the first member" % (sn, tgt[0]))
        raise Untranslatable("pointer expression kind %s" % k)

    def lvalue(self, n, env):
        """lvalue expression -> (root, path, rep)"""
        n0 = n
        while n0.get("kind") == "ParenExpr":
            n0 = n0["inner"][0]
        k = n0.get("kind")
        if k == "DeclRefExpr":
            b = env.vars.get(n0["referencedDecl"]["name"])
            if b is None:
                raise Untranslatable("unknown name %s" % n0["referencedDecl"]["name"])
            if b[0] == "scalar":
                return b[1], [], b[2]
            if b[0] == "struct":
                return b[1], [], ("struct", b[2])
            raise Untranslatable("pointer variable %s used as an object" % n0["referencedDecl"]["name"])
        if k == "MemberExpr":
            base = n0["inner"][0]
            if n0.get("isArrow"):
                root, path, sn = self.ptr_place(base, env)
            else:
                root, path, r = self.lvalue(base, env)
                if not (isinstance(r, tuple) and r[0] == "struct"):
                    raise Untranslatable("member of a non-struct")
                sn = r[1]
            f = n0["name"]
            return root, path + [f], self.rec.rep_of(sn, f)
        if k == "UnaryOperator" and n0["opcode"] == "*":
            root, path, sn = self.ptr_place(n0["inner"][0], env)
            return root, path, ("struct", sn)
        raise Untranslatable("lvalue kind %s" % k)

    def read(self, place, env, dead_ok=False):
        root, path, _ = place
        if root in env.undef:
            if dead_ok:
                # old value of a local without initialiser inside a conditional store: never observable, because the
                # local stays "undefined" (reads are rejected) until it has been stored to on every path
                return "0"
            raise Untranslatable("local %s is read before it is definitely assigned" % root)
        if root in env.param_roots:
            for w in env.written:
                if w != root and (self.contains(env.param_roots[w], env.param_roots[root]) or
                                  self.contains(env.param_roots[root], env.param_roots[w])):
                    raise Untranslatable("read through pointer parameter %s after a write through %s: they may alias, "
                                         "the by-value model would be unsound" % (root, w))
        return ".".join([root] + path)

    def write(self, place, val, env):
        """returns (let-name, let-expr, new env)"""
        root, path, _ = place
        e2 = env
        if root in env.param_roots:
            for w in env.written:
                if w != root and (self.contains(env.param_roots[w], env.param_roots[root]) or
                                  self.contains(env.param_roots[root], env.param_roots[w])):
                    raise Untranslatable("write through pointer parameter %s after a write through %s (may alias)" % (root, w))
            e2 = env.copy()
            e2.written = env.written | {root}
        if root in env.undef and not path and not getattr(self, "_cond_store", False):
            e2 = e2.copy()
            e2.undef = e2.undef - {root}

        def upd(prefix, p):
            if not p:
                return val
            cur = ".".join(prefix)
            return "{ %s with %s := %s }" % (cur, p[0], upd(prefix + [p[0]], p[1:]))
        return root, upd([root], path), e2

    # ---- expressions ---------------------------------------------------
    def literal_field(self, v, amb):
        try:
            fr = Fraction(float(v))
        except Exception:
            raise Untranslatable("floating literal %s" % v)
        if fr == DBL_MAX:
            amb.add("dblMax")
            return "dblMax"
        if fr.denominator == 1:
            if fr.numerator > 2 ** 64:
                raise Untranslatable("huge floating literal %s" % v)
            return "(%d : K)" % fr.numerator
        # every finite double is a dyadic rational; DBL_EPSILON = 1/2^52, DBL_MIN = 1/2^1022 etc. are written out exactly
        if abs(fr.numerator) > 2 ** 64:
            raise Untranslatable("floating literal %s is not a small dyadic rational" % v)
        return "((%d : K) / %d)" % (fr.numerator, fr.denominator)

    def expr(self, n, env, pre, amb, pure=False):
        """scalar or struct rvalue -> Lean term.  `pre`: list of ('let', name, e) / ('obl', p) items to be placed before
        the enclosing statement; side effects (++x inside an expression) may replace env: returned as second component."""
        k = n.get("kind")
        if k in ("ParenExpr", "ConstantExpr"):
            return self.expr(n["inner"][0], env, pre, amb, pure)
        if k in ("ImplicitCastExpr", "CStyleCastExpr"):
            ck = n.get("castKind")
            inner = n["inner"][0]
            if ck == "LValueToRValue":
                return self.read(self.lvalue(inner, env[0]), env[0])
            if ck == "NoOp":
                return self.expr(inner, env, pre, amb, pure)
            if ck == "IntegralToFloating":
                r = self.rep(inner)
                e = self.expr(inner, env, pre, amb, pure)
                if r == "nat":
                    return "((%s : ℕ) : K)" % e
                if r == "int" and strip(inner).get("kind") == "IntegerLiteral":
                    return "(%s : K)" % e
                raise Untranslatable("conversion to double from representation %s" % (r,))
            if ck == "IntegralCast":
                src, dst = self.rep(inner), self.rep(n)
                e = self.expr(inner, env, pre, amb, pure)
                if src == dst:
                    return e
                if dst == "nat" and src == "int" and strip(inner).get("kind") == "IntegerLiteral" and int(strip(inner)["value"]) >= 0:
                    return e
                raise Untranslatable("integral cast %s -> %s" % (src, dst))
            if ck == "FloatingCast" and self.rep(inner) == "field" and self.rep(n) == "field":
                return self.expr(inner, env, pre, amb, pure)
            raise Untranslatable("cast kind %s" % ck)
        if k == "IntegerLiteral":
            return "%d" % int(n["value"])
        if k == "FloatingLiteral":
            return self.literal_field(n["value"], amb)
        if k in ("DeclRefExpr", "MemberExpr") or (k == "UnaryOperator" and n["opcode"] == "*"):
            # struct rvalue used directly (e.g. `cs` in `*tgt = cs`)
            return self.read(self.lvalue(n, env[0]), env[0])
        if k == "UnaryOperator":
            op = n["opcode"]
            a = n["inner"][0]
            if op == "-":
                if self.rep(n) != "field":
                    raise Untranslatable("unary minus at representation %s" % (self.rep(n),))
                return "(-%s)" % self.expr(a, env, pre, amb, pure)
            if op == "+":
                return self.expr(a, env, pre, amb, pure)
            if op in ("++", "--") and not n.get("isPostfix"):
                if pure:
                    raise Untranslatable("side effect inside a conditional operand")
                self.incdec(a, op, env, pre, amb)
                return self.read(self.lvalue(a, env[0]), env[0])
            raise Untranslatable("unary operator %s in an expression" % op)
        if k == "BinaryOperator":
            op = n["opcode"]
            a, b = n["inner"]
            r = self.rep(n)
            if op in ("+", "-", "*", "/") and r in ("field", "nat"):
                if self.rep(a) != r or self.rep(b) != r:
                    raise Untranslatable("mixed representations in %s" % op)
                ea = self.expr(a, env, pre, amb, pure)
                eb = self.expr(b, env, pre, amb, pure)
                if op == "/":
                    if r != "field":
                        raise Untranslatable("integer division")
                    pre.append(("obl", "%s ≠ 0" % eb))
                if op == "-" and r == "nat":
                    pre.append(("obl", "%s ≤ %s" % (eb, ea)))
                if op == "*" and r == "nat":
                    # a product of two 64-bit counts is not covered by the standing assumption on the counts (sums of
                    # counts stay below 2^64, see notes/C17.md): C's wrap-around is modelled as it is
                    return "((%s * %s) %% 18446744073709551616)" % (ea, eb)
                return "(%s %s %s)" % (ea, op, eb)
            raise Untranslatable("binary operator %s at representation %s in a value position" % (op, r))
        if k == "ConditionalOperator":
            c, a, b = n["inner"]
            ce = self.cond(c, env, pre, amb, pure)
            pa, pb = [], []
            ea = self.expr(a, env, pa, amb, True)
            eb = self.expr(b, env, pb, amb, True)
            for item in pa:
                pre.append(("obl", "%s → %s" % (ce, item[1])))
            for item in pb:
                pre.append(("obl", "¬ %s → %s" % (ce, item[1])))
            return "(if %s then %s else %s)" % (ce, ea, eb)
        if k == "CallExpr":
            return self.call(n, env, pre, amb, pure, as_stmt=False)
        raise Untranslatable("expression kind %s" % k)

    def cond(self, n, env, pre, amb, pure=False):
        """C condition -> Lean Prop"""
        m = n
        while m.get("kind") == "ParenExpr" or (m.get("kind") == "ImplicitCastExpr" and m.get("castKind") in ("IntegralCast", "IntegralToBoolean", "NoOp")
                                                and self.is_cmp(m["inner"][0])):
            m = m["inner"][0]
        if m.get("kind") == "BinaryOperator":
            op = m["opcode"]
            a, b = m["inner"]
            if op in ("<", ">", "<=", ">=", "==", "!="):
                ra, rb = self.rep(a), self.rep(b)
                if ra != rb or ra not in ("field", "nat"):
                    raise Untranslatable("comparison between representations %s and %s" % (ra, rb))
                lop = {"<": "<", ">": ">", "<=": "≤", ">=": "≥", "==": "=", "!=": "≠"}[op]
                return "(%s %s %s)" % (self.expr(a, env, pre, amb, pure), lop, self.expr(b, env, pre, amb, pure))
            if op in ("&&", "||"):
                pa, pb = [], []
                ca = self.cond(a, env, pa, amb, True)
                cb = self.cond(b, env, pb, amb, True)
                pre.extend(pa)
                for item in pb:
                    pre.append(("obl", ("%s → %s" if op == "&&" else "¬ %s → %s") % (ca, item[1])))
                return "(%s %s %s)" % (ca, "∧" if op == "&&" else "∨", cb)
        if m.get("kind") == "UnaryOperator" and m["opcode"] == "!":
            return "(¬ %s)" % self.cond(m["inner"][0], env, pre, amb, pure)
        r = self.rep(m)
        if r in ("field", "nat"):
            return "(%s ≠ 0)" % self.expr(m, env, pre, amb, pure)
        raise Untranslatable("condition of kind %s" % m.get("kind"))

    def is_cmp(self, n):
        while n.get("kind") == "ParenExpr":
            n = n["inner"][0]
        return (n.get("kind") == "BinaryOperator" and n["opcode"] in ("<", ">", "<=", ">=", "==", "!=", "&&", "||")) or \
               (n.get("kind") == "UnaryOperator" and n["opcode"] == "!")

    def incdec(self, lv, op, env, pre, amb):
        place = self.lvalue(lv, env[0])
        if place[2] != "nat":
            raise Untranslatable("++/-- on representation %s" % (place[2],))
        cur = self.read(place, env[0])
        if op == "--":
            pre.append(("obl", "1 ≤ %s" % cur))
        name, val, e2 = self.write(place, "(%s %s 1)" % (cur, "+" if op == "++" else "-"), env[0])
        pre.append(("let", name, val))
        env[0] = e2

    def call(self, n, env, pre, amb, pure, as_stmt):
        callee = strip(n["inner"][0])
        while callee.get("kind") == "ImplicitCastExpr":
            callee = strip(callee["inner"][0])
        name = callee.get("referencedDecl", {}).get("name")
        args = n["inner"][1:]
        if name in AMBIENT_FUNCS and name not in self.funcs:
            if len(args) != AMBIENT_FUNCS[name]:
                raise Untranslatable("call of %s with %d arguments" % (name, len(args)))
            amb.add(name)
            return "(%s %s)" % (name, " ".join(self.expr(a, env, pre, amb, pure) for a in args))
        f = self.funcs.get(name)
        if f is None and self.resolver is not None:
            self.resolver(name)          # translate the callee first (raises Untranslatable if it has no body here)
            f = self.funcs.get(name)
        if f is None:
            raise Untranslatable("call to untranslated function %s" % name)
        amb.update(f["ambient"])
        largs, wplaces = [], []
        for (pk, pinfo), a in zip(f["params"], args):
            if pk == "ptr":
                pl = self.ptr_place(a, env[0])
                if pl[2] != pinfo["sname"]:
                    raise Untranslatable("argument of %s: struct %s passed for struct %s" % (name, pl[2], pinfo["sname"]))
                largs.append(self.read((pl[0], pl[1], None), env[0]))
                if pinfo["written"]:
                    wplaces.append(pl)
            else:
                largs.append(self.expr(a, env, pre, amb, pure))
        amb_args = [a for a, _ in AMBIENT if a in f["ambient"]]
        argtxt = " ".join(amb_args + [paren(x) for x in largs])
        app = "%s %s" % (f["lean"], argtxt)
        pre.append(("obl", "%s_dom %s" % (f["lean"], argtxt)))
        if wplaces:
            if not as_stmt or pure:
                raise Untranslatable("call of %s (which writes through a pointer argument) inside an expression" % name)
            if len(set(p[0] for p in wplaces)) != len(wplaces):
                raise Untranslatable("call of %s with two written arguments rooted in the same object" % name)
            # result tuple: (ret?, written params in order)
            nres = (1 if f["ret"] else 0) + len(wplaces)
            tmp = "_r"
            pre.append(("let", tmp, "(%s)" % app))
            for i, pl in enumerate(wplaces):
                idx = (1 if f["ret"] else 0) + i
                proj = tmp if nres == 1 else tmp + self.proj(idx, nres)
                nm, val, e2 = self.write((pl[0], pl[1], None), proj, env[0])
                pre.append(("let", nm, val))
                env[0] = e2
            return (tmp + self.proj(0, nres)) if f["ret"] else None
        return "(%s)" % app

    @staticmethod
    def proj(i, n):
        # component i of a right-nested n-tuple
        s = ".2" * i
        return s + (".1" if i < n - 1 else "")

    # ---- statements ----------------------------------------------------
    def is_noop(self, s):
        k = s.get("kind")
        if k == "NullStmt":
            return True
        if k == "DoStmt":
            body, c = s["inner"][0], s["inner"][1]
            if strip(c).get("kind") == "IntegerLiteral" and strip(c).get("value") == "0":
                return all(x.get("kind") == "CStyleCastExpr" and x.get("castKind") == "ToVoid" for x in children(body))
        m = s
        while m.get("kind") == "ParenExpr":
            m = m["inner"][0]
        if m.get("kind") == "CStyleCastExpr" and m.get("castKind") == "ToVoid":
            inner = strip(m["inner"][0])
            return inner.get("kind") in ("DeclRefExpr", "IntegerLiteral")
        return False

    def as_assert(self, s):
        """((cond) ? (void)0 : cmi_assert_failed(...))  ->  cond node, else None"""
        m = s
        while m.get("kind") == "ParenExpr":
            m = m["inner"][0]
        if m.get("kind") != "ConditionalOperator":
            return None
        c, a, b = m["inner"]
        bb = b
        while bb.get("kind") == "ParenExpr":
            bb = bb["inner"][0]
        if bb.get("kind") != "CallExpr":
            return None
        cal = strip(bb["inner"][0])
        while cal.get("kind") == "ImplicitCastExpr":
            cal = strip(cal["inner"][0])
        if cal.get("referencedDecl", {}).get("name") != "cmi_assert_failed":
            return None
        aa = a
        while aa.get("kind") == "ParenExpr":
            aa = aa["inner"][0]
        if not (aa.get("kind") == "CStyleCastExpr" and aa.get("castKind") == "ToVoid"):
            return None
        return c

    def is_null_test(self, c):
        m = c
        while m.get("kind") == "ParenExpr":
            m = m["inner"][0]
        if m.get("kind") == "BinaryOperator" and m["opcode"] in ("!=", "=="):
            for side in m["inner"]:
                t = qt(side)
                if t.strip().endswith("*"):
                    return True
        return False

    def flush(self, pre, rest_node):
        for item in reversed(pre):
            if item[0] == "let":
                rest_node = ("let", item[1], item[2], rest_node)
            else:
                rest_node = ("obl", item[1], rest_node)
        return rest_node

    def stmts(self, ss, env, fctx, depth=0):
        if depth > 300:
            raise Untranslatable("statement nesting too deep")
        if not ss:
            return self.ret(None, env, fctx)
        s, rest = ss[0], ss[1:]
        k = s.get("kind")
        amb = fctx["ambient"]
        if self.is_noop(s):
            return self.stmts(rest, env, fctx, depth)
        c = self.as_assert(s)
        if c is not None:
            if self.is_null_test(c):
                self.assumed.append("%s: pointer validity assert dropped (pointers are places in the model)" % fctx["name"])
                return self.stmts(rest, env, fctx, depth)
            pre = []
            e = [env]
            prop = self.cond(c, e, pre, amb, True)
            return self.flush(pre, ("obl", prop, self.stmts(rest, env, fctx, depth)))
        if k == "CompoundStmt":
            return self.stmts(children(s) + rest, env, fctx, depth + 1)
        if k == "ReturnStmt":
            inner = children(s)
            return self.ret(inner[0] if inner else None, env, fctx)
        if k == "DeclStmt":
            pre = []
            e = [env]
            for v in children(s):
                if v.get("kind") != "VarDecl":
                    raise Untranslatable("declaration kind %s" % v.get("kind"))
                name = v["name"]
                if name in e[0].vars:
                    raise Untranslatable("local %s shadows another name" % name)
                init = children(v)
                r = self.rep(v)
                if isinstance(r, tuple) and r[0] == "ptr":
                    if not init:
                        raise Untranslatable("uninitialised pointer local %s" % name)
                    root, path, sn = self.ptr_place(init[0], e[0])
                    if sn != r[1]:
                        raise Untranslatable("pointer local %s: struct %s vs %s" % (name, sn, r[1]))
                    e2 = e[0].copy()
                    e2.vars[name] = ("ptr", root, path, sn)
                    e[0] = e2
                    continue
                if not init and r in ("field", "nat"):
                    # declared without a value: usable once it has been assigned on every path (checked at reads)
                    e2 = e[0].copy()
                    e2.vars[name] = ("scalar", name, r)
                    e2.undef = e2.undef | {name}
                    e[0] = e2
                    continue
                if not init:
                    raise Untranslatable("uninitialised local %s" % name)
                if isinstance(r, tuple) and r[0] == "struct":
                    if init[0].get("kind") == "InitListExpr":
                        self.check_zero_init(init[0])
                        val = self.rec.zero(r[1])
                    else:
                        val = self.expr(init[0], e, pre, amb)
                    e2 = e[0].copy()
                    e2.vars[name] = ("struct", name, r[1])
                    e[0] = e2
                    pre.append(("let", name, val))
                    continue
                if r not in ("field", "nat"):
                    raise Untranslatable("local %s of representation %s" % (name, r))
                val = self.expr(init[0], e, pre, amb)
                e2 = e[0].copy()
                e2.vars[name] = ("scalar", name, r)
                e[0] = e2
                pre.append(("let", name, "(%s : %s)" % (val, "K" if r == "field" else "ℕ")))
            return self.flush(pre, self.stmts(rest, e[0], fctx, depth))
        if k == "IfStmt":
            parts = children(s)
            pre = []
            e = [env]
            c = self.cond(parts[0], e, pre, amb, True)
            then = [parts[1]]
            els = [parts[2]] if s.get("hasElse") else []
            joined = self.join_if(c, then, els, env, amb, fctx)
            if joined is not None:
                # `if (c) p = e;` is the same store as `p = c ? e : p;` — emitted in that form, the continuation once
                return self.flush(pre + joined[0], self.stmts(rest, joined[1], fctx, depth))
            t = self.stmts(then + rest, env, fctx, depth + 1)
            f = self.stmts(els + rest, env, fctx, depth + 1)
            return self.flush(pre, ("if", c, t, f))
        if k == "BinaryOperator" and s["opcode"] == "=":
            lhs, rhs = s["inner"]
            pre = []
            e = [env]
            val = self.expr(rhs, e, pre, amb)
            place = self.lvalue(lhs, e[0])
            if place[2] not in ("field", "nat") and not (isinstance(place[2], tuple) and place[2][0] == "struct"):
                raise Untranslatable("assignment at representation %s" % (place[2],))
            name, v, e2 = self.write(place, val, e[0])
            pre.append(("let", name, v))
            return self.flush(pre, self.stmts(rest, e2, fctx, depth))
        if k == "CompoundAssignOperator":
            lhs, rhs = s["inner"]
            op = s["opcode"][:-1]
            pre = []
            e = [env]
            place = self.lvalue(lhs, e[0])
            r = place[2]
            if r not in ("field", "nat") or op not in ("+", "-", "*", "/") or self.rep(rhs) != r:
                raise Untranslatable("compound assignment %s at representation %s" % (s["opcode"], r))
            eb = self.expr(rhs, e, pre, amb)
            cur = self.read(place, e[0])
            if op == "/":
                if r != "field":
                    raise Untranslatable("integer division")
                pre.append(("obl", "%s ≠ 0" % eb))
            if op == "-" and r == "nat":
                pre.append(("obl", "%s ≤ %s" % (eb, cur)))
            name, v, e2 = self.write(place, "(%s %s %s)" % (cur, op, eb), e[0])
            pre.append(("let", name, v))
            return self.flush(pre, self.stmts(rest, e2, fctx, depth))
        if k == "UnaryOperator" and s["opcode"] in ("++", "--"):
            pre = []
            e = [env]
            self.incdec(s["inner"][0], s["opcode"], e, pre, amb)
            return self.flush(pre, self.stmts(rest, e[0], fctx, depth))
        if k == "CallExpr":
            pre = []
            e = [env]
            self.call(s, e, pre, amb, False, as_stmt=True)
            return self.flush(pre, self.stmts(rest, e[0], fctx, depth))
        raise Untranslatable("statement kind %s" % k)

    # ---- if-statements whose branches only store scalars: conditional stores ----
    def flat_simple(self, ss):
        """the statements of a branch if all of them are plain scalar stores (=, op=, ++, --), else None"""
        out = []
        for s in ss:
            k = s.get("kind")
            if self.is_noop(s):
                continue
            if k == "CompoundStmt":
                sub = self.flat_simple(children(s))
                if sub is None:
                    return None
                out += sub
            elif (k == "BinaryOperator" and s["opcode"] == "=") or k == "CompoundAssignOperator" or \
                    (k == "UnaryOperator" and s["opcode"] in ("++", "--")):
                out.append(s)
            else:
                return None
        return out

    def simple_store(self, s, env, guard, items, amb):
        """(place, new value) of one plain scalar store; obligations are guarded by the branch condition"""
        k = s.get("kind")
        pre = []
        e = [env]
        if k == "UnaryOperator":
            place = self.lvalue(s["inner"][0], env)
            if place[2] != "nat":
                return None
            cur = self.read(place, env)
            if s["opcode"] == "--":
                pre.append(("obl", "1 ≤ %s" % cur))
            val = "(%s %s 1)" % (cur, "+" if s["opcode"] == "++" else "-")
        else:
            lhs, rhs = s["inner"]
            place = self.lvalue(lhs, env)
            r = place[2]
            if r not in ("field", "nat"):
                return None
            eb = self.expr(rhs, e, pre, amb, True)
            if k == "CompoundAssignOperator":
                op = s["opcode"][:-1]
                if op not in ("+", "-", "*", "/") or self.rep(rhs) != r or (op == "/" and r != "field") or (op == "*" and r == "nat"):
                    return None
                cur = self.read(place, env)
                if op == "/":
                    pre.append(("obl", "%s ≠ 0" % eb))
                if op == "-" and r == "nat":
                    pre.append(("obl", "%s ≤ %s" % (eb, cur)))
                val = "(%s %s %s)" % (cur, op, eb)
            else:
                val = eb
        for it in pre:
            if it[0] != "obl":
                return None
            items.append(("obl", "%s → %s" % (guard, it[1])))
        return place, val

    def join_if(self, c, then, els, env, amb, fctx):
        """items for `if (c) {stores} else {stores}` as conditional stores, or None when the branches do anything else"""
        ts, es = self.flat_simple(then), self.flat_simple(els)
        if ts is None or es is None or not (ts or es):
            return None
        items = []
        cname = c
        todo = [(x, True) for x in ts] + [(x, False) for x in es]
        try:
            stores = []
            cur_env = env
            # the condition is re-evaluated by every conditional store: bind it first if an earlier store changes what it reads
            probe = []
            for st, pos in todo:
                r = self.simple_store(st, env, "True", [], set())
                if r is None:
                    return None
                probe.append(".".join([r[0][0]] + r[0][1]))
            if any(t in c for t in probe[:-1]):
                fctx["ncond"] = fctx.get("ncond", 0) + 1
                cname = "c_%d" % fctx["ncond"]
                items.append(("let", cname, "decide %s" % c))
                cname = "(%s = true)" % cname
            stored = {True: set(), False: set()}
            self._cond_store = True
            nt = len(ts)
            pairwise = nt == len(es) and probe[:nt] == probe[nt:] and len(set(probe[:nt])) == nt
            try:
                if pairwise:
                    # both branches store to the same places in the same order: one `p = c ? e1 : e2` per place
                    for st, se in zip(ts, es):
                        rt = self.simple_store(st, cur_env, cname, items, amb)
                        re_ = self.simple_store(se, cur_env, "¬ %s" % cname, items, amb)
                        if rt is None or re_ is None:
                            return None
                        place = rt[0]
                        for v in (rt[1], re_[1]):
                            if place[0] in cur_env.undef and place[0] in v.replace("(", " ").replace(")", " ").split():
                                raise Untranslatable("local %s is read before it is definitely assigned" % place[0])
                        name, upd, cur_env = self.write(place, "(if %s then %s else %s)" % (cname, rt[1], re_[1]), cur_env)
                        if not place[1]:
                            stored[True].add(place[0])
                            stored[False].add(place[0])
                        items.append(("let", name, upd))
                    todo = []
                for st, pos in todo:
                    guard = cname if pos else "¬ %s" % cname
                    r = self.simple_store(st, cur_env, guard, items, amb)
                    if r is None:
                        return None
                    place, val = r
                    if place[0] in cur_env.undef and place[0] in val.replace("(", " ").replace(")", " ").split():
                        raise Untranslatable("local %s is read before it is definitely assigned" % place[0])
                    if place[0] in stored[True] | stored[False]:
                        old = ".".join([place[0]] + place[1])        # already bound by an earlier conditional store
                    else:
                        old = self.read(place, cur_env, dead_ok=True)
                    new = "(if %s then %s else %s)" % ((cname, val, old) if pos else (cname, old, val))
                    name, upd, cur_env = self.write(place, new, cur_env)
                    if not place[1]:
                        stored[pos].add(place[0])
                    items.append(("let", name, upd))
            finally:
                self._cond_store = False
            both = stored[True] & stored[False] & cur_env.undef
            if both:
                cur_env = cur_env.copy()
                cur_env.undef = cur_env.undef - both
        except Untranslatable:
            raise
        return items, cur_env

    def check_zero_init(self, n):
        for c in children(n):
            k = c.get("kind")
            if k == "InitListExpr":
                self.check_zero_init(c)
            elif k == "ImplicitValueInitExpr":
                continue
            else:
                m = strip(c)
                while m.get("kind") in ("ImplicitCastExpr", "CStyleCastExpr"):
                    m = strip(m["inner"][0])
                if not (m.get("kind") in ("IntegerLiteral", "FloatingLiteral") and float(m["value"]) == 0.0):
                    raise Untranslatable("struct initialiser other than all-zero")

    def ret(self, e, env, fctx):
        pre = []
        ev = [env]
        parts = []
        if e is not None:
            if fctx["ret"] is None:
                raise Untranslatable("return with a value in a void function")
            parts.append(self.expr(e, ev, pre, fctx["ambient"]))
        elif fctx["ret"] is not None:
            raise Untranslatable("control reaches the end of non-void function %s" % fctx["name"])
        for root in fctx["written"]:
            parts.append(root)
        val = parts[0] if len(parts) == 1 else ("(" + ", ".join(parts) + ")" if parts else "()")
        return self.flush(pre, ("ret", val))

    # ---- functions -----------------------------------------------------
    def function(self, fn, lean_name):
        params, body = [], None
        for c in children(fn):
            if c.get("kind") == "ParmVarDecl":
                params.append(c)
            elif c.get("kind") == "CompoundStmt":
                body = c
        if body is None:
            raise Untranslatable("function %s has no body" % fn.get("name"))
        env = Env()
        sig, pinfo, written = [], [], []
        for p in params:
            name = p["name"]
            r = self.rep(p)
            if isinstance(r, tuple) and r[0] == "ptr":
                const = "const " in p["type"]["qualType"].split("*")[0]
                env.vars[name] = ("ptr", name, [], r[1])
                env.param_roots[name] = r[1]
                sig.append("(%s : %s K)" % (name, self.rec.lean_names[r[1]]))
                pinfo.append(("ptr", {"sname": r[1], "written": not const, "name": name}))
                if not const:
                    written.append(name)
            elif r in ("field", "nat"):
                env.vars[name] = ("scalar", name, r)
                sig.append("(%s : %s)" % (name, "K" if r == "field" else "ℕ"))
                pinfo.append(("scalar", {"rep": r, "name": name}))
            else:
                raise Untranslatable("parameter %s of representation %s" % (name, r))
        rtype = fn["type"]["qualType"].split("(")[0].strip()
        if norm_type(rtype) == "void":
            rret = None
        else:
            fake = {"type": {"qualType": rtype}}
            rret = self.rep(fake)
            if isinstance(rret, tuple) and rret[0] == "ptr":
                raise Untranslatable("pointer return type")
        fctx = {"name": fn["name"], "ambient": set(), "ret": rret, "written": written}
        node = self.stmts([body], env, fctx)
        outs = []
        if rret is not None:
            outs.append(self.rec.lean_type(rret))
        outs += [self.rec.lean_type(("struct", env.param_roots[w])) for w in written]
        rl = " × ".join(outs) if outs else "Unit"
        amb = [(a, t) for a, t in AMBIENT if a in fctx["ambient"]]
        ambsig = ["(%s : %s)" % at for at in amb]
        allsig = " ".join(ambsig + sig)
        names = " ".join([a for a, _ in amb] + [p[1]["name"] for p in pinfo])
        text = "def %s %s : %s :=\n%s\n\n" % (lean_name, allsig, rl, ind(render(node, False)))
        text += "def %s_dom %s : Prop :=\n%s\n\n" % (lean_name, allsig, ind(render(node, True)))
        text += "instance %s : Decidable (%s_dom %s) := by\n  unfold %s_dom; infer_instance\n" % (allsig, lean_name, names, lean_name)
        self.funcs[fn["name"]] = {"lean": lean_name, "params": pinfo, "ambient": set(fctx["ambient"]), "ret": rret,
                                  "written": written, "sig": allsig, "result": rl}
        return text
