#!/usr/bin/env python3
"""Which lines of the process layer do the generated scenarios reach?  (development aid, not a check)

Builds the library with gcov instrumentation in a scratch directory, runs harness/simdrv.c on N generated scenarios per
profile plus corpus/sim, and prints the executable lines never reached, per source file. Lines that no scenario reaches
are where a seeded change would go unnoticed by the correspondence; they drive new generator profiles.

usage: tools/covreport.py [N per profile] [file substring ...]
"""
import os
import random
import shutil
import subprocess
import sys
import tempfile

sys.path.insert(0, os.path.dirname(os.path.abspath(__file__)))
import gen_sim
import vlib

FILES = ["cmb_process.c", "cmb_resourceguard.c", "cmb_resource.c", "cmb_resourcepool.c", "cmb_buffer.c", "cmb_objectqueue.c",
         "cmb_priorityqueue.c", "cmb_condition.c", "cmb_event.c", "cmi_hashheap.c", "cmi_coroutine.c", "cmi_holdable.c",
         "cmb_resourcebase.c"]


def main():
    n = int(sys.argv[1]) if len(sys.argv) > 1 and sys.argv[1].isdigit() else 300
    want = [a for a in sys.argv[1:] if not a.isdigit()]
    d = tempfile.mkdtemp(prefix="cov-", dir=os.environ.get("TMPDIR", "/tmp"))
    try:
        info = {"dir": d, "lib": os.path.join(d, "libcimba.a"), "variant": "cov",
                "cflags": vlib.COMMON + ["-O0", "-g", "--coverage", "-DNDEBUG", "-D" + vlib.GUARD,
                                         "-I" + os.path.join(vlib.REPO, "include"), "-I" + os.path.join(vlib.REPO, "src"), "-I" + d]}
        vlib._do_build(d, info)
        exe = os.path.join(d, "simdrv")
        subprocess.check_call(["gcc"] + info["cflags"] + [os.path.join(vlib.VERIF, "harness", "simdrv.c"), "-o", exe,
                                                          info["lib"], "-lm", "-lpthread"])
        scen = []
        cdir = os.path.join(vlib.VERIF, "corpus", "sim")
        for f in sorted(os.listdir(cdir)):
            scen.append("\n".join(l for l in open(os.path.join(cdir, f)).read().splitlines() if l and not l.startswith("#")) + "\n")
        rng = random.Random(1)
        for prof in gen_sim.PROFILES:
            for _ in range(n):
                lines, st = gen_sim.gen_scenario(rng, prof)
                scen.append("\n".join(lines) + "\n")
        for s in scen:
            subprocess.run([exe], input=s.encode(), stdout=subprocess.DEVNULL, stderr=subprocess.DEVNULL, cwd=d, timeout=60)
        print("%d scenarios" % len(scen))
        for f in FILES:
            if want and not any(w in f for w in want):
                continue
            src = os.path.join(vlib.REPO, "src", f)
            if not os.path.exists(src):
                continue
            out = subprocess.run(["gcov", "-o", d, src], cwd=d, stdout=subprocess.PIPE, stderr=subprocess.STDOUT).stdout.decode()
            g = os.path.join(d, f + ".gcov")
            if not os.path.exists(g):
                print("== %s: no data" % f)
                continue
            miss, tot = [], 0
            for l in open(g, errors="replace"):
                parts = l.split(":", 2)
                if len(parts) < 3:
                    continue
                c = parts[0].strip()
                if c == "-":
                    continue
                tot += 1
                if c in ("#####", "====="):
                    miss.append((int(parts[1]), parts[2].rstrip()))
            print("== %s: %d of %d executable lines never reached" % (f, len(miss), tot))
            for ln, txt in miss:
                print("   %5d %s" % (ln, txt[:150]))
    finally:
        shutil.rmtree(d, ignore_errors=True)


if __name__ == "__main__":
    main()
