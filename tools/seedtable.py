#!/usr/bin/env python3
"""Markdown table of the seeded changes and what the checks said about them (from seeded/*/{meta,confirm,result}.json)."""
import json
import os

VERIF = os.path.dirname(os.path.dirname(os.path.abspath(__file__)))
rows = []
for sid in sorted(os.listdir(os.path.join(VERIF, "seeded"))):
    d = os.path.join(VERIF, "seeded", sid)
    if not os.path.exists(os.path.join(d, "meta.json")):
        continue
    meta = json.load(open(os.path.join(d, "meta.json")))
    conf = json.load(open(os.path.join(d, "confirm.json"))) if os.path.exists(os.path.join(d, "confirm.json")) else {}
    res = json.load(open(os.path.join(d, "result.json"))) if os.path.exists(os.path.join(d, "result.json")) else {"checks": {}}
    what = meta.get("what_breaks", "")
    what = (what[:150] + "…") if len(what) > 150 else what
    for p, c in res["checks"].items():
        verdict = "missed" if c["exit"] == 0 else ("VIOLATION with failing input" if c["found_input"] else "VIOLATION no-failing-input-found")
        rows.append("| %s | %s | %s | %s | %s | %s |" % (sid, meta.get("property"), what.replace("|", "/").replace("\n", " "),
                                                    "yes" if conf.get("confirmed") else "no", "./check " + p, verdict + ": " + c["first"][:120].replace("|", "/")))
print("| id | breaks | change | confirmed (tests pass, demo fails only with it) | check | result |")
print("|---|---|---|---|---|---|")
print("\n".join(rows))
