"""Search for a concrete failing input when an ordering function's theorem no longer checks (T-gen broken).

1. In Lean: evaluate the regenerated function against the documented order on a grid of small tags
   (plus int64 / time extremes) and list the disagreeing pairs.
2. On the implementation: for each disagreeing pair (and a third filler tag) enqueue in every order into a
   real hashheap that uses the real static ordering function, dequeue, and let Monitor.C02 *under the
   documented order* judge the implementation's answers.  A rejected answer is a confirmed failing input.
"""
import itertools
import os
import re

import vlib

GRID = """
def ks : List Nat := [1, 2, 3]
def ds : List Int := [0, 1, 2, -1, 4503599627370496]
def is_ : List Int := [0, 1, 5, -1, 9223372036854775807, -9223372036854775808]
def tags : List HTag := ks.flatMap fun k => ds.flatMap fun d => is_.map fun i => { key := k, d := d, i := i }
"""


def lean_disagreements(gen_fn, spec_fn, limit=40):
    text = ("import CimbaModel.Generated.Orders\nimport CimbaModel.HashHeap.SpecOrders\n"
            "open CimbaModel.HashHeap CimbaModel.Generated CimbaModel.HashHeap.SpecOrders\n" + GRID +
            "#eval (tags.flatMap fun a => (tags.filter fun b => a.key ≠ b.key ∧ %s a b ≠ %s a b).map fun b => "
            "(a.key, a.d, a.i, b.key, b.d, b.i)).take %d\n" % (gen_fn, spec_fn, limit))
    rc, out = vlib.lean_run_file(text)
    pairs = []
    for m in re.finditer(r"\((\d+), (-?\d+), (-?\d+), (\d+), (-?\d+), (-?\d+)\)", out):
        v = list(map(int, m.groups()))
        pairs.append(((v[0], v[1], v[2]), (v[3], v[4], v[5])))
    return pairs, out


def grid_pairs():
    """A fixed grid of tag pairs (key, d, i) incl. int64 / time extremes, used when the regenerated function cannot be
    evaluated in Lean (translator failure) so the search has to run on the implementation alone."""
    I64MAX, I64MIN = 2 ** 63 - 1, -2 ** 63
    vals_i = [0, 1, -2, 5, I64MAX, I64MIN, I64MAX - 1, I64MIN + 1]
    vals_d = [0, 1, 2]
    out = []
    for ia in vals_i:
        for ib in vals_i:
            if ia != ib:
                out.append(((1, 0, ia), (2, 0, ib)))
    for da in vals_d:
        for db in vals_d:
            if da != db:
                out.append(((1, da, 0), (2, db, 0)))
                out.append(((1, da, 1), (2, db, 0)))
    out.append(((1, 0, 0), (2, 0, 0)))
    out.append(((2, 0, 0), (1, 0, 0)))
    return out


def replay_on_impl(order, pairs, impl=None):
    """Returns (ops_text, verdict_line) of the first sequence on which the implementation's answers are
    rejected by the specification monitor under the documented order, else None."""
    impl = impl or vlib.build_impl("hook")
    exe = vlib.cc_harness("hhdrv", impl)
    ok, out = vlib.lake_build(["hhspec"])
    if not ok:
        return None
    spec = vlib.lean_exe("hhspec")
    fillers = [None, (7, 1, 0), (7, 0, 3), (7, 3, 9)]
    for (a, b) in pairs:
        for f in fillers:
            tags = [a, b] + ([f] if f else [])
            for perm in itertools.permutations(tags):
                ops = ["init 3 %s" % order]
                for (k, d, i) in perm:
                    ops.append("enq %d 0 0 0 0 %d %d" % (k + 1000, d, i))
                ops += ["deq"] * len(perm)
                rc, o, e = vlib.run_driver(exe, "\n".join(ops) + "\n")
                res = [re.sub(r" h=[0-9a-f]+$", "", l) for l in o.splitlines()]
                if len(res) != len(ops):
                    return "\n".join(ops), "implementation aborted: " + e[-500:]
                log = ["init 3 spec-%s => ok" % order] + ["%s => %s" % (x, y) for x, y in zip(ops[1:], res[1:])]
                rc, mo, me = vlib.run_driver(spec, "\n".join(log) + "\n")
                if mo.startswith("bad"):
                    return "\n".join(ops), mo.strip()
    return None
