#!/usr/bin/env python3
"""Development aid for property C16 (not a registered check): applies realistic mutants to a scratch worktree of the repository
(which must contain the repairs of fixes/: loaded-dice index, geometric p = 1, std_gamma small shape), runs `./check C16` on each and
reports the exit code, the first violation and which part of the check saw it.  The scratch tree is restored after every mutant.

    VERIF_REPO=/tmp/c16-repo python3 tools/c16_selftest.py [name-substring]
"""
import os
import re
import subprocess
import sys

HERE = os.path.dirname(os.path.dirname(os.path.abspath(__file__)))
REPO = os.environ.get("VERIF_REPO")
if not REPO or os.path.realpath(REPO) == "/repo":
    sys.exit("set VERIF_REPO to a scratch worktree")

C, H = "src/cmb_random.c", "include/cmb_random.h"
MUTANTS = [
    ("loaded-dice scan compares with <= instead of <", C, "        if (x < q) {\n            break;", "        if (x <= q) {\n            break;"),
    ("loaded-dice clamp removed (the original defect)", C, "    if (ui >= n) {\n        ui = n - 1u;\n    }", ""),
    ("loaded-dice clamp to n instead of n-1", C, "        ui = n - 1u;", "        ui = n;"),
    ("alias_sample threshold compare inverted", H, "const bool c = (cmb_random_sfc64() >= ap->uprob[idx]);", "const bool c = (cmb_random_sfc64() < ap->uprob[idx]);"),
    ("alias_sample index uses ceil", H, "(unsigned) (floor(ap->n * cmb_random()))", "(unsigned) (ceil(ap->n * cmb_random()))"),
    ("alias_create forgets the -1.0 when the large entry donates", C, "work[g] = (work[g] + work[l]) - 1.0;", "work[g] = (work[g] + work[l]);"),
    ("alias_create stores the alias of the small entry at the large one", C, "alp->alias[l] = g;", "alp->alias[g] = l;"),
    ("alias_create pushes n instead of g back", C, "            small[idxs++] = g;", "            small[idxs++] = n;"),
    ("dice range off by one (b - a instead of b - a + 1)", H, "(double)(b - a + 1) * cmb_random()", "(double)(b - a) * cmb_random()"),
    ("dice range off by one the other way (b - a + 2)", H, "(double)(b - a + 1) * cmb_random()", "(double)(b - a + 2) * cmb_random()"),
    ("cmb_random keeps 54 bits (>> 10)", H, "ldexp((double)(cmb_random_sfc64() >> 11), -53)", "ldexp((double)(cmb_random_sfc64() >> 10), -53)"),
    ("bernoulli compares with >=", H, "return (cmb_random() <= p) ? 1 : 0;", "return (cmb_random() >= p) ? 1 : 0;"),
    ("binomial loop runs n+1 times", C, "for (unsigned ui = 0u; ui < n; ui++) {\n        sctr += cmb_random_bernoulli(p);", "for (unsigned ui = 0u; ui < n + 1u; ui++) {\n        sctr += cmb_random_bernoulli(p);"),
    ("geometric clamp removed (the original defect)", C, "    if (x < 1u) {", "    if (0) {"),
    ("geometric uses floor", C, "(unsigned)ceil(cmb_random_std_exponential() / denom)", "(unsigned)floor(cmb_random_std_exponential() / denom)"),
    ("exponential ziggurat layer mask 0xff -> 0x7f (hot path)", H, "const uint8_t idx = u_cand_x & 0xff;\n    double r", "const uint8_t idx = u_cand_x & 0x7f;\n    double r"),
    ("exponential table: x[17] perturbed by +1e-3 relative in calc_exponential.c", "codegen/calc_exponential.c",
     '        printf(" %.15g,", ldexp(xarr[i], -64));', '        printf(" %.15g,", ldexp(xarr[i] * (i == 17 ? 1.001 : 1.0), -64));'),
    ("exponential table: x[100] and x[101] swapped in calc_exponential.c", "codegen/calc_exponential.c",
     '        printf(" %.15g,", ldexp(xarr[i], -64));', '        printf(" %.15g,", ldexp(xarr[i == 100 ? 101 : (i == 101 ? 100 : i)], -64));'),
    ("exponential overhang: reflection forgets to reflect x", C, "                    u_cand_x = UINT64_MAX - u_cand_x;\n", ""),
    ("exponential tail offset subtracted", C, "x_offset += exp_zig_x_tail_start;", "x_offset -= exp_zig_x_tail_start;"),
    ("triangular: right branch uses (max - min) twice", C, "(1.0 - u) * (max- min) * (max - mode)", "(1.0 - u) * (max- min) * (max - min)"),
    ("uniform: max - min -> max + min", H, "const double r = min + (max - min) * cmb_random();", "const double r = min + (max + min) * cmb_random();"),
    ("sum_tolerance widened to 0.5", C, "static double sum_tolerance = 1.0e-3;", "static double sum_tolerance = 0.5;"),
    ("harmless: loaded-dice scan written with q accumulated first", C, "        q += pa[ui];\n        if (x < q) {", "        q = q + pa[ui];\n        if (q > x) {"),
    ("normal table: nor x[3] perturbed in calc_normal.c", "codegen/calc_normal.c", None, None),
    ("gamma: squeeze constant 0.331 -> 0.431", C, "1.0 - 0.331 * (x * x) * (x * x)", "1.0 - 0.431 * (x * x) * (x * x)"),
    ("poisson counts the arrival that crosses the window", C, "        if (t <= 1.0) {\n            /* Still within time window */\n            ctr++;\n        }\n        else {",
     "        ctr++;\n        if (t <= 1.0) {\n        }\n        else {"),
    ("std_gamma guard: u drawn BEFORE the recursive call", C, "        const double g = cmb_random_std_gamma(shape + 1.0);\n        const double u = cmb_random();\n",
     "        const double u = cmb_random();\n        const double g = cmb_random_std_gamma(shape + 1.0);\n"),
    ("std_gamma guard: pow(u, shape) instead of pow(u, 1/shape)", C, "return g * pow(u, 1.0 / shape);", "return g * pow(u, shape);"),
    ("std_gamma guard: recursion with shape + 2", C, "const double g = cmb_random_std_gamma(shape + 1.0);", "const double g = cmb_random_std_gamma(shape + 2.0);"),
    ("std_gamma guard removed (the original defect)", C, "    if (shape < 1.0) {", "    if (0) {"),
    ("normal tail: proposal scaled by x_tail_start instead of inv_tail_start (seeded C16-c)", C, "x = nor_zig_inv_tail_start * cmb_random_exponential(1.0);", "x = nor_zig_x_tail_start * cmb_random_exponential(1.0);"),
    ("normal tail: acceptance test 2 * z < x * x", C, "} while (2 * z <= x * x);", "} while (2 * z < x * x);"),
    ("normal tail: acceptance test z <= x * x (factor 2 lost)", C, "} while (2 * z <= x * x);", "} while (z <= x * x);"),
    ("normal tail: result sign * x (tail start not added)", C, "return sign * (x + nor_zig_x_tail_start);", "return sign * x;"),
    ("weibull uses shape instead of 1/shape", H, "const double x = scale * pow(u, 1.0 / shape);", "const double x = scale * pow(u, shape);"),
]


def sh(cmd, **kw):
    return subprocess.run(cmd, stdout=subprocess.PIPE, stderr=subprocess.STDOUT, text=True, **kw)


def main():
    pat = sys.argv[1] if len(sys.argv) > 1 else ""
    rows = []
    for name, path, old, new in MUTANTS:
        if pat not in name or old is None:
            continue
        p = os.path.join(REPO, path)
        orig = open(p).read()
        if orig.count(old) != 1:
            rows.append((name, "-", "pattern found %d times: not applied" % orig.count(old)))
            print("%-70s exit=%s  %s" % rows[-1], flush=True)
            continue
        open(p, "w").write(orig.replace(old, new))
        try:
            r = sh(["./check", "C16"], cwd=HERE, env=dict(os.environ, VERIF_REPO=REPO))
            out = r.stdout
            vio = [l for l in out.splitlines() if l.startswith("VIOLATION")]
            why = [l.split("^", 1)[1].strip() for l in out.splitlines() if "  ^ " in l]
            proof = re.search(r"obligations (\d+)/(\d+)", out)
            rows.append((name, r.returncode, "proof %s; %s" % (proof.group(0) if proof else "?", (why[0][:260] if why else "no violation")) +
                         (" [no-failing-input-found]" if vio and vio[0].endswith("no-failing-input-found") else "")))
        finally:
            open(p, "w").write(orig)
        print("%-70s exit=%s  %s" % rows[-1], flush=True)
    return 0


if __name__ == "__main__":
    sys.exit(main())
