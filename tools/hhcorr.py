"""Exact-state correspondence between the real hashheap (harness/hhdrv.c) and the Lean model (hhmain)."""
import hashlib
import os
import random
import re

import gen_hh
import vlib

CORPUS = os.path.join(vlib.VERIF, "corpus", "hh")


def strip_digest(line):
    return re.sub(r" h=[0-9a-f]+$", "", line)


def run_both(c_exe, lean_exe, lines, timeout=300):
    text = "\n".join(lines) + "\n"
    rc1, o1, e1 = vlib.run_driver(c_exe, text, timeout=timeout)
    rc2, o2, e2 = vlib.run_driver(lean_exe, text, timeout=timeout)
    return (rc1, o1.splitlines(), e1), (rc2, o2.splitlines(), e2)


def compare(c_exe, lean_exe, lines):
    """None if the two agree on every line (results and state digests), else a dict describing the first difference."""
    (rc1, a, e1), (rc2, b, e2) = run_both(c_exe, lean_exe, lines)
    a = [l for l in a if not l.startswith(" ") and not l.startswith("state ")]
    b = [l for l in b if not l.startswith(" ") and not l.startswith("state ")]
    d = vlib.first_diff(a, b)
    if d is None and rc1 == 0 and rc2 == 0:
        return None
    return {"index": d, "impl": a[d] if d is not None and d < len(a) else "<no output> rc=%d %s" % (rc1, e1[-1500:]),
            "model": b[d] if d is not None and d < len(b) else "<no output> rc=%d %s" % (rc2, e2[-300:]),
            "impl_rc": rc1, "impl_err": e1[-3000:], "op": lines[d] if d is not None and d < len(lines) else None,
            "impl_out": a}


def valid(lean_exe, lines):
    """A sequence is valid input iff the model executes it without a fault (the C side would abort) and the model's own
    answers are accepted by the specification monitor (this rules out sequences that violate a documented precondition the
    model does not fault on, e.g. a caller-supplied key that is already live)."""
    rc, o, e = vlib.run_driver(lean_exe, "\n".join(lines) + "\n")
    out = [l for l in o.splitlines() if not l.startswith(" ") and not l.startswith("state ")]
    if rc != 0 or any(l.startswith("fault") or l.startswith("bad-op") or l.startswith("no-heap") for l in out):
        return False
    spec = vlib.lean_exe("hhspec")
    if os.path.exists(spec):
        ok, msg = judge(spec, lines, out)
        return ok
    return True


def shrink(c_exe, lean_exe, lines, budget=400):
    """Delta-debug a disagreeing op sequence (the init line is kept)."""
    cur = list(lines)
    n = 2
    tries = 0
    while len(cur) > 2 and tries < budget:
        chunk = max(1, (len(cur) - 1) // n)
        reduced = False
        i = 1
        while i < len(cur) and tries < budget:
            cand = cur[:i] + cur[i + chunk:]
            tries += 1
            if len(cand) >= 2 and valid(lean_exe, cand) and compare(c_exe, lean_exe, cand) is not None:
                cur = cand
                reduced = True
            else:
                i += chunk
        if not reduced:
            if chunk == 1:
                break
            n = min(len(cur), n * 2)
    return cur


def judge(spec_exe, lines, impl_out):
    """Run Monitor.C02 over the implementation's log. Returns (ok, message)."""
    log = []
    for op, res in zip(lines, impl_out):
        log.append("%s => %s" % (op, strip_digest(res)))
    rc, o, e = vlib.run_driver(spec_exe, "\n".join(log) + "\n")
    o = o.strip()
    if len(impl_out) < len(lines):
        return False, "implementation stopped after %d of %d operations (abort / sanitizer report)" % (len(impl_out), len(lines))
    return o.startswith("ok"), o


def corpus_sequences():
    out = []
    if os.path.isdir(CORPUS):
        for f in sorted(os.listdir(CORPUS)):
            if f.endswith(".txt"):
                lines = [l.strip() for l in open(os.path.join(CORPUS, f)) if l.strip() and not l.startswith("#")]
                out.append((f, lines))
    return out


def worker(args):
    """Generate and compare `n` sequences; returns (stats list, mismatches list)."""
    seed, n, max_ops, c_exe, lean_exe = args
    rng = random.Random(seed)
    stats, bad = [], []
    model = gen_hh.ModelSession(lean_exe)
    try:
        for _ in range(n):
            lines, st = gen_hh.gen_sequence(rng, max_ops, model)
            d = compare(c_exe, lean_exe, lines)
            st["sig"] = hashlib.sha256("\n".join(lines).encode()).hexdigest()[:16]
            stats.append(st)
            if d is not None:
                bad.append((lines, d))
                if len(bad) >= 3:
                    break
    finally:
        model.close()
    return stats, bad


def run_generated(seed, total, max_ops, c_exe, lean_exe):
    import multiprocessing
    per = max(1, total // vlib.NPROC)
    jobs = [(seed * 1000003 + w, per, max_ops, c_exe, lean_exe) for w in range(vlib.NPROC)]
    with multiprocessing.Pool(vlib.NPROC) as pool:
        res = pool.map(worker, jobs)
    stats = [s for r in res for s in r[0]]
    bad = [b for r in res for b in r[1]]
    return stats, bad


def impl_log(c_exe, lines):
    rc, o, e = vlib.run_driver(c_exe, "\n".join(lines) + "\n")
    out = [l for l in o.splitlines() if not l.startswith(" ") and not l.startswith("state ")]
    return rc, out, e


def monitor_rejects(c_exe, spec_exe, lines):
    """True iff the implementation's own log of `lines` is NOT a behaviour of the keyed-priority-queue spec."""
    rc, out, e = impl_log(c_exe, lines)
    ok, msg = judge(spec_exe, lines, out)
    return (not ok), msg, e


def behavioural_search(c_exe, lean_exe, spec_exe, lines):
    """Given a sequence on which model and implementation states diverge, look for observable misbehaviour:
    the sequence itself, then the sequence extended by membership queries on every key seen and a full drain."""
    keys = []
    for l in lines:
        w = l.split()
        if w[0] in ("enq", "rm", "isq", "item", "dk", "ik", "rep") and w[1] != "0":
            keys.append(w[1])
    rc, out, _ = impl_log(c_exe, lines)
    for o in out:
        w = strip_digest(o).split()
        if len(w) == 2 and w[0] == "ok" and w[1].isdigit() and w[1] != "0":
            keys.append(w[1])
    keys = list(dict.fromkeys(keys))[:200]
    n_enq = sum(1 for l in lines if l.startswith("enq"))
    ext = lines + ["isq %s" % k for k in keys] + ["count", "peek"] + ["deq"] * (n_enq + 2) + ["count"]
    for cand in (lines, ext):
        bad, msg, err = monitor_rejects(c_exe, spec_exe, cand)
        if bad:
            # shrink while the monitor still rejects the implementation's log (init line kept)
            cur = list(cand)
            chunk = max(1, len(cur) // 2)
            tries = 0
            while chunk >= 1 and tries < 300:
                i = 1
                reduced = False
                while i < len(cur) and tries < 300:
                    c2 = cur[:i] + cur[i + chunk:]
                    tries += 1
                    if len(c2) >= 2 and valid(lean_exe, c2) and monitor_rejects(c_exe, spec_exe, c2)[0]:
                        cur = c2
                        reduced = True
                    else:
                        i += chunk
                if not reduced:
                    chunk //= 2
            bad, msg, err = monitor_rejects(c_exe, spec_exe, cur)
            return cur, msg, err
    return None
