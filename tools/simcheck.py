"""Shared driver of the process-layer checks (C04-C09, C11-C14): proofs + scenario correspondence + monitors.

run(chk, profiles, ...) does, for property chk.prop:
  1. T-gen of the ordering functions (the waiting lists / holder lists / object priority queues of the model run the
     regenerated C comparison functions), lake build of Props/<prop>.lean + simmain, audit;
  2. corpus/sim scenarios, then generated scenarios of the given profiles: the real library (harness/simdrv.c) and the
     Lean model (simmain) must print identical logs (every return value and time, final state, histories);
  3. the property's monitor (tools/simmon.py) on EVERY implementation log, agreeing or not;
  4. on a broken tie / proof: monitor says violated -> shrink -> VIOLATION with the scenario as replay;
     otherwise VIOLATION ... no-failing-input-found naming the stream.
"""
import collections
import hashlib
import multiprocessing
import os
import random

import c2lean
import gen_orders
import gen_sim
import simcorr
import simmon
import vlib

TRUSTED = [
    "Lean 4.33 kernel; axioms propext, Classical.choice, Quot.sound only (audited per theorem on every run)",
    "tools/c2lean.py + clang's JSON AST (ordering functions used by the waiting lists, holder lists and priority queues of the model)",
    "hand-written model CimbaModel/Sim/{Model,Run}.lean of cmb_process.c, cmb_resourceguard.c, cmb_resource.c, cmb_resourcepool.c, "
    "cmb_buffer.c, cmb_objectqueue.c, cmb_priorityqueue.c, cmb_condition.c, tied to the code only by differential execution of "
    "generated scenarios (complete observable logs: every return value and time, final object state, recorded histories)",
    "hashheap and event-kernel models (C02, C01)",
    "times and amounts are integers below 2^53 (double arithmetic exact); demand predicates without side effects",
    "tools/simmon.py (log monitors) only decide whether a broken tie is reported with a confirmed failing input; they are not part of the proof",
]


def _worker(args):
    seed, n, profiles, c_exe, lean_exe, exclude, prop, known_match = args
    KNOWN_MATCH[:] = known_match
    rng = random.Random(seed)
    stats, bad, mon = [], [], []
    for _ in range(n):
        lines, st = gen_sim.gen_scenario(rng, rng.choice(profiles), exclude=exclude)
        (rc1, a, e1), (rc2, b, e2) = simcorr.run_pair(c_exe, lean_exe, lines)
        st["sig"] = hashlib.sha256("\n".join(lines).encode()).hexdigest()[:16]
        if not stats:
            st["scenario"] = lines
            st["impl_log_head"] = a[:12]
        st["nonsuccess"] = sum(1 for l in a if l.startswith("r ") and len(l.split()) > 4 and l.split()[4] not in ("0", "1"))
        st["blocked_end"] = sum(1 for l in a if l.startswith("P ") and "st=1" in l)
        stats.append(st)
        d = vlib.first_diff(a, b)
        if d is not None or rc1 != 0 or rc2 != 0:
            if len(bad) < 3:
                bad.append((lines, {"index": d, "impl": a[d] if d is not None and d < len(a) else "<none> rc=%d" % rc1,
                                    "model": b[d] if d is not None and d < len(b) else "<none> rc=%d" % rc2,
                                    "impl_rc": rc1, "impl_err": e1[-2500:], "impl_out": a}))
        v = simmon.analyze(lines, a)
        st["known_finding_hits"] = len(v.get(prop, [])) - len(_unknown(v.get(prop, [])))
        if _unknown(v.get(prop, [])) and len(mon) < 3:
            mon.append((lines, _unknown(v[prop])))
    return stats, bad, mon


ORDER_OF = {"C12": ("pq", "compare_func", "pqB"), "C07": ("holder", "holder_queue_check", "holderB"),
            "C06": ("guard", "guard_queue_check", "guardB")}
KNOWN_MATCH = []     # regexes of monitor messages that belong to listed known findings (set by run())


def _unknown(msgs):
    import re
    return [m for m in msgs if not any(re.search(rx, m) for rx in KNOWN_MATCH)]


def monitor_flags(c_exe, lean_exe, prop, lines, keep_known=False):
    (rc, out, err), _ = simcorr.run_pair(c_exe, lean_exe, lines)
    v = simmon.analyze(lines, out)
    msgs = v.get(prop, [])
    return (msgs if keep_known else _unknown(msgs)), rc, err


def run(chk, profiles, total_quick=10000, total_thorough=60000, variant="hook", extra_targets=()):
    quick = chk.tier == "quick"
    prop = chk.prop
    impl = vlib.build_impl(variant)
    chk.cov["trusted_base"] = TRUSTED
    chk.assumptions += ["scenarios are valid programs: every command evaluates its documented precondition with the public queries and "
                        "is skipped when it does not hold (durations >= 0, release only by the holder, amounts within 1..capacity, signals "
                        "other than SUCCESS for interrupts/timers/resume, targets started and unfinished, handles issued by that queue; a variable holds one kind of handle: 0-3 timers, 4-7 priority-queue handles, 8-9 user events — VarsOk / CmdValid of the theorems)",
                        "pattern cancel (upcancel): the order in which cmb_event_pattern_cancel cancels its matches is unspecified (heap-array order in the "
                        "library, pending-list order in the model); generated scenarios with upcancel keep it unobservable (tools/gen_sim.py: either all "
                        "process priorities pairwise different and fixed, or at most one awaited user event at any time)"]
    tgen_ok = True
    try:
        gen_orders.run(impl)
    except c2lean.Untranslatable as ex:
        tgen_ok = False
        chk.log("translator cannot handle the current source: %s" % ex)
    proved = tgen_ok and chk.prove(extra_targets=["simmain"] + list(extra_targets))
    drivers_ok = proved or vlib.lake_build(["simmain"])[0]
    if not drivers_ok:
        chk.violation("model driver does not build against the regenerated definitions", getattr(chk, "build_error", "")[-3000:], False)
        return
    try:
        c_exe = vlib.cc_harness("simdrv", impl)
    except vlib.ImplBuildError as ex:
        chk.violation("the scenario driver does not compile/link against the library (public API missing or changed): %s" % str(ex)[-600:],
                      str(ex)[-3000:], False)
        return
    lean_exe = vlib.lean_exe("simmain")
    exclude = frozenset(x for k in chk.known for x in k.get("exclude", []))
    KNOWN_MATCH[:] = [k["match"] for k in chk.known if k.get("match")]
    # ---- known findings: reproduce from their corpus scenario ----------------
    for k in chk.known:
        f = os.path.join(vlib.VERIF, k["corpus"])
        lines = [l.strip() for l in open(f) if l.strip() and not l.startswith("#")]
        msgs, rc, err = monitor_flags(c_exe, lean_exe, prop, lines, keep_known=True)
        if msgs or rc != 0:
            chk.known_finding("%s: %s" % (k["id"], (msgs or ["implementation aborts"])[0]))
        else:
            chk.notes.append("known finding %s no longer reproduces" % k["id"])
    # ---- corpus ----------------------------------------------------------
    bad, mon, ncorp = [], [], 0
    known_files = {os.path.basename(k["corpus"]) for k in chk.known}
    for name, lines in simcorr.corpus():
        if name in known_files:
            continue
        ncorp += 1
        d = simcorr.compare(c_exe, lean_exe, lines)
        if d is not None:
            bad.append((lines, d))
        msgs, rc, err = monitor_flags(c_exe, lean_exe, prop, lines)
        if msgs:
            mon.append((lines, msgs))
    # ---- generated --------------------------------------------------------
    total = total_quick if quick else total_thorough
    per = max(1, total // vlib.NPROC)
    jobs = [(chk.seed * 104729 + w, per, profiles, c_exe, lean_exe, exclude, prop, list(KNOWN_MATCH)) for w in range(vlib.NPROC)]
    with multiprocessing.Pool(vlib.NPROC) as pool:
        res = pool.map(_worker, jobs)
    stats = [s for r in res for s in r[0]]
    bad += [b for r in res for b in r[1]]
    mon += [m for r in res for m in r[2]]
    chk.cov["evaluations"] = len(stats) + ncorp
    chk.cov["distinct_nontrivial"] = len({s["sig"] for s in stats if s["nonsuccess"] > 0})
    chk.cov["traces_validated_against_impl"] = len(stats) + ncorp - len(bad)
    chk.cov["rule"] = ("scenarios of 2-14 scripted processes over resources, pools, buffers, object/priority queues, conditions (profiles %s), "
                       "built from the documented idioms (timeout armed before a blocking call, acquire-hold-release with immediate re-acquire, "
                       "producers/consumers, interrupts/stops/preemptions aimed at blocked processes) with durations 0..5 so that several causes "
                       "fall on the same instant; non-trivial = at least one blocking call returned a non-success signal; distinct by content hash. "
                       "Compared: the complete log (every call/return with time and value, final state of every object and process, histories)."
                       % ",".join(profiles))
    chk.cov["input_distribution"] = {
        "profiles": dict(collections.Counter(s["profile"] for s in stats)),
        "scenario_lines": sum(s["lines"] for s in stats),
        "non_success_returns": sum(s["nonsuccess"] for s in stats),
        "scenarios_ending_with_blocked_processes": sum(1 for s in stats if s["blocked_end"] > 0),
        "corpus": ncorp, "excluded_triggers": sorted(exclude),
        "scenarios_matching_a_listed_known_finding": sum(1 for s in stats if s.get("known_finding_hits"))}
    if stats:
        chk.cov["samples"] = [{k: v for k, v in stats[0].items()}]
    # ---- a tie is broken but no monitor clause fired yet: search further for a failing input ----------------
    if bad and not mon and not any(d.get("impl_rc", 0) != 0 for _, d in bad):
        for rnd in range(1, 6):
            jobs = [((chk.seed + 7919 * rnd) * 104729 + w, per, profiles, c_exe, lean_exe, exclude, prop, list(KNOWN_MATCH))
                    for w in range(vlib.NPROC)]
            with multiprocessing.Pool(vlib.NPROC) as pool:
                res2 = pool.map(_worker, jobs)
            chk.cov["evaluations"] += sum(len(r[0]) for r in res2)
            mon += [m for r in res2 for m in r[2]]
            if mon:
                break
        chk.cov["input_distribution"]["extra_search_rounds_after_broken_tie"] = rnd
    # ---- verdicts ---------------------------------------------------------
    reported = False
    for lines, msgs in mon[:1]:
        small = simcorr.shrink(lambda cand: bool(monitor_flags(c_exe, lean_exe, prop, cand)[0]), lines, budget=200)
        m2, rc, err = monitor_flags(c_exe, lean_exe, prop, small)
        chk.violation("%s (monitor over the implementation's own log): %s" % (prop, (m2 or msgs)[0]),
                      "\n".join(small if m2 else lines), True)
        reported = True
    if not reported:
        for lines, d in bad:
            if d.get("impl_rc", 0) != 0:
                def aborts(cand):
                    (rc, out, err), _ = simcorr.run_pair(c_exe, lean_exe, cand)
                    return rc != 0
                small = simcorr.shrink(aborts, lines, budget=150)
                (rc, out, err), _ = simcorr.run_pair(c_exe, lean_exe, small)
                what = [l for l in err.splitlines() if "Assert" in l or "ERROR" in l or "runtime error" in l][:1]
                chk.violation("a valid program makes the library terminate abnormally (rc=%d): %s" % (rc, (what or [err[-200:]])[0]),
                              "\n".join(small) + "\n# stderr: " + err[-1500:].replace("\n", "\n# "), True)
                reported = True
                break
    if bad and not reported:
        lines, d = bad[0]
        small = simcorr.shrink(lambda cand: simcorr.compare(c_exe, lean_exe, cand) is not None, lines, budget=200)
        d2 = simcorr.compare(c_exe, lean_exe, small) or d
        chk.violation("process-layer correspondence (simdrv vs simmain) broken at log line %s: impl '%s' vs model '%s'; the %s monitor "
                      "finds no violated clause in the implementation's log" % (d2["index"], d2["impl"], d2["model"], prop),
                      "\n".join(small), False)
        reported = True
    if not proved and not reported and ORDER_OF.get(prop):
        import ordercheck
        order, gen_fn, spec_fn = ORDER_OF[prop]
        pairs = []
        if tgen_ok:
            pairs, _ = ordercheck.lean_disagreements(gen_fn, spec_fn)
        if not pairs:
            pairs = ordercheck.grid_pairs()
        r = ordercheck.replay_on_impl(order, pairs, vlib.build_impl("hook"))
        if r:
            chk.violation("the ordering function %s of the real queue differs from the documented order: the queue returns an entry "
                          "that the documented order does not put first: %s" % (gen_fn, r[1]), r[0], True)
            reported = True
    if not proved and not reported:
        errs = "\n".join(l for l in getattr(chk, "build_error", "").splitlines() if "error" in l)[:3000]
        probs = "\n".join(getattr(chk, "audit_result", {}).get("problems", []))
        chk.violation("a theorem of Props/%s.lean (or the translation it rests on) no longer checks" % prop,
                      "theorems: CimbaModel.Props.%s.*\n%s\n%s" % (prop, errs, probs), False)


def replay(chk, path, variant="hook"):
    impl = vlib.build_impl(variant)
    gen_orders.run(impl)
    vlib.lake_build(["simmain"])
    c_exe = vlib.cc_harness("simdrv", impl)
    lean_exe = vlib.lean_exe("simmain")
    lines = [l.strip() for l in open(path) if l.strip() and not l.startswith("#")]
    chk.cov["evaluations"] = 1
    msgs, rc, err = monitor_flags(c_exe, lean_exe, chk.prop, lines)
    d = simcorr.compare(c_exe, lean_exe, lines)
    if msgs:
        chk.violation("replay: %s" % msgs[0], "\n".join(lines), True)
    elif rc != 0:
        chk.violation("replay: the library terminates abnormally (rc=%d)" % rc, "\n".join(lines), chk.prop == "C10")
    elif d is not None:
        chk.violation("replay: implementation and model still differ at '%s' vs '%s'" % (d["impl"], d["model"]), "\n".join(lines), False)
    else:
        chk.log("replay: implementation agrees with the model and the monitor is silent")
