#!/usr/bin/env python3
"""Run every registered quick check against behaviour-preserving rewrites of /repo (harmless/<id>/patch.diff, note.txt).

For each rewrite: a scratch git worktree of /repo HEAD outside /repo and /verif, `git apply patch.diff`, then
`VERIF_REPO=<worktree> ./check Cnn --tier quick` for every property (evidence redirected to a scratch directory); the
worktree is removed afterwards. A check that exits non-zero on a rewrite is either too brittle a tie (translator that
insists on one spelling of the code: reported as `no-failing-input-found`, allowed by the rules but worth knowing) or a
false alarm with a "failing input" (a defect of the machinery). Writes harmless/<id>/result.json and prints a table.

usage: tools/harmlesstest.py [id ...]
"""
import json
import os
import shutil
import subprocess
import sys
import tempfile

VERIF = os.path.dirname(os.path.dirname(os.path.abspath(__file__)))
HARM = os.path.join(VERIF, "harmless")
PROPS = ["C%02d" % i for i in range(1, 21)]


def run_one(hid):
    d = os.path.join(HARM, hid)
    wt = tempfile.mkdtemp(prefix="harm-%s-" % hid, dir="/tmp")
    os.rmdir(wt)
    subprocess.check_call(["git", "-C", "/repo", "worktree", "add", "-q", "--detach", wt, "HEAD"])
    res = {"id": hid, "checks": {}}
    try:
        subprocess.check_call(["git", "-C", wt, "apply", os.path.join(d, "patch.diff")])
        evdir = tempfile.mkdtemp(prefix="harm-ev-", dir="/tmp")
        for p in PROPS:
            env = dict(os.environ, VERIF_REPO=wt, VERIF_EVIDENCE_DIR=evdir, VERIF_SEED=os.environ.get("VERIF_SEED", "1"))
            r = subprocess.run([os.path.join(VERIF, "check"), p, "--tier", "quick"], cwd=VERIF, env=env,
                               stdout=subprocess.PIPE, stderr=subprocess.STDOUT, timeout=3600)
            out = r.stdout.decode("utf-8", "replace")
            viol = [l for l in out.splitlines() if l.startswith("VIOLATION")]
            why = [l for l in out.splitlines() if "  ^ " in l]
            res["checks"][p] = {"exit": r.returncode, "violations": len(viol),
                                "no_input": any(v.rstrip().endswith("no-failing-input-found") for v in viol),
                                "first": (why[0].split("^ ", 1)[1] if why else "")[:400]}
        shutil.rmtree(evdir, ignore_errors=True)
    finally:
        subprocess.call(["git", "-C", "/repo", "worktree", "remove", "--force", wt])
        shutil.rmtree(wt, ignore_errors=True)
    json.dump(res, open(os.path.join(d, "result.json"), "w"), indent=1)
    return res


def main():
    ids = [a for a in sys.argv[1:]] or sorted(os.listdir(HARM))
    for hid in ids:
        if not os.path.exists(os.path.join(HARM, hid, "patch.diff")):
            continue
        r = run_one(hid)
        bad = {p: c for p, c in r["checks"].items() if c["exit"] != 0}
        if not bad:
            print("%-5s all 20 checks silent" % hid)
        for p, c in bad.items():
            print("%-5s %s exit=%d %s %s" % (hid, p, c["exit"], "no-input" if c["no_input"] else "FALSE-ALARM-WITH-INPUT", c["first"][:160]))
        sys.stdout.flush()


if __name__ == "__main__":
    main()
