"""Development aid (not a registered check): apply realistic mutants of src/cmb_random.c to a scratch git worktree of the
repository (with fixes/C15-flip-cache-reset.patch applied first), run ./check C15 against it, and report which part of
the check catches each.  Usage: python3 tools/c15_selftest.py [name ...]"""
import os
import re
import subprocess
import sys

HERE = os.path.dirname(os.path.abspath(__file__))
VERIF = os.path.dirname(HERE)
SCRATCH = "/tmp/c15-selftest-repo"
SRC = "src/cmb_random.c"

# name: (expected, [(old, new), ...])   expected: 'caught' (exit 1) or 'pass' (harmless rewrite, exit 0)
MUTANTS = {
    "sfc64-shift-12": ("caught", [("prng_state.b ^ (prng_state.b >> 11)", "prng_state.b ^ (prng_state.b >> 12)")]),
    "sfc64-rot-25": ("caught", [("(prng_state.c << 24) | (prng_state.c >> 40)", "(prng_state.c << 25) | (prng_state.c >> 39)")]),
    "discard-19": ("caught", [("i < 20; i++", "i < 19; i++")]),
    "splitmix-const": ("caught", [("0xbf58476d1ce4e5b9", "0xbf58476d1ce4e5b7")]),
    "init-order-b-c": ("caught", [("    prng_state.b = splitmix64();\n    prng_state.c = splitmix64();",
                                  "    prng_state.c = splitmix64();\n    prng_state.b = splitmix64();")]),
    "no-flip-reset": ("caught", [("    flip_bits = 0u;\n    flip_bitpos = 0u;\n    splitmix_initialize(seed);", "    splitmix_initialize(seed);")]),
    "flip-pos-only-reset": ("caught", [("    flip_bits = 0u;\n    flip_bitpos = 0u;\n    splitmix_initialize(seed);",
                                       "    flip_bitpos = 0u;\n    splitmix_initialize(seed);")]),
    "plain-static-flip-cache": ("caught", [("static CMB_THREAD_LOCAL uint64_t flip_bits = 0u;", "static uint64_t flip_bits = 0u;"),
                                           ("static CMB_THREAD_LOCAL uint8_t flip_bitpos = 0u;", "static uint8_t flip_bitpos = 0u;")]),
    "plain-static-splitmix": ("caught", [("static CMB_THREAD_LOCAL uint64_t splitmix_state = DUMMY_SEED;", "static uint64_t splitmix_state = DUMMY_SEED;")]),
    "new-static-cache": ("caught", [("    const uint64_t tmp = prng_state.a + prng_state.b + prng_state.d++;",
                                    "    static uint64_t last_output = 0u;\n    const uint64_t tmp = prng_state.a + prng_state.b + prng_state.d++;\n    last_output = tmp;")]),
    "new-tls-carry": ("caught", [("uint64_t cmb_random_sfc64(void)\n{\n    const uint64_t tmp = prng_state.a + prng_state.b + prng_state.d++;",
                                 "uint64_t cmb_random_sfc64(void)\n{\n    static CMB_THREAD_LOCAL uint64_t ncalls = 0u;\n    ncalls++;\n"
                                 "    const uint64_t tmp = prng_state.a + prng_state.b + prng_state.d++ + (ncalls >> 40);")]),
    "gamma-memo-never-valid": ("pass", [("        a_prev = shape;\n", "")]),   # harmless: a_prev stays 0, always recomputes
    "gamma-memo-stale": ("caught", [("        d = shape - 1.0 / 3.0;\n        c = 1.0 / sqrt(9.0 * d);\n        a_prev = shape;",
                                    "        d = shape - 1.0 / 3.0;\n        c = (a_prev == 0.0) ? 1.0 / sqrt(9.0 * d) : c;\n        a_prev = shape;")]),
    "gamma-memo-order": ("caught", [("        d = shape - 1.0 / 3.0;\n        c = 1.0 / sqrt(9.0 * d);\n", "        c = 1.0 / sqrt(9.0 * d);\n        d = shape - 1.0 / 3.0;\n")]),
    "gamma-memo-tolerance": ("caught", [("    if (shape != a_prev) {", "    if (fabs(shape - a_prev) > 1.0e-9) {")]),   # seeded change C15-a
    "gamma-memo-epsilon": ("caught", [("    if (shape != a_prev) {", "    if (fabs(shape - a_prev) > 2.2204460492503131e-16) {")]),   # seeded C19-e
    "geometric-boundary": ("caught", [("        denom = -log(1.0 - p);\n", "        prev = p;\n        if (p < 1.0) {\n            denom = -log(1.0 - p);\n        }\n")]),   # seeded C15-e
    "harmless-geometric-memo-fixed": ("pass", [("        denom = -log(1.0 - p);\n", "        denom = -log(1.0 - p);\n        prev = p;\n")]),
    "geometric-memo-live": ("caught", [("        denom = -log(1.0 - p);\n", "        denom = -log(1.0 - p);\n        prev = (p < 0.5) ? p : prev;\n")]),
    "harmless-commute": ("pass", [("prng_state.a + prng_state.b + prng_state.d++", "prng_state.b + prng_state.a + prng_state.d++")]),
    "harmless-while-loop": ("alarm-without-input", [("    for (int i = 0; i < 20; i++) {\n        (void)cmb_random_sfc64();\n    }",
                                     "    int i = 20;\n    while (i-- > 0) {\n        (void)cmb_random_sfc64();\n    }")]),
}


def sh(cmd, **kw):
    return subprocess.run(cmd, stdout=subprocess.PIPE, stderr=subprocess.STDOUT, **kw)


def main():
    names = sys.argv[1:] or list(MUTANTS)
    sh(["git", "-C", "/repo", "worktree", "remove", "--force", SCRATCH])
    sh(["git", "-C", "/repo", "worktree", "add", "--detach", SCRATCH, "HEAD"], check=True)
    try:
        sh(["git", "-C", SCRATCH, "apply", os.path.join(VERIF, "fixes", "C15-flip-cache-reset.patch")], check=True)
        base = open(os.path.join(SCRATCH, SRC)).read()
        for name in names:
            exp, edits = MUTANTS[name]
            text = base
            for old, new in edits:
                assert text.count(old) == 1, (name, old)
                text = text.replace(old, new)
            with open(os.path.join(SCRATCH, SRC), "w") as f:
                f.write(text)
            env = dict(os.environ, VERIF_REPO=SCRATCH, VERIF_SEED="1")
            p = sh([os.path.join(VERIF, "check"), "C15"], env=env, cwd=VERIF)
            out = p.stdout.decode()
            viol = [l for l in out.splitlines() if l.startswith("VIOLATION")]
            why = [l.split("^", 1)[1].strip()[:230] for l in out.splitlines() if "  ^ " in l]
            errs = sorted(set("%s:%s" % m for m in re.findall(r"(Props/C15|Rng/Lemmas)\.lean:(\d+):", out)))
            print("%-26s exit=%d expected=%s %s\n    lean errors at %s\n    %s" % (
                name, p.returncode, exp, "no-failing-input-found" if any("no-failing" in v for v in viol) else ("REPLAY" if viol else ""),
                errs, "\n    ".join(why)), flush=True)
    finally:
        sh(["git", "-C", "/repo", "worktree", "remove", "--force", SCRATCH])


if __name__ == "__main__":
    main()
