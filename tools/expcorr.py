"""C19 differential runs: the real cimba_run_experiment (harness/expdrv.c) against
   (a) the experiment model: every observed run must be a behaviour of the model (Drivers/ExpMain `replay`) and satisfy
       Monitor.C19 (`verdict`), the per-index call counters / own-element checks and the join check of the harness;
   (b) sequential references: the same trials run one after another in one thread of a fresh process, in reverse order,
       and each in a new thread of its own must produce bit-identical result digests.
This is differential TESTING of real thread schedules (pthreads and the hardware decide the interleaving); what is PROVED is
in Props/C19.lean."""
import hashlib
import os
import random

import vlib

K_PROC, K_BUF, K_OBJQ, K_SAMP, K_FLIP, K_LOG, K_MEMO, K_TIE, K_LOGKEEP, K_POLLUTE, K_MIX = \
    0x1, 0x2, 0x4, 0x8, 0x10, 0x20, 0x40, 0x80, 0x100, 0x200, 0x800
# seed designs: all trials share one seed / seeds repeat with period 3 / odd trials call cmb_random_terminate()
K_SAMESEED, K_SEED3, K_TERM = 0x400, 0x1000, 0x2000
# memoised samplers with keys equal to / 1 ulp from / far from those of the neighbouring trials
K_ULP = 0x4000
MEMO_FUNCTIONS_EXERCISED = ("cmb_random_std_gamma", "cmb_random_geometric")
ALL_SIM = K_PROC | K_BUF | K_OBJQ | K_SAMP | K_LOG | K_MEMO
SIZES = [64, 65, 71, 72, 104, 257, 4104]
CORES = os.cpu_count() or 4


class Scenario:
    __slots__ = ("mode", "W", "n", "size", "seed", "pat", "dmax", "kinds")

    def __init__(self, mode, W, n, size, seed, pat, dmax, kinds):
        self.mode, self.W, self.n, self.size, self.seed, self.pat, self.dmax, self.kinds = mode, W, n, size, seed, pat, dmax, kinds

    def line(self, mode=None):
        return "run %s %d %d %d %d %d %d %d" % (mode or self.mode, self.W, self.n, self.size, self.seed, self.pat, self.dmax, self.kinds)

    def ref_key(self):
        return (self.n, self.seed, self.kinds)

    @staticmethod
    def parse(line):
        w = line.split()
        if len(w) != 9 or w[0] != "run":
            raise ValueError("bad scenario line: " + line)
        return Scenario(w[1], *[int(x) for x in w[2:]])


def group_line(group, mode=None):
    """several experiments run one after the other in ONE process are written on one line, separated by ' ; '"""
    return " ; ".join(sc.line(mode) for sc in group)


def parse_group(line):
    return [Scenario.parse(x.strip()) for x in line.split(";") if x.strip()]


def split_blocks(out):
    """the harness prints one block per experiment, each introduced by 'X <ordinal>'"""
    blocks, cur = [], None
    for l in out.splitlines():
        if l.startswith("X "):
            cur = []
            blocks.append(cur)
        elif cur is not None:
            cur.append(l)
    return ["\n".join(b) + "\n" for b in blocks]


def run_group(exe, group, timeout=300):
    text = "".join(sc.line() + "\n" for sc in group)
    rc, out, err = vlib.run_driver(exe, text, timeout=timeout)
    return rc, split_blocks(out), err


def parse_output(out):
    r = {"P": None, "S": [], "E": [], "C": {}, "D": {}, "R": None}
    for l in out.splitlines():
        w = l.split()
        if not w:
            continue
        if w[0] == "P":
            r["P"] = tuple(int(x) for x in w[1:])
        elif w[0] == "S":
            r["S"].append((int(w[1]), int(w[2]), int(w[3]), int(w[4])))
        elif w[0] == "E":
            r["E"].append((int(w[1]), int(w[2]), int(w[3])))
        elif w[0] == "C":
            r["C"][int(w[1])] = (int(w[2]), int(w[3]))
        elif w[0] == "D":
            r["D"][int(w[1])] = (w[2], w[3])
        elif w[0] == "R":
            r["R"] = tuple(int(x) for x in w[1:])
    return r


def run_one(exe, sc, mode=None, timeout=300):
    rc, out, err = vlib.run_driver(exe, sc.line(mode) + "\n", timeout=timeout)
    b = split_blocks(out)
    return rc, (b[0] if b else ""), err


def check_counters(sc, r):
    """exactly once, own element, join — from the harness's own counters. Returns list of problems."""
    bad = []
    if r["P"] is None or r["R"] is None:
        return ["harness produced no result (crash?)"]
    n = sc.n
    ended, extra, guard = r["R"]
    if ended != n:
        bad.append("cimba_run_experiment returned when %d of %d calls had finished" % (ended, n))
    for i in range(n):
        c = r["C"].get(i)
        if c is None or c[0] != 1:
            bad.append("trial %d was called %s times" % (i, c[0] if c else 0))
        elif c[1] != 1:
            bad.append("trial %d was not called with its own element" % i)
        if len(bad) > 4:
            break
    for i in r["C"]:
        if i >= n:
            bad.append("the trial function was called for index %d >= n = %d (%d times)" % (i, n, r["C"][i][0]))
    if extra:
        bad.append("%d call(s) with an address outside elements 0..n-1" % extra)
    if not guard:
        bad.append("bytes outside the trial structs' parameter/result block were modified")
    return bad[:6]


def assignment_sig(r):
    """(number of threads that ran a trial, max trials on one thread, hash of idx->thread and of the start order)"""
    by = {}
    for _, t, i, _ in r["S"]:
        by.setdefault(t, []).append(i)
    h = hashlib.sha256(repr(sorted((i, t) for _, t, i, _ in r["S"])).encode() + repr([i for _, _, i, _ in r["S"]]).encode())
    inorder = all(r["S"][k][2] < r["S"][k + 1][2] for k in range(len(r["S"]) - 1))
    # completion order differs from start order?
    ends = [i for _, _, i in r["E"]]
    starts = [i for _, _, i, _ in r["S"]]
    return {"threads": len(by), "max_per_thread": max([len(v) for v in by.values()] or [0]), "sig": h.hexdigest()[:16],
            "starts_in_index_order": inorder, "completion_reordered": ends != starts}


def model_check(lean_exe, out):
    rc, o, e = vlib.run_driver(lean_exe, out, args=["log"], timeout=300)
    v = [l for l in o.splitlines() if l.startswith("verdict ")]
    p = [l for l in o.splitlines() if l.startswith("replay ")]
    return (v[0] if v else "verdict bad (no output) " + e[-200:]), (p[0] if p else "replay bad (no output) " + e[-200:])


def trial_counts(rng):
    c = CORES
    base = [1, 2, max(1, c - 1), c, c + 1, 10 * c]
    extra = [rng.choice([3, 5, 7, c // 2 + 1, 2 * c, 3 * c + 1, 4 * c - 1])]
    return base + extra


def generate(seed, count, flips_ok):
    """Scenarios (mode par). Trigger of the known finding (equal-priority same-instant ties, K_TIE) is never generated;
    coin flips only when the flip cache is reset by cmb_random_initialize in the current sources."""
    rng = random.Random(seed * 7919 + 19)
    out = []
    kinds_pool = [ALL_SIM, K_PROC | K_SAMP, K_BUF | K_OBJQ | K_LOG, K_SAMP | K_MEMO, ALL_SIM | K_MIX, K_PROC | K_BUF | K_MEMO | K_LOG,
                  K_SAMP]
    if flips_ok:
        kinds_pool = [k | K_FLIP for k in kinds_pool[:5]] + kinds_pool[5:] + [K_FLIP | K_SAMP]
    Ws = [0, 0, 1, 2, 3, 5, CORES - 1, CORES + 1, 2 * CORES, 4 * CORES]
    k = 0
    while len(out) < count:
        for n in trial_counts(rng):
            if len(out) >= count:
                break
            W = Ws[k % len(Ws)] if k % 3 else rng.choice(Ws)
            size = SIZES[k % len(SIZES)] if k % 2 else rng.choice(SIZES)
            pat = rng.choice([0, 1, 1, 2, 3, 4, 5, 6])
            dmax = rng.choice([0, 50, 200, 600]) if n <= 2 * CORES else rng.choice([0, 20, 80])
            kinds = kinds_pool[k % len(kinds_pool)]
            # every fourth experiment reuses seeds between its trials (common random numbers): all the same, or period 3;
            # half of those have trials that call cmb_random_terminate()
            if k % 4 == 1:
                kinds |= (K_SAMESEED if (k // 4) % 2 == 0 else K_SEED3) | (K_TERM if (k // 8) % 2 == 0 else 0)
            # every third experiment draws from the memoised samplers with neighbouring keys (equal / 1 ulp apart / far apart)
            if k % 3 == 2:
                kinds |= K_ULP
            # a handful of experiment seeds so that sequential references are shared
            eseed = 1 + (seed * 31 + rng.randrange(4)) % 1000003
            out.append(Scenario("par", W, n, size, eseed, pat, dmax, kinds))
            k += 1
    return out


def generate_groups(seed, count, flips_ok):
    """Two or three experiments run by the SAME process, one after the other: the later ones have more trials than, as many as
    and fewer than the first (also by more / less than the number of workers), other struct sizes, other worker counts."""
    rng = random.Random(seed * 15485863 + 3)
    kinds_pool = [0, K_SAMP, K_SAMP | K_MEMO, ALL_SIM, K_PROC | K_BUF] + ([K_SAMP | K_FLIP] if flips_ok else [])
    out = []
    for k in range(count):
        W = rng.choice([0, 0, 1, 2, 3, CORES + 1])
        Weff = W or CORES
        n1 = rng.choice([1, 2, Weff - 1 or 1, Weff, Weff + 1, 3 * Weff, 10 * Weff])
        shape = k % 6
        if shape == 0:
            ns = [n1, n1 + Weff + rng.randrange(1, 40)]            # larger than first + overshoot
        elif shape == 1:
            ns = [n1, n1]                                           # equal
        elif shape == 2:
            ns = [n1 + rng.randrange(1, 30), max(1, n1 // 2)]       # smaller
        elif shape == 3:
            ns = [n1, n1 + rng.randrange(1, Weff + 1)]              # larger, but by no more than the overshoot
        elif shape == 4:
            ns = [rng.choice([1, 10]), 100, 7]
        else:
            ns = [n1, 5 * n1 + 2 * Weff + 3, n1 + 1]
        kinds = kinds_pool[k % len(kinds_pool)]
        if kinds and k % 4 == 2:
            kinds |= K_ULP
        if kinds and k % 3 == 1:
            kinds |= (K_SAMESEED if (k // 3) % 2 == 0 else K_SEED3) | (K_TERM if (k // 6) % 2 == 0 else 0)
        eseed = 1 + (seed * 37 + rng.randrange(3)) % 1000003
        grp = []
        for j, n in enumerate(ns):
            Wj = W if j == 0 or rng.random() < 0.7 else rng.choice([0, 1, 2, 5])
            grp.append(Scenario("par", Wj, n, SIZES[(k + 2 * j) % len(SIZES)], eseed + j, rng.choice([0, 1, 5]),
                                rng.choice([0, 40]) if n < 4 * CORES else 0, kinds))
        out.append(grp)
    return out


def stress_groups(seed, count):
    """empty trials, several experiments per process"""
    rng = random.Random(seed * 32452843 + 11)
    out = []
    for k in range(count):
        W = rng.choice([0, 1, 2, 3])
        ns = [[10, 100, 7], [1, 1], [3, 40], [CORES, 3 * CORES + 5, 2], [2, 2, 2]][k % 5]
        out.append([Scenario("par", W, n, SIZES[(k + j) % len(SIZES)], 1 + k + j, 0, 0, 0) for j, n in enumerate(ns)])
    return out


def stress(seed, count):
    """empty trials, maximal contention on the counter; last-long / first-long patterns for the join"""
    rng = random.Random(seed * 104729 + 7)
    out = []
    for k in range(count):
        m = k % 4
        if m == 0:
            out.append(Scenario("par", rng.choice([0, 2 * CORES, 4 * CORES]), rng.choice([2000, 5000, 20000]), 64, 1 + k, 0, 0, 0))
        elif m == 1:
            out.append(Scenario("par", 0, CORES, 64, 1 + k, 6, 400, 0))
        elif m == 2:
            W = rng.choice([2, 3, 5, CORES])
            out.append(Scenario("par", W, W, 72, 1 + k, 6, 300, 0))
        else:
            out.append(Scenario("par", rng.choice([2, 3, CORES]), rng.choice([1, 2, 3, 7]), 65, 1 + k, rng.choice([3, 4, 6]), 200, 0))
    return out


def corpus_files():
    d = os.path.join(vlib.VERIF, "corpus", "exp")
    if not os.path.isdir(d):
        return []
    return [os.path.join(d, f) for f in sorted(os.listdir(d)) if f.endswith(".txt")]


def read_corpus(path):
    """returns (expect, [group]) ; expect in {'same', 'differ'} from a '# expect: ...' line; a group is a list of Scenario run in
    one process (one line, ' ; ' separated)"""
    expect, groups = "same", []
    for l in open(path):
        l = l.strip()
        if l.startswith("# expect:"):
            expect = l.split(":", 1)[1].strip().split()[0]
        elif l.startswith("run "):
            groups.append(parse_group(l))
    return expect, groups


def digests(r):
    return tuple(r["D"].get(i, ("?", "?"))[0] for i in range(len(r["D"])))
