"""T-gen for C19: two files regenerated from /repo's current sources on every run.

  lean/CimbaModel/Generated/TlsInventory.lean
      every variable with static storage duration DEFINED in src/*.c, src/port/x86-64/linux/*.c (and the headers /
      build-time .inc files they include from the repository): file, enclosing function, name, thread-local?, const?,
      type, every access in every translation unit (function + kind: read / write / rmw / atomic builtin / mutex op /
      address passed on), and the functions that reset it (assign the whole variable, or every field of it, by plain
      top-level `=` statements, directly or through a callee invoked by a top-level call statement).

  lean/CimbaModel/Generated/Dispenser.lean
      the trial dispenser and the join of src/cimba.c as Lean definitions: how the next index is fetched (one atomic
      fetch-and-add, or a separate load and store), the increment, the stop condition, the element address expression,
      the initial value of the counter, the loop conditions of the pthread_create and pthread_join loops, and whether
      the logger's trial index is set before the call.  The experiment model (Experiment/Model.lean) is written in terms
      of these definitions, so Props/C19.lean is re-proved against what the C code says now.

Anything outside the recognised shape raises c2lean.Untranslatable (tie broken, never skipped).
"""
import hashlib
import json
import multiprocessing
import os
import re
import subprocess

import c2lean
import vlib
from c2lean import Untranslatable

PORT = "src/port/x86-64/linux"
TRIAL_INIT = ("cmb_event_queue_initialize", "cmb_random_initialize", "worker_thread_func")


# --------------------------------------------------------------------------
# clang AST with resolved file / line of every node
# --------------------------------------------------------------------------

def tu_list():
    out = []
    for d in ("src", PORT):
        root = os.path.join(vlib.REPO, d)
        out += [os.path.join(d, f) for f in sorted(os.listdir(root)) if f.endswith(".c")]
    return out


def dump_tu(args):
    rel, incs = args
    _SRC.clear()
    cmd = ["clang", "-std=c17", "-D_POSIX_C_SOURCE=200809L", "-DNDEBUG"] + ["-I" + i for i in incs] + [
        "-fsyntax-only", "-w", "-Xclang", "-ast-dump=json", os.path.join(vlib.REPO, rel)]
    p = subprocess.run(cmd, stdout=subprocess.PIPE, stderr=subprocess.PIPE)
    if p.returncode != 0:
        return rel, None, p.stderr.decode()[-2000:]
    root = json.loads(p.stdout.decode())
    _annotate(root)
    return rel, _extract_tu(rel, root), None


def _annotate(root):
    """clang prints `file` / `line` of a location only when they differ from the previously printed location.
    Resolve them in document order and store `_file`, `_line` on every node that has a `loc`."""
    cur = {"file": None, "line": None}

    def see_loc(l):
        if not isinstance(l, dict):
            return
        if "spellingLoc" in l or "expansionLoc" in l:
            # printed in this order by clang
            see_loc(l.get("spellingLoc"))
            see_loc(l.get("expansionLoc"))
            return
        if "file" in l:
            cur["file"] = l["file"]
        if "line" in l:
            cur["line"] = l["line"]

    def walk(n):
        if isinstance(n, dict):
            for k, v in list(n.items()):
                if k == "loc":
                    see_loc(v)
                    n_file, n_line = cur["file"], cur["line"]
                elif k == "range":
                    see_loc(v.get("begin"))
                    n["_bfile"] = cur["file"]
                    see_loc(v.get("end"))
                elif k == "inner":
                    for c in v:
                        walk(c)
                elif isinstance(v, (dict, list)) and k not in ("type",):
                    walk(v)
            if "loc" in n:
                n["_file"], n["_line"] = n_file, n_line
        elif isinstance(n, list):
            for c in n:
                walk(c)
    walk(root)


def _in_repo(f, impl_dir):
    if f is None:
        return False
    f = os.path.realpath(f)
    return f.startswith(os.path.realpath(vlib.REPO) + os.sep) or f.startswith(os.path.realpath(impl_dir) + os.sep)


def _relfile(f, impl_dir):
    f = os.path.realpath(f)
    r = os.path.realpath(vlib.REPO) + os.sep
    if f.startswith(r):
        return f[len(r):]
    return "<build>/" + os.path.basename(f)


def _qt(n):
    t = n.get("type", {})
    return t.get("desugaredQualType") or t.get("qualType", "")


def _is_const(t):
    t = re.sub(r"\[[^\]]*\]", "", t).strip()          # arrays: constness of the element type
    if "(*" in t:                                      # pointer to function / array: const only if `(*const`
        return "(*const" in t.replace(" ", "")
    if t.endswith("*"):
        return False
    if "*" in t:                                       # `T *const`
        return t.split("*")[-1].strip().startswith("const")
    return bool(re.search(r"\bconst\b", t))


IMPL_DIR = [None]
_SRC = {}


def atomic_name(n, default_file=None):
    """clang's JSON does not name the builtin of an AtomicExpr: read the token at its begin offset from the source."""
    b = n.get("range", {}).get("begin", {})
    if "expansionLoc" in b:
        b = b["expansionLoc"]
    f = n.get("_bfile") or default_file
    if f is None or "offset" not in b:
        return "__atomic_?"
    if f not in _SRC:
        with open(f, "rb") as fh:
            _SRC[f] = fh.read()
    return _SRC[f][b["offset"]:b["offset"] + b.get("tokLen", 0)].decode("utf-8", "replace")


def _extract_tu(rel, root):
    """Per translation unit: definitions, record fields, functions (top-level statements), accesses."""
    impl_dir = IMPL_DIR[0]
    tracked = {}          # decl id -> key
    defs = {}             # key -> info
    records = {}          # name or "line:col" -> [field names]
    ext_names = {}        # name -> [ids] of file-scope declarations with external linkage (extern or definition)

    def key_file(n):
        return _relfile(n["_file"], impl_dir)

    def see_record(n):
        if n.get("kind") == "RecordDecl" and n.get("completeDefinition"):
            fields = [c["name"] for c in n.get("inner", []) if c.get("kind") == "FieldDecl" and "name" in c]
            if n.get("name"):
                records[n["name"]] = fields
            loc = n.get("loc", {})
            records["%s:%s:%s" % (n.get("_file"), n.get("_line"), loc.get("col"))] = fields
        for c in n.get("inner", []) if isinstance(n, dict) else []:
            if isinstance(c, dict) and c.get("kind") in ("RecordDecl",):
                see_record(c)

    def fields_of(t):
        m = re.search(r"\(unnamed (?:struct )?at ([^:]+):(\d+):(\d+)\)", t)
        if m:
            return records.get("%s:%s:%s" % (m.group(1), m.group(2), m.group(3)))
        m = re.match(r"(?:const )?struct (\w+)$", t.strip())
        if m:
            return records.get(m.group(1))
        return []

    def add_def(n, fn):
        t = _qt(n)
        f = fields_of(t)
        if f is None:
            raise Untranslatable("fields of the type of %s (%s) not found" % (n["name"], t))
        is_static = n.get("storageClass") == "static"
        k = (key_file(n), fn or "", n["name"]) if (is_static or fn) else ("", "", n["name"])
        defs[k] = {"file": key_file(n), "function": fn or "", "name": n["name"], "tls": n.get("tls") in ("static", "dynamic"),
                   "const": _is_const(t), "type": n.get("type", {}).get("qualType", t), "fields": f,
                   "line": n.get("_line")}
        return k

    for n in root.get("inner", []):
        k = n.get("kind")
        if k == "RecordDecl":
            see_record(n)
        if k == "VarDecl" and _in_repo(n.get("_file"), impl_dir):
            has_init = any(c.get("kind") not in ("FullComment", "TLSModelAttr") and not c.get("kind", "").endswith("Attr")
                           for c in n.get("inner", []))
            if n.get("storageClass") == "extern" and not has_init:
                ext_names.setdefault(n["name"], []).append(n["id"])
                tracked[n["id"]] = ("", "", n["name"])
                continue
            kk = add_def(n, None)
            tracked[n["id"]] = kk
            if n.get("storageClass") != "static":
                ext_names.setdefault(n["name"], []).append(n["id"])

    funcs = {}            # name -> dict(static, top=[...], accesses=[...])

    def lvalue_root(e):
        """(DeclRefExpr node, field or None) of an lvalue expression `v`, `v.f`, `v.f.g`, `v[i]`, `(v)`."""
        field = None
        while True:
            k = e.get("kind")
            if k == "ParenExpr":
                e = e["inner"][0]
            elif k == "MemberExpr" and not e.get("isArrow"):
                field = e.get("name")
                e = e["inner"][0]
            elif k == "ArraySubscriptExpr":
                e = e["inner"][0]
                while e.get("kind") in ("ImplicitCastExpr", "ParenExpr"):
                    e = e["inner"][0]
                field = None
            else:
                break
        if e.get("kind") == "DeclRefExpr" and e.get("referencedDecl", {}).get("id") in tracked:
            return e, field
        return None, None

    def callee_name(call):
        c = call["inner"][0]
        while c.get("kind") in ("ImplicitCastExpr", "ParenExpr"):
            c = c["inner"][0]
        if c.get("kind") == "DeclRefExpr":
            return c.get("referencedDecl", {}).get("name", "?")
        return "(indirect)"

    def classify(stack):
        """stack[-1] is the DeclRefExpr; stack[:-1] its ancestors (outermost first)."""
        i = len(stack) - 1
        field = None
        # extend through the lvalue path
        while i > 0:
            p = stack[i - 1]
            k = p.get("kind")
            if k == "ParenExpr":
                i -= 1
            elif k == "MemberExpr" and not p.get("isArrow"):
                field = field or p.get("name")
                i -= 1
            elif k == "ImplicitCastExpr" and p.get("castKind") == "ArrayToPointerDecay" and i > 1 and \
                    stack[i - 2].get("kind") == "ArraySubscriptExpr" and stack[i - 2]["inner"][0] is p:
                i -= 2
            else:
                break
        top = stack[i]
        if any(a.get("kind") == "UnaryExprOrTypeTraitExpr" for a in stack[:i]):
            return None
        if i == 0:
            return ("addrTo", "")
        p = stack[i - 1]
        k = p.get("kind")
        if k == "ImplicitCastExpr" and p.get("castKind") == "LValueToRValue":
            return ("read", field or "")
        if k == "BinaryOperator" and p.get("opcode") == "=" and p["inner"][0] is top:
            return ("write", field or "")
        if k == "CompoundAssignOperator" and p["inner"][0] is top:
            return ("rmw", "")
        if k == "UnaryOperator" and p.get("opcode") in ("++", "--"):
            return ("rmw", "")
        if (k == "UnaryOperator" and p.get("opcode") == "&") or (k == "ImplicitCastExpr" and p.get("castKind") == "ArrayToPointerDecay"):
            j = i - 1
            while j > 0 and stack[j - 1].get("kind") in ("ImplicitCastExpr", "ParenExpr", "CStyleCastExpr"):
                j -= 1
            if j > 0 and stack[j - 1].get("kind") == "AtomicExpr":
                return ("atomic", atomic_name(stack[j - 1]))
            if j > 0 and stack[j - 1].get("kind") == "CallExpr" and stack[j - 1]["inner"][0] is not stack[j]:
                cn = callee_name(stack[j - 1])
                if cn.startswith("__atomic_") or cn.startswith("__sync_") or cn.startswith("atomic_"):
                    return ("atomic", cn)
                if cn.startswith("pthread_mutex_"):
                    return ("mutexOp", cn)
                return ("addrTo", cn)
            return ("addrTo", "")
        if k == "CStyleCastExpr" and p.get("castKind") == "ToVoid":
            return None
        return ("addrTo", "?" + str(k))

    def walk_body(n, fn, stack, acc):
        if not isinstance(n, dict):
            return
        k = n.get("kind")
        stack.append(n)
        if k == "VarDecl" and n.get("storageClass") == "static":
            kk = add_def(n, fn)
            tracked[n["id"]] = kk
        if k == "DeclRefExpr" and n.get("referencedDecl", {}).get("id") in tracked:
            c = classify(stack)
            if c:
                acc.append((tracked[n["referencedDecl"]["id"]], c))
        for c in n.get("inner", []):
            walk_body(c, fn, stack, acc)
        stack.pop()

    def top_statements(body):
        out = []
        for s in body.get("inner", []):
            if s.get("kind") == "CompoundStmt":
                out += top_statements(s)
            else:
                out.append(s)
        return out

    for n in root.get("inner", []):
        if n.get("kind") != "FunctionDecl" or not _in_repo(n.get("_file"), impl_dir):
            continue
        body = [c for c in n.get("inner", []) if c.get("kind") == "CompoundStmt"]
        if not body:
            continue
        fn = n["name"]
        acc = []
        walk_body(body[0], fn, [], acc)
        top = []
        stmts = top_statements(body[0])
        for si, s in enumerate(stmts):
            st = {"assign": None, "call": None, "reads": [], "calls": [], "returns": False}
            if s.get("kind") == "BinaryOperator" and s.get("opcode") == "=":
                r, field = lvalue_root(s["inner"][0])
                if r is not None:
                    st["assign"] = (tracked[r["referencedDecl"]["id"]], field)
            elif s.get("kind") == "CallExpr":
                st["call"] = callee_name(s)
            # everything the statement reads (in any nested position), every function it calls, and whether it can return
            sacc = []
            walk_body(s, fn, [], sacc)
            for kk, c in sacc:
                if c[0] in ("read", "rmw", "addrTo"):
                    st["reads"].append((kk, c[1] if c[0] == "read" else ""))
            calls, rets = [], []
            _find_all(s, lambda x: x.get("kind") == "CallExpr", calls)
            st["calls"] = [callee_name(c) for c in calls]
            _find_all(s, lambda x: x.get("kind") in ("ReturnStmt", "GotoStmt"), rets)
            st["returns"] = bool(rets) and si + 1 < len(stmts)
            top.append(st)
        funcs[fn] = {"static": n.get("storageClass") == "static", "top": top, "accesses": acc,
                     "file": _relfile(n["_file"], impl_dir)}
    # keys are tuples: make them JSON/pickle friendly
    return {"defs": defs, "funcs": funcs}


# --------------------------------------------------------------------------
# merge across translation units
# --------------------------------------------------------------------------

def collect(impl):
    IMPL_DIR[0] = impl["dir"]
    incs = [os.path.join(vlib.REPO, "include"), os.path.join(vlib.REPO, "src"), impl["dir"]]
    tus = tu_list()
    with multiprocessing.Pool(min(vlib.NPROC, len(tus)), initializer=_init, initargs=(impl["dir"],)) as pool:
        res = pool.map(dump_tu, [(t, incs) for t in tus])
    defs = {}
    per_tu = {}
    for rel, data, err in res:
        if data is None:
            raise Untranslatable("clang failed on %s: %s" % (rel, err))
        per_tu[rel] = data
        for k, d in data["defs"].items():
            if k in defs and defs[k]["file"] != d["file"]:
                raise Untranslatable("two definitions of %s" % (k,))
            defs.setdefault(k, d)
    # functions: static ones are per TU; external ones global (inline functions of headers appear in several TUs, identical)
    glob = {}
    for rel, data in per_tu.items():
        for fn, f in data["funcs"].items():
            if not f["static"]:
                glob.setdefault(fn, f)

    accesses = {k: set() for k in defs}
    for rel, data in per_tu.items():
        for fn, f in data["funcs"].items():
            for k, c in f["accesses"]:
                if k in accesses:
                    accesses[k].add((fn, c[0], c[1] if c[0] in ("atomic", "mutexOp", "addrTo") else ""))
                elif k[0] == "" and k[1] == "":
                    raise Untranslatable("access to %s which has no definition in the library sources" % k[2]) \
                        if False else None

    # must-assign sets and reads-before-writes
    memo, memo_r = {}, {}

    def lookup(rel, fn):
        f = per_tu[rel]["funcs"].get(fn) if rel else None
        if f is None:
            f = glob.get(fn)
            rel2 = None
            if f is not None:
                for r, data in per_tu.items():
                    if data["funcs"].get(fn) is f:
                        rel2 = r
            rel = rel2
        return rel, f

    def must_assign(rel, fn, depth=0):
        """dict key -> set(fields) ('' = whole variable) assigned on EVERY path through fn: plain top-level `=` statements and
        top-level calls, up to the first statement that can leave the function early."""
        rel, f = lookup(rel, fn)
        if f is None or depth > 6:
            return {}
        mk = (rel, fn)
        if mk in memo:
            return memo[mk]
        memo[mk] = {}
        out = {}
        for t in f["top"]:
            if t["returns"]:
                break
            if t["assign"]:
                out.setdefault(t["assign"][0], set()).add(t["assign"][1] or "")
            elif t["call"]:
                for k, fs in must_assign(rel, t["call"], depth + 1).items():
                    out.setdefault(k, set()).update(fs)
        memo[mk] = out
        return out

    def covered(k, field, assigned):
        fs = assigned.get(k, set())
        fields = defs[k]["fields"] if k in defs else []
        return "" in fs or (field and field in fs) or (bool(fields) and set(fields) <= fs)

    def exposed_reads(rel, fn, depth=0):
        """variables fn may read before it has assigned them (statement order; reads in nested positions and in callees count;
        only unconditional top-level assignments protect later reads)"""
        rel, f = lookup(rel, fn)
        if f is None or depth > 6:
            return set()
        mk = (rel, fn)
        if mk in memo_r:
            return memo_r[mk]
        memo_r[mk] = set()
        out, assigned, uncond = set(), {}, True
        for t in f["top"]:
            for k, field in t["reads"]:
                if not covered(k, field, assigned):
                    out.add(k)
            for cn in t["calls"]:
                for k in exposed_reads(rel, cn, depth + 1):
                    if not covered(k, None, assigned):
                        out.add(k)
            if uncond:
                if t["assign"]:
                    assigned.setdefault(t["assign"][0], set()).add(t["assign"][1] or "")
                elif t["call"]:
                    for k, fs in must_assign(rel, t["call"], depth + 1).items():
                        assigned.setdefault(k, set()).update(fs)
            if t["returns"]:
                uncond = False
        memo_r[mk] = out
        return out

    reset_by = {k: set() for k in defs}
    read_first = {k: set() for k in defs}
    for rel, data in per_tu.items():
        for fn in data["funcs"]:
            for k, fs in must_assign(rel, fn).items():
                if k not in defs:
                    continue
                fields = defs[k]["fields"]
                if "" in fs or (fields and set(fields) <= fs):
                    reset_by[k].add(fn)
            for k in exposed_reads(rel, fn):
                if k in defs:
                    read_first[k].add(fn)
    # emitted: only the functions that matter for the classification (the variable's own resetters and the per-trial
    # initialisation entry points); the full sets run to hundreds of names through the assert -> logger path
    for k in defs:
        defs[k]["read_first"] = {f for f in read_first[k] if f in reset_by[k] or f in TRIAL_INIT}
    return defs, accesses, reset_by, per_tu


def _init(d):
    IMPL_DIR[0] = d


# --------------------------------------------------------------------------
# the dispenser of src/cimba.c
# --------------------------------------------------------------------------

def stable_hash(n):
    """hash of an AST without node ids, pointers and locations"""
    def clean(x):
        if isinstance(x, dict):
            return {k: clean(v) for k, v in x.items() if k not in ("id", "loc", "range", "previousDecl", "mangledName")
                    and not k.startswith("_") and not (isinstance(v, str) and re.match(r"^0x[0-9a-f]+$", v))}
        if isinstance(x, list):
            return [clean(v) for v in x]
        return x
    return hashlib.sha256(json.dumps(clean(n), sort_keys=True).encode()).hexdigest()[:16]


def _strip(e):
    while e.get("kind") in ("ParenExpr", "ImplicitCastExpr", "CStyleCastExpr", "ConstantExpr"):
        e = e["inner"][0]
    return e


def _nat_expr(e, env):
    """C unsigned / pointer arithmetic as an unbounded Nat expression (no wrap-around: the array exists in memory)."""
    e = _strip(e)
    k = e.get("kind")
    if k == "IntegerLiteral":
        return e["value"]
    if k == "DeclRefExpr":
        n = e["referencedDecl"]["name"]
        if n in env:
            return env[n]
        raise Untranslatable("dispenser: unknown name %s" % n)
    if k == "BinaryOperator" and e["opcode"] in ("+", "*", "-"):
        return "(%s %s %s)" % (_nat_expr(e["inner"][0], env), e["opcode"], _nat_expr(e["inner"][1], env))
    raise Untranslatable("dispenser: expression kind %s" % k)


def _bool_expr(e, env):
    e = _strip(e)
    if e.get("kind") == "BinaryOperator" and e["opcode"] in ("<", ">", "<=", ">=", "==", "!="):
        lop = {"<": "<", ">": ">", "<=": "≤", ">=": "≥", "==": "=", "!=": "≠"}[e["opcode"]]
        return "(decide (%s %s %s))" % (_nat_expr(e["inner"][0], env), lop, _nat_expr(e["inner"][1], env))
    if e.get("kind") == "BinaryOperator" and e["opcode"] in ("&&", "||"):
        return "(%s %s %s)" % (_bool_expr(e["inner"][0], env), e["opcode"], _bool_expr(e["inner"][1], env))
    if e.get("kind") == "UnaryOperator" and e["opcode"] == "!":
        return "(!%s)" % _bool_expr(e["inner"][0], env)
    if e.get("kind") in ("CXXBoolLiteralExpr",):
        return "true" if e.get("value") else "false"
    raise Untranslatable("dispenser: condition kind %s" % e.get("kind"))


def _find_all(n, pred, out, stop=None):
    if isinstance(n, dict):
        if pred(n):
            out.append(n)
            if stop:
                return
        for c in n.get("inner", []):
            _find_all(c, pred, out, stop)


def _is_loop(n):
    if n.get("kind") in ("WhileStmt", "ForStmt"):
        return True
    if n.get("kind") == "DoStmt":
        cond = _strip(n["inner"][1])
        return not (cond.get("kind") == "IntegerLiteral" and cond.get("value") == "0")
    return False


def _refname(e):
    e = _strip(e)
    if e.get("kind") == "DeclRefExpr":
        return e["referencedDecl"]["name"]
    return None


def _is_true(e):
    e = _strip(e)
    return (e.get("kind") == "CXXBoolLiteralExpr" and e.get("value")) or \
        (e.get("kind") == "IntegerLiteral" and e.get("value") not in ("0",))


def _static_initialiser(path, name, incs):
    """literal a file-scope variable is initialised with (0 when it has no initialiser: static storage is zeroed)"""
    for doc in c2lean.clang_ast(path, name, incs):
        if doc.get("kind") == "VarDecl" and doc.get("name") == name:
            ini = [c for c in doc.get("inner", []) if "Comment" not in c.get("kind", "") and not c.get("kind", "").endswith("Attr")]
            if not ini:
                return "0"
            e = _strip(ini[0])
            if e.get("kind") == "IntegerLiteral":
                return e["value"]
            raise Untranslatable("static initialiser of %s is not a literal" % name)
    raise Untranslatable("definition of %s not found" % name)


def dispenser(incs):
    _SRC.clear()                # source text cache of atomic_name: never across two states of the tree
    path = os.path.join(vlib.REPO, "src", "cimba.c")
    G = {"next": "cmg_next_trial_idx", "arr": "cmg_experiment_arr", "sz": "cmg_trial_struct_sz",
         "func": "cmg_trial_func", "total": "cmg_total_trials"}
    # ---- worker ------------------------------------------------------------
    w = c2lean.find_function(c2lean.clang_ast(path, "worker_thread_func", incs), "worker_thread_func")
    loops = []
    _find_all(w, _is_loop, loops)
    if len(loops) != 1:
        raise Untranslatable("worker_thread_func: expected exactly one loop, found %d" % len(loops))
    lp = loops[0]
    # accepted spellings of the endless loop: while (true) / while (1), for (;;), do { ... } while (true)
    if lp["kind"] == "WhileStmt" and _is_true(lp["inner"][0]):
        lbody = lp["inner"][1]
    elif lp["kind"] == "ForStmt" and all(not c or c.get("kind") is None for c in lp["inner"][:4]):
        lbody = lp["inner"][4]
    elif lp["kind"] == "ForStmt" and all(not c or c.get("kind") is None for c in lp["inner"][:2] + lp["inner"][3:4]) \
            and lp["inner"][2] and _is_true(lp["inner"][2]):
        lbody = lp["inner"][4]
    elif lp["kind"] == "DoStmt" and _is_true(lp["inner"][1]):
        lbody = lp["inner"][0]
    else:
        raise Untranslatable("worker_thread_func: the loop has a condition of its own (expected an endless loop left by `break` "
                             "after the index has been fetched)")

    def flat(n):
        out = []
        for c in (n.get("inner", []) if n.get("kind") == "CompoundStmt" else [n]):
            if c.get("kind") == "CompoundStmt":
                out += flat(c)
            elif c.get("kind") != "NullStmt":
                out.append(c)
        return out
    body = flat(lbody)
    d = {"mode": None, "incr": None, "order": None, "stop": None, "addr": None, "sets_idx": False}
    env = {G["total"]: "total", G["arr"]: "base", G["sz"]: "sz"}      # C name -> Lean expression (globals and pure locals)
    declared = set()
    idx = None                 # C name of the local holding the fetched index
    pending_load = None        # loadThenStore: local that holds the plain load, store not yet seen
    called = False

    def fetch_of(e):
        """('atomic', incr, order) if e is __atomic_fetch_add(&next, k, order); ('load',) if e is a plain read of next"""
        e = _strip(e)
        if e.get("kind") == "AtomicExpr":
            if atomic_name(e, path) != "__atomic_fetch_add" or len(e["inner"]) != 3:
                raise Untranslatable("worker loop: atomic operation %s is not __atomic_fetch_add" % atomic_name(e, path))
            ptr, order, val = e["inner"]           # clang's child order: pointer, memory order, operand
            a0 = _strip(ptr)
            if not (a0.get("kind") == "UnaryOperator" and a0.get("opcode") == "&" and _refname(a0["inner"][0]) == G["next"]):
                raise Untranslatable("worker loop: __atomic_fetch_add is not applied to &%s" % G["next"])
            o = _strip(order)
            return ("atomic", _nat_expr(val, {}), o.get("value") if o.get("kind") == "IntegerLiteral" else None)
        if _refname(e) == G["next"]:
            return ("load",)
        return None

    def mentions_next(n):
        hits = []
        _find_all(n, lambda x: x.get("kind") == "DeclRefExpr" and x.get("referencedDecl", {}).get("name") == G["next"], hits)
        return bool(hits)

    def bind(name, e):
        """local `name` gets the value of expression e"""
        nonlocal idx, pending_load
        f = fetch_of(e)
        if f is not None:
            if idx is not None or pending_load is not None:
                raise Untranslatable("worker loop: the shared counter is accessed more than once per iteration")
            if d["stop"] is not None:
                raise Untranslatable("worker loop: the bound is tested before the index is fetched")
            if f[0] == "atomic":
                idx, d["mode"], d["incr"], d["order"] = name, "atomicFetchAdd", f[1], f[2]
                env[name] = "idx"
            else:
                pending_load = name
            return
        if mentions_next(e):
            raise Untranslatable("worker loop: unexpected use of %s" % G["next"])
        env[name] = _nat_expr(e, env)           # a pure local (hoisted array base, element pointer, ...)

    def call_with_elem(c):
        """the Lean address expression if c is `(*cmg_trial_func)(p)` / `cmg_trial_func(p)`, else None"""
        cs = flat(c) if c.get("kind") == "CompoundStmt" else [c]
        calls = [x for x in cs if _strip(x).get("kind") == "CallExpr"]
        if len(calls) != 1 or len(cs) != 1:
            return None
        c = _strip(calls[0])
        if len(c["inner"]) != 2:
            return None
        callee = _strip(c["inner"][0])
        if callee.get("kind") == "UnaryOperator" and callee.get("opcode") == "*":
            callee = _strip(callee["inner"][0])
        if _refname(callee) != G["func"]:
            return None
        try:
            return _nat_expr(c["inner"][1], env)
        except Untranslatable:
            return None

    for s in body:
        k = s.get("kind")
        if called:
            raise Untranslatable("worker loop: statement(s) after the call of the trial function")
        if k == "DeclStmt":
            for v in s["inner"]:
                if v.get("kind") != "VarDecl":
                    raise Untranslatable("worker loop: declaration kind %s" % v.get("kind"))
                ini = [c for c in v.get("inner", []) if "Comment" not in c.get("kind", "") and not c.get("kind", "").endswith("Attr")]
                declared.add(v["name"])
                if ini:
                    bind(v["name"], ini[0])
        elif k == "BinaryOperator" and s.get("opcode") == "=":
            lhs = _refname(s["inner"][0])
            if lhs in declared:
                bind(lhs, s["inner"][1])
            elif lhs == G["next"]:
                # second half of a non-atomic fetch: next = <loaded> + k
                rhs = _strip(s["inner"][1])
                if pending_load is None or not (rhs.get("kind") == "BinaryOperator" and rhs["opcode"] == "+"
                                                and _refname(rhs["inner"][0]) in (pending_load, G["next"])):
                    raise Untranslatable("worker loop: store to the counter is not `loaded index + k` right after a plain load")
                if d["stop"] is not None:
                    raise Untranslatable("worker loop: the bound is tested between the load and the store of the counter")
                idx, d["mode"], d["incr"] = pending_load, "loadThenStore", _nat_expr(rhs["inner"][1], {})
                env[idx] = "idx"
                pending_load = None
            elif lhs == "cmi_logger_trial_idx":
                if idx is None or _nat_expr(s["inner"][1], env) != "idx":
                    raise Untranslatable("worker loop: cmi_logger_trial_idx is assigned something else than the fetched index")
                d["sets_idx"] = True
            else:
                raise Untranslatable("worker loop: assignment to %s" % lhs)
        elif k == "IfStmt":
            parts = s["inner"]
            brk = []
            _find_all(parts[1], lambda n: n.get("kind") == "BreakStmt", brk)
            if brk:
                # the bound test: `if (<stop>) break;`
                if flat(parts[1]) != brk or len(brk) != 1 or s.get("hasElse"):
                    raise Untranslatable("worker loop: the stop branch is not a single `break`")
                if idx is None:
                    raise Untranslatable("worker loop: the bound is tested before the index is fetched")
                if d["stop"] is not None:
                    raise Untranslatable("worker loop: two stop conditions")
                if mentions_next(parts[0]):
                    raise Untranslatable("worker loop: the stop condition reads %s again instead of testing the fetched index" % G["next"])
                d["stop"] = _bool_expr(parts[0], env)
            else:
                # `if (func != NULL) call else <per-trial function>`, or the same with the test inverted and the branches swapped
                cond = _strip(parts[0])
                neg = False
                while cond.get("kind") == "UnaryOperator" and cond.get("opcode") == "!":
                    neg = not neg
                    cond = _strip(cond["inner"][0])
                if cond.get("kind") == "BinaryOperator" and cond["opcode"] in ("!=", "==") and G["func"] in (
                        _refname(cond["inner"][0]), _refname(cond["inner"][1])):
                    common_is_then = (cond["opcode"] == "!=") != neg
                elif _refname(cond) == G["func"]:
                    common_is_then = not neg
                else:
                    raise Untranslatable("worker loop: unexpected `if` (neither the bound test nor the test of %s)" % G["func"])
                branch = parts[1] if common_is_then else (parts[2] if s.get("hasElse") else None)
                addr = call_with_elem(branch) if branch is not None else None
                if addr is None:
                    raise Untranslatable("worker loop: the common trial function is not called with the element pointer")
                d["addr"] = addr
                called = True
        elif _strip(s).get("kind") == "CallExpr":
            addr = call_with_elem(s)
            if addr is None:
                raise Untranslatable("worker loop: the trial function is not called with the element pointer")
            d["addr"] = addr
            called = True
        else:
            raise Untranslatable("worker loop: statement kind %s" % k)
    if idx is None or d["mode"] is None:
        raise Untranslatable("worker loop: no fetch of %s found" % G["next"])
    if d["stop"] is None:
        raise Untranslatable("worker loop: the fetched index is not tested against the number of trials before the call")
    if not called:
        raise Untranslatable("worker loop: the trial function is not called")
    d["worker_ast"] = stable_hash(w)

    # ---- cimba_run_experiment ------------------------------------------------
    r = c2lean.find_function(c2lean.clang_ast(path, "cimba_run_experiment", incs), "cimba_run_experiment")
    params = [c["name"] for c in r.get("inner", []) if c.get("kind") == "ParmVarDecl"]
    if len(params) != 4:
        raise Untranslatable("cimba_run_experiment: expected four parameters")
    p_arr, p_n, p_sz, p_fn = params
    body = [c for c in r["inner"] if c.get("kind") == "CompoundStmt"][0]["inner"]
    seen = {}
    loops = []
    ncores = None
    for s in body:
        if s.get("kind") == "BinaryOperator" and s.get("opcode") == "=" and _refname(s["inner"][0]) in G.values():
            if loops:
                raise Untranslatable("cimba_run_experiment: a shared control variable is written after the threads were started")
            rhs = _strip(s["inner"][1])
            seen[_refname(s["inner"][0])] = rhs.get("value") if rhs.get("kind") == "IntegerLiteral" else _refname(rhs)
        elif s.get("kind") == "DeclStmt":
            v = s["inner"][0]
            ini = [c for c in v.get("inner", []) if "Comment" not in c.get("kind", "")]
            if ini and _strip(ini[0]).get("kind") == "CallExpr" and _refname(_strip(ini[0])["inner"][0]) == "cmi_cpu_cores":
                ncores = v["name"]
        elif s.get("kind") == "ForStmt":
            loops.append(s)
    want = {G["next"]: None, G["arr"]: p_arr, G["sz"]: p_sz, G["func"]: p_fn, G["total"]: p_n}
    d["reset_each_run"] = G["next"] in seen
    if not d["reset_each_run"]:
        # the counter is not stored by cimba_run_experiment: its value at the start of a run is the static initialiser for
        # the first experiment of a process and whatever the previous experiment left for every later one
        seen[G["next"]] = _static_initialiser(path, G["next"], incs)
    for g, src in want.items():
        if g not in seen:
            raise Untranslatable("cimba_run_experiment: %s is not initialised" % g)
        if src is not None and seen[g] != src:
            raise Untranslatable("cimba_run_experiment: %s is initialised from %s, expected parameter %s" % (g, seen[g], src))
    d["init_next"] = seen[G["next"]]
    if not (d["init_next"] or "").isdigit():
        raise Untranslatable("cimba_run_experiment: the counter is not initialised with a literal")
    if ncores is None or len(loops) != 2:
        raise Untranslatable("cimba_run_experiment: expected `ncores = cmi_cpu_cores()` and two for loops (create, join)")

    def loop_shape(f, callee, arg_is_addr):
        init, _, cond, inc, lbody = f["inner"]
        if not (init.get("kind") == "DeclStmt" and init["inner"][0].get("kind") == "VarDecl"):
            raise Untranslatable("for loop: no induction variable declaration")
        v = init["inner"][0]["name"]
        start = _strip(init["inner"][0]["inner"][0])
        if start.get("kind") != "IntegerLiteral":
            raise Untranslatable("for loop: start is not a literal")
        inc = _strip(inc)
        if not (inc.get("kind") == "UnaryOperator" and inc.get("opcode") == "++" and _refname(inc["inner"][0]) == v):
            raise Untranslatable("for loop: step is not ++")
        calls = []
        _find_all(lbody, lambda n: n.get("kind") == "CallExpr", calls)
        if len(calls) != 1 or _refname(calls[0]["inner"][0]) != callee:
            raise Untranslatable("for loop: body is not one call of %s" % callee)
        a = _strip(calls[0]["inner"][1])
        if arg_is_addr:
            if not (a.get("kind") == "UnaryOperator" and a.get("opcode") == "&"):
                raise Untranslatable("pthread_create: first argument is not &threads[i]")
            a = _strip(a["inner"][0])
        if not (a.get("kind") == "ArraySubscriptExpr" and _refname(a["inner"][1]) == v):
            raise Untranslatable("%s: thread handle is not threads[<induction variable>]" % callee)
        arr = _refname(a["inner"][0])
        extra = None
        if callee == "pthread_create":
            extra = _refname(calls[0]["inner"][3])
        return start["value"], _bool_expr(cond, {v: "k", ncores: "W"}), arr, extra
    s0, c0, arr0, startfn = loop_shape(loops[0], "pthread_create", True)
    s1, c1, arr1, _ = loop_shape(loops[1], "pthread_join", False)
    if startfn != "worker_thread_func":
        raise Untranslatable("pthread_create does not start worker_thread_func")
    if arr0 != arr1:
        raise Untranslatable("create and join loops use different thread arrays")
    d.update({"spawn_start": s0, "spawn_cond": c0, "join_start": s1, "join_cond": c1, "run_ast": stable_hash(r)})
    return d


# --------------------------------------------------------------------------
# Lean text
# --------------------------------------------------------------------------

def lstr(s):
    return '"' + s.replace("\\", "\\\\").replace('"', '\\"') + '"'


def generate(impl):
    """Returns ((inventory_text, dispenser_text), info). Raises c2lean.Untranslatable."""
    incs = [os.path.join(vlib.REPO, "include"), os.path.join(vlib.REPO, "src"), impl["dir"]]
    defs, accesses, reset_by, per_tu = collect(impl)
    disp = dispenser(incs)
    if disp["sets_idx"]:
        k = ("", "", "cmi_logger_trial_idx")
        if k in reset_by:
            reset_by[k].add("worker_thread_func")
    keys = sorted(defs, key=lambda k: (defs[k]["file"], defs[k]["function"], defs[k]["name"]))
    out = ["/- GENERATED by tools/gen_tlsinv.py from /repo's current sources on every run. Do not edit. -/",
           "import CimbaModel.Experiment.Types", "", "namespace CimbaModel.Generated", "open CimbaModel.Experiment", ""]
    names = []
    for i, k in enumerate(keys):
        d = defs[k]
        acc = sorted(accesses[k])

        def ak(a):
            fn, kind, extra = a
            if kind in ("atomic", "mutexOp", "addrTo"):
                return "⟨%s, .%s %s⟩" % (lstr(fn), kind, lstr(extra))
            return "⟨%s, .%s⟩" % (lstr(fn), kind)
        out.append("def inv%d : Entry :=\n  { file := %s, function := %s, name := %s, isThreadLocal := %s, isConst := %s,\n"
                   "    type := %s,\n    accesses := [%s],\n    resetBy := [%s],\n    readFirstBy := [%s] }" % (
                       i, lstr(d["file"]), lstr(d["function"]), lstr(d["name"]), "true" if d["tls"] else "false",
                       "true" if d["const"] else "false", lstr(d["type"]), ", ".join(ak(a) for a in acc),
                       ", ".join(lstr(f) for f in sorted(reset_by[k])),
                       ", ".join(lstr(f) for f in sorted(d["read_first"]))))
        names.append("inv%d" % i)
    out.append("")
    out.append("/-- every variable with static storage duration defined in the library's sources -/")
    out.append("def tlsInventory : List Entry :=\n  [%s]" % ", ".join(names))
    out.append("")
    out.append("end CimbaModel.Generated")
    inv_text = "\n".join(out) + "\n"

    dt = ["/- GENERATED by tools/gen_tlsinv.py from src/cimba.c (worker_thread_func AST %s, cimba_run_experiment AST %s)."
          " Do not edit. -/" % (disp["worker_ast"], disp["run_ast"]),
          "import CimbaModel.Experiment.Types", "", "namespace CimbaModel.Generated", "open CimbaModel.Experiment", "",
          "/-- how worker_thread_func obtains the next trial index -/",
          "def fetchMode : FetchMode := .%s" % disp["mode"],
          "/-- the amount added to the shared counter per fetch -/",
          "def fetchIncr : Nat := %s" % disp["incr"],
          "/-- value cimba_run_experiment stores in the counter before the threads are created -/",
          "def initNext : Nat := %s" % disp["init_next"],
          "/-- cimba_run_experiment stores `initNext` in the counter at the start of EVERY call (false: only the static initialiser,\n"
          "    so a later experiment of the same process starts from what the previous one left) -/",
          "def resetsCounterEachRun : Bool := %s" % ("true" if disp["reset_each_run"] else "false"),
          "/-- condition under which the worker leaves its loop instead of running trial `idx` -/",
          "def stopWhen (idx total : Nat) : Bool := %s" % disp["stop"],
          "/-- address of the element passed to the trial function -/",
          "def elemAddr (base idx sz : Nat) : Nat := %s" % disp["addr"],
          "/-- `for (k = spawnStart; spawnCond k W; k++) pthread_create(&threads[k], .., worker_thread_func, ..)` -/",
          "def spawnStart : Nat := %s" % disp["spawn_start"],
          "def spawnCond (k W : Nat) : Bool := %s" % disp["spawn_cond"],
          "/-- `for (k = joinStart; joinCond k W; k++) pthread_join(threads[k], NULL)` -/",
          "def joinStart : Nat := %s" % disp["join_start"],
          "def joinCond (k W : Nat) : Bool := %s" % disp["join_cond"],
          "/-- the worker stores the index in cmi_logger_trial_idx before calling the trial function -/",
          "def setsLoggerTrialIdx : Bool := %s" % ("true" if disp["sets_idx"] else "false"),
          "", "end CimbaModel.Generated"]
    disp_text = "\n".join(dt) + "\n"
    info = {"variables": len(keys), "thread_local": sum(1 for k in keys if defs[k]["tls"]),
            "mutable_not_thread_local": [defs[k]["name"] for k in keys if not defs[k]["tls"] and not defs[k]["const"]],
            "translation_units": len(per_tu), "worker_ast": disp["worker_ast"], "run_ast": disp["run_ast"],
            "fetch_mode": disp["mode"],
            "inventory_hash": hashlib.sha256(inv_text.encode()).hexdigest()[:16]}
    table = [{"file": defs[k]["file"], "function": defs[k]["function"], "name": defs[k]["name"], "tls": defs[k]["tls"],
              "const": defs[k]["const"], "resetBy": sorted(reset_by[k]), "readFirstBy": sorted(defs[k]["read_first"]),
              "accesses": sorted(accesses[k])} for k in keys]
    return (inv_text, disp_text), info, table


def run(impl):
    (inv_text, disp_text), info, table = generate(impl)
    c1 = vlib.write_if_changed(os.path.join(vlib.GEN, "TlsInventory.lean"), inv_text)
    c2 = vlib.write_if_changed(os.path.join(vlib.GEN, "Dispenser.lean"), disp_text)
    return info, table, (c1 or c2)


if __name__ == "__main__":
    impl = vlib.build_impl("rel")
    (a, b), info, table = generate(impl)
    print(b)
    for t in table:
        print(t["file"], t["function"], t["name"], "TLS" if t["tls"] else "", "const" if t["const"] else "",
              "reset:" + ",".join(t["resetBy"]), t["accesses"])
    print(info)
