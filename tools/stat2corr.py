"""C18 correspondence: real cmb_dataset / cmb_timeseries (harness/statdrv2.c) vs the Lean model (stat2main).

A *case* is a list of protocol lines (see harness/statdrv2.c).  Both drivers run the same lines; the
canonical result lines are compared op by op:
  exact      every number as an exact rational (C prints %.17g, Lean prints p/q)
  fivenum    the library only prints "%#8.4g": the model's exact value is formatted the same way
  acf*, tacf under tolerance ACF_TOL (labelled test: IEEE rounding is not modelled)
When the implementation's answer differs from the model's (or the C side dies), Monitor.C18 is evaluated
on the implementation's own answer (`stat2main` j-lines) to tell a property violation from a divergence.
"""
import hashlib
import math
import os
import random
import re
from fractions import Fraction

import vlib

CORPUS = os.path.join(vlib.VERIF, "corpus", "stats2")
ACF_TOL = 1e-9
ACF_REL_TOL = 1e-6      # for the transformed half of `acfrel` (offsets up to 1e7 times the spread: cancellation in m1)
WRAP = ["-Wl,--wrap=malloc,--wrap=free"]


def init_size():
    """CMI_DATASET_INIT_SZ as the current source has it."""
    txt = open(os.path.join(vlib.REPO, "src", "cmi_dataset.h")).read()
    m = re.search(r"#define\s+CMI_DATASET_INIT_SZ\s+\(?\s*(\d+)", txt)
    if not m:
        raise RuntimeError("CMI_DATASET_INIT_SZ not found in src/cmi_dataset.h")
    return int(m.group(1))


# --------------------------------------------------------------------------- canonical forms

def num(tok):
    """exact rational of a numeric token, or the token itself"""
    try:
        if "/" in tok:
            return Fraction(tok)
        if re.fullmatch(r"-?\d+", tok):
            return Fraction(int(tok))
        f = float(tok)
        if math.isnan(f) or math.isinf(f):
            return tok.lower()
        return Fraction(f)
    except (ValueError, ZeroDivisionError):
        return tok


def canon_tok(tok):
    if "=" in tok:
        k, v = tok.split("=", 1)
        return (k, canon_tok(v))
    if ":" in tok:
        return tuple(num(p) for p in tok.split(":"))
    return num(tok)


def canon(line):
    return [canon_tok(t) for t in line.split()]


def frac_str(f):
    if isinstance(f, Fraction):
        return str(f.numerator) if f.denominator == 1 else "%d/%d" % (f.numerator, f.denominator)
    return str(f)


def fmt4(f):
    """what fprintf("%#8.4g") shows for an exactly representable value"""
    return ("%#.4g" % float(f)).strip()


def compare_line(op, c_line, m_line):
    """None if the implementation's line agrees with the model's, else a short reason."""
    c, m = canon(c_line), canon(m_line)
    if not c or not m or c[0] != m[0]:
        return "different result kind"
    tag = c[0]
    if tag in ("fivenum", "tfivenum"):
        if len(m) != 6 or any(not isinstance(x, Fraction) for x in m[1:]):
            return "model has no value" if c != m else None
        want = [fmt4(x) for x in m[1:]]
        got = c_line.split()[1:]
        return None if got == want else "printed %s, model %s" % (got, want)
    if tag in ("acf", "tacf", "acfrel"):
        if len(c) != len(m):
            return "different length"
        second = False
        for a, b in zip(c[1:], m[1:]):
            if a == "|" or b == "|":
                second = True
                if a != b:
                    return "differs"
                continue
            tol = ACF_REL_TOL if (tag == "acfrel" and second) else ACF_TOL
            if isinstance(a, Fraction) and isinstance(b, Fraction):
                if abs(float(a) - float(b)) > tol * max(1.0, abs(float(b))):
                    return "differs beyond tolerance %g: %r vs %r" % (tol, float(a), float(b))
            elif a != b:
                return "differs"
        return None
    if tag in ("hist", "thist"):
        # binsize is a rounded quotient in the implementation; it is determined by nb, lo, hi (compared exactly)
        cb = [t for t in c if isinstance(t, tuple) and t[0] == "binsize"]
        mb = [t for t in m if isinstance(t, tuple) and t[0] == "binsize"]
        if cb and mb and isinstance(cb[0][1], Fraction) and isinstance(mb[0][1], Fraction):
            if abs(cb[0][1] - mb[0][1]) > abs(mb[0][1]) * Fraction(1, 10 ** 12):
                return "binsize differs"
            c = [t for t in c if t not in cb]
            m = [t for t in m if t not in mb]
    return None if c == m else "differs"


# --------------------------------------------------------------------------- running

def clean(lines):
    return [l.strip() for l in lines if l.strip() and not l.strip().startswith("#")]


def run_model(lean_exe, lines, init):
    rc, out, err = vlib.run_driver(lean_exe, "cfg %d\n" % init + "\n".join(lines) + "\n")
    o = out.splitlines()
    if rc != 0 or len(o) != len(lines) + 1:
        raise RuntimeError("model driver failed rc=%d: %s %s" % (rc, out[-300:], err[-300:]))
    return o[1:]


def run_impl(c_exe, lines, init):
    rc, out, err = vlib.run_driver(c_exe, "cfg %d\n" % init + "\n".join(lines) + "\n", timeout=300)
    o = out.splitlines()
    cfg_ok = bool(o) and o[0] == "cfg %d" % init
    return rc, o[1:], err, cfg_ok


def hist_exact(m_line, xs):
    """IEEE = exact for this histogram?  Replays the two double operations of the fill loop
    (`binsize = range / nb`, `(x - low) / binsize`) and compares the truncation with the exact one."""
    kv = dict(t for t in canon(m_line)[1:] if isinstance(t, tuple) and len(t) == 2 and isinstance(t[0], str))
    try:
        nb, lo, hi = kv["nb"], kv["lo"], kv["hi"]
    except KeyError:
        return False
    if not all(isinstance(v, Fraction) for v in (nb, lo, hi)) or hi <= lo or nb <= 0:
        return False
    flo, fhi = float(lo), float(hi)
    if Fraction(flo) != lo or Fraction(fhi) != hi:
        return False
    fbs = (fhi - flo) / float(nb)
    ebs = (hi - lo) / nb
    for x in xs:
        if x < lo or x > hi:
            continue
        fx = float(x)
        if Fraction(fx) != x or Fraction(fx - flo) != x - lo:
            return False
        if int((fx - flo) / fbs) != math.floor((x - lo) / ebs):
            return False
    return True


def acf_values(m_line):
    return [t for t in canon(m_line)[1:] if isinstance(t, Fraction)]


def filter_case(lines, model_out, san):
    """Drop query ops whose preconditions for an exact comparison do not hold (queries do not change
    state, so the rest of the case is unaffected).  Returns (kept lines, kept model lines, notes)."""
    keep_l, keep_m, notes = [], [], []
    xs, txs = [], []
    for l, m in zip(lines, model_out):
        w = l.split()
        op = w[0]
        drop = None
        if op == "dump":
            xs = [t for t in canon(m)[1:] if isinstance(t, Fraction)]
        elif op == "tdump":
            txs = [t[0] for t in canon(m)[1:] if isinstance(t, tuple)]
        elif op in ("hist", "thist"):
            data = xs if op == "hist" else txs[:-1]
            if "fault" in m or not hist_exact(m, data):
                drop = "hist-inexact"
        elif op in ("acf", "tacf"):
            if san and any(abs(a) > 1 for a in acf_values(m)):
                drop = "acf-unbounded(san)"     # known finding C18-acf-unbounded: debug assert
        elif op == "acfrel":
            a = acf_values(m)
            h = len(a) // 2
            if a[:h] != a[h:]:
                drop = "acf-threshold"          # known finding C18-acf-absolute-threshold
            elif san and any(abs(v) > 1 for v in a):
                drop = "acf-unbounded(san)"
        elif op == "corr":
            if "fault" in m:
                drop = "acf-unbounded"
        if drop:
            notes.append(drop)
        else:
            keep_l.append(l)
            keep_m.append(m)
    return keep_l, keep_m, notes


def judge_lines(lines, c_out):
    """Monitor.C18 queries for every property-relevant answer of the implementation."""
    q = []          # (index of op, description, j-line)
    xs, trip, before_sort, tbefore = None, None, None, None
    for i, (l, c) in enumerate(zip(lines, c_out)):
        w = l.split()
        op = w[0]
        toks = c.split()
        if not toks or toks[0] != op:
            continue
        body = toks[1:]
        if op == "dump":
            xs = body
            before_sort = body
        elif op == "tdump":
            trip = body
            tbefore = body
        elif op == "sort" and before_sort is not None:
            q.append((i, "sort", "jsort " + " ".join(before_sort) + " | " + " ".join(body)))
            xs = body
        elif op in ("tsortx",) and tbefore is not None:
            q.append((i, "tsortx", "jsort3 " + " ".join(tbefore) + " | " + " ".join(body)))
            trip = body
        elif op == "tsortt" and tbefore is not None:
            swap = lambda ts: " ".join(":".join([p.split(":")[1], p.split(":")[0], p.split(":")[2]]) for p in ts)
            q.append((i, "tsortt", "jsort3 " + swap(tbefore) + " | " + swap(body)))
            trip = body
        elif op == "copy" and xs is not None:
            cp = c.split("|", 1)[1].split() if "|" in c else None
            if cp != xs:
                q.append((i, "copy", None))
        elif op == "tcopy" and trip is not None:
            cp = c.split("|", 1)[1].split() if "|" in c else None
            if cp != trip:
                q.append((i, "tcopy", None))
        elif op == "median" and xs:
            q.append((i, "median", "jmedian %s | %s" % (body[0], " ".join(x + ":1" for x in xs))))
        elif op == "tmedian" and trip:
            q.append((i, "tmedian", "jmedian %s | %s" % (body[0], " ".join(xw(p) for p in trip))))
        elif op == "fivenum" and xs and len(body) == 5:
            q.append((i, "fivenum", "jfivenum %s | %s" % (" ".join(dec(b) for b in body), " ".join(x + ":1" for x in xs))))
        elif op == "tfivenum" and trip and len(body) == 5:
            q.append((i, "tfivenum", "jfivenum %s | %s" % (" ".join(dec(b) for b in body), " ".join(xw(p) for p in trip))))
        elif op in ("hist", "thist"):
            kv = dict(t.split("=", 1) for t in body if "=" in t)
            if "bins" in kv and ((op == "hist" and xs is not None) or (op == "thist" and trip is not None)):
                bins = [kv["bins"]] + [t for t in body[body.index("bins=" + kv["bins"]) + 1:]]
                data = [x + ":1" for x in xs] if op == "hist" else [xw(p) for p in (trip or [])[:-1]]
                q.append((i, op, "jhist %s %s %s | %s | %s" % (kv.get("nb"), dec(kv.get("lo")), dec(kv.get("hi")),
                                                          " ".join(dec(b) for b in bins), " ".join(data))))
    return q


def dec(tok):
    """a decimal / %.17g token as an exact p/q for the monitor"""
    v = num(tok)
    return frac_str(v) if isinstance(v, Fraction) else "0/0"


def xw(p):
    a = p.split(":")
    return dec(a[0]) + ":" + dec(a[2])


def monitor(lean_exe, lines, c_out):
    """[(op index, what, ok)] from Monitor.C18 on the implementation's answers."""
    qs = judge_lines(lines, c_out)
    res = []
    jl = [(i, what, j) for i, what, j in qs if j is not None]
    res += [(i, what, False) for i, what, j in qs if j is None]
    # shift / scale invariance (labelled test, tolerance ACF_REL_TOL): the implementation's coefficients of the
    # transformed data against its own coefficients of the original data.  Cases where the model itself says the
    # two differ (variance crossing the absolute threshold = known finding) never get here (filter_case).
    for i, (l, c) in enumerate(zip(lines, c_out)):
        if l.split()[0] == "acfrel" and c.startswith("acfrel") and "|" in c:
            a, b = c[len("acfrel"):].split("|", 1)
            av, bv = [num(t) for t in a.split()], [num(t) for t in b.split()]
            okv = len(av) == len(bv) and all(isinstance(x, Fraction) and isinstance(y, Fraction) and
                                              abs(float(x) - float(y)) <= ACF_REL_TOL * max(1.0, abs(float(x)))
                                              for x, y in zip(av, bv))
            res.append((i, "autocorrelation of the data mapped x -> scale*x + shift (second list) against that of the "
                           "original data (first list): not invariant; acfrel", okv))
    if jl:
        def conv(t):
            if t == "|":
                return t
            if ":" in t:
                return ":".join(dec(p) for p in t.split(":"))
            return dec(t)
        fixed = []
        for i, what, j in jl:
            w = j.split()
            fixed.append(" ".join([w[0]] + [conv(t) for t in w[1:]]))
        rc, out, err = vlib.run_driver(lean_exe, "\n".join(fixed) + "\n")
        o = out.splitlines()
        for (i, what, j), v in zip(jl, o):
            res.append((i, what, v.strip() == "judge ok"))
    return res


SAN_PAT = re.compile(r"AddressSanitizer|runtime error|LeakSanitizer|UndefinedBehaviorSanitizer")


def check_case(c_exe, lean_exe, lines, init, san=False):
    """Run one case.  Returns dict(ok, kind, op, detail, lines (as run), notes)."""
    lines = clean(lines)
    model = run_model(lean_exe, lines, init)
    lines, model, notes = filter_case(lines, model, san)
    rc, c_out, err, cfg_ok = run_impl(c_exe, lines, init)
    r = {"ok": True, "lines": lines, "notes": notes, "ops": len(lines)}
    if not cfg_ok:
        return dict(r, ok=False, kind="divergence", op="cfg", detail="CMI_DATASET_INIT_SZ read from the header (%d) is not what the library was compiled with" % init)
    first = None
    for i, (l, m) in enumerate(zip(lines, model)):
        if i >= len(c_out):
            first = (i, "no answer")
            break
        why = compare_line(l, c_out[i], m)
        if why:
            first = (i, why)
            break
    crashed = rc != 0 or len(c_out) < len(lines)
    if first is None and not crashed:
        if SAN_PAT.search(err):
            return dict(r, ok=False, kind="sanitizer", op=None, detail=err[-1500:])
        return r
    if crashed and (first is None or first[0] >= len(c_out)):
        i = len(c_out)
        what = "sanitizer report" if SAN_PAT.search(err) else ("assertion failure" if "Assert" in err else
                                                                ("no return within the time limit (killed by SIGALRM)" if rc in (-14, 124) else "crash (rc=%d)" % rc))
        tail = [x for x in err.splitlines() if x.strip()]
        key = [x for x in tail if "ERROR" in x or "Assert" in x or "runtime error" in x or re.match(r"\s*#[0-3] ", x)]
        return dict(r, ok=False, kind="abort", op=lines[i] if i < len(lines) else None, index=i,
                    detail="%s in the library on valid input at op '%s': %s" % (what, lines[i] if i < len(lines) else "?", " / ".join(k.strip() for k in key[:6])[:900]))
    i, why = first
    mon = monitor(lean_exe, lines, c_out)
    bad = [(j, what) for j, what, ok in mon if not ok]
    if bad:
        j, what = bad[0]
        return dict(r, ok=False, kind="violation", op=lines[j], index=j,
                    detail="Monitor.C18 rejects the implementation's %s: impl '%s', model '%s'" % (what, c_out[j][:300], model[j][:300]))
    return dict(r, ok=False, kind="divergence", op=lines[i], index=i,
                detail="impl '%s' vs model '%s' (%s); Monitor.C18 accepts the implementation's answers" % (c_out[i][:300], model[i][:300], why))


def case_hash(lines):
    return hashlib.sha256("\n".join(lines).encode()).hexdigest()[:16]


# --------------------------------------------------------------------------- generators

def rat(v):
    return frac_str(Fraction(v))


def values(rng, n, pattern):
    if pattern == "small":          # many duplicates
        return [rng.randint(-5, 5) for _ in range(n)]
    if pattern == "wide":
        return [rng.randint(-999, 999) for _ in range(n)]
    if pattern == "constant":
        c = rng.randint(-50, 50)
        return [c] * n
    if pattern == "sorted":
        return sorted(rng.randint(-99, 99) for _ in range(n))
    if pattern == "reverse":
        return sorted((rng.randint(-99, 99) for _ in range(n)), reverse=True)
    if pattern == "two":
        a, b = rng.randint(-9, 9), rng.randint(-9, 9)
        return [rng.choice((a, b)) for _ in range(n)]
    if pattern == "halves":
        return [Fraction(rng.randint(-40, 40), 2) for _ in range(n)]
    if pattern == "big":            # sorting / copying only cares about order
        return [rng.randint(-2 ** 40, 2 ** 40) for _ in range(n)]
    if pattern == "pipe":
        h = [rng.randint(0, 30) for _ in range(n)]
        h.sort()
        return h[::2] + h[1::2][::-1]
    raise ValueError(pattern)


PATTERNS = ["small", "wide", "constant", "sorted", "reverse", "two", "halves", "big", "pipe"]


def chunks(rng, xs):
    out, i = [], 0
    while i < len(xs):
        k = rng.choice((1, 2, 5, 17, len(xs)))
        out.append(xs[i:i + k])
        i += k
    return out


def hist_ops(rng, xs, tag, all_bins):
    ops = []
    lo, hi = min(xs), max(xs)
    bins = list(range(1, 13)) if all_bins else rng.sample(range(1, 13), 3)
    for nb in bins:
        kind = rng.choice(("auto", "cover", "narrow", "shifted", "half"))
        if kind == "auto":
            a = b = Fraction(0)
        elif kind == "cover":
            a, b = Fraction(math.floor(lo)) - rng.randint(0, 3), Fraction(math.ceil(hi)) + rng.randint(1, 4)
        elif kind == "narrow":      # out-of-range samples on both sides
            mid = (Fraction(lo) + Fraction(hi)) / 2
            a = Fraction(math.floor(mid)) - rng.randint(0, 2)
            b = a + rng.randint(1, 6)
        elif kind == "shifted":
            a = Fraction(math.floor(lo)) + rng.randint(1, 5)
            b = a + rng.choice((1, 2, 4, 8, 12, 16))
        else:
            a = Fraction(math.floor(lo)) - Fraction(1, 2)
            b = a + rng.choice((1, 2, 3, 5, 8)) + Fraction(rng.choice((0, 1)), 2)
        ops.append("%s %d %s %s" % (tag, nb, rat(a), rat(b)))
    return ops


def gen_dataset(rng, n, pattern, init, all_bins=False):
    xs = values(rng, n, pattern)
    L = ["ds"]
    for c in chunks(rng, xs):
        L.append("add " + " ".join(rat(x) for x in c))
    L += ["dump", "copy"]
    # push the copy over the next doubling threshold now and then
    k = rng.choice((1, 3, 0, init - (n % init) + 1 if n < 3 * init and rng.random() < 0.3 else 2))
    if k:
        L.append("copyadd " + " ".join(rat(rng.randint(-9, 9)) for _ in range(k)))
    L.append("median")
    small = all(abs(x) <= 999 for x in xs)
    if small:
        L.append("fivenum")
    if small and n <= 300:
        L += hist_ops(rng, xs, "hist", all_bins)
    elif small:
        L += hist_ops(rng, xs, "hist", False)[:1]
    if n >= 2 and small:
        lags = sorted({1, min(n - 1, 2), min(n - 1, rng.randint(1, 8)), n - 1 if n <= 40 else 1})
        for lag in lags:
            L.append("acf %d" % lag)
        L.append("acfrel %d %s %s" % (lags[0], rat(Fraction(2) ** rng.randint(-3, 6)), rat(rng.randint(-20, 20))))
        # offsets that are huge compared with the spread (mean / standard deviation beyond 3e4), all exact in double
        if pattern != "wide":
            big = [(Fraction(1), Fraction(100000 * rng.choice((1, -1, 3)))), (Fraction(1), Fraction(-10000000)),
                   (Fraction(1, 128), Fraction(1000)), (Fraction(1, 1024), Fraction(-4096)), (Fraction(4), Fraction(2 ** 30))]
            for sc_, sh_ in rng.sample(big, 2):
                L.append("acfrel %d %s %s" % (lags[min(1, len(lags) - 1)], rat(sc_), rat(sh_)))
        if n <= 40:
            L.append("corr %d" % lags[-1])
    L += ["sort", "dump", "median"]
    if small:
        L.append("fivenum")
    return L


WEIGHTS = ["unit", "random", "zeros", "dominant-first", "dominant-any", "allzero", "heavy-tail", "dominant-max"]


def gen_series(rng, n, pattern, wpat, init, all_bins=False):
    xs = values(rng, n, pattern if pattern != "big" else "wide")
    # durations
    if wpat == "unit":
        d = [1] * n
    elif wpat == "random":
        d = [rng.randint(1, 9) for _ in range(n)]
    elif wpat == "zeros":
        d = [rng.choice((0, 0, 1, 3)) for _ in range(n)]
    elif wpat == "allzero":
        d = [0] * n
    elif wpat == "heavy-tail":
        d = [rng.choice((1, 1, 1, 2, 50)) for _ in range(n)]
    else:
        d = [rng.randint(0, 3) for _ in range(n)]
        k = xs.index(min(xs)) if wpat == "dominant-first" else (xs.index(max(xs)) if wpat == "dominant-max" else rng.randrange(n))
        d[k] = sum(d) + rng.randint(1, 20)          # one sample holds more than half of the total duration
    t0 = rng.randint(-5, 5)
    ts = [t0]
    for i in range(n - 1):
        ts.append(ts[-1] + d[i])
    L = ["ts"]
    pairs = ["%s %s" % (rat(x), rat(t)) for x, t in zip(xs, ts)]
    i = 0
    while i < n:
        k = rng.choice((1, 3, 11, n))
        L.append("tadd " + " ".join(pairs[i:i + k]))
        i += k
    fin = rng.random() < 0.8
    tend = ts[-1] + d[-1]
    if fin:
        L.append("tfin %s" % rat(tend))
    cnt = n + (1 if fin else 0)
    L += ["tdump", "tmedian", "tfivenum"]
    if cnt >= 2:
        if cnt <= 300:
            L += hist_ops(rng, xs, "thist", all_bins)
        else:
            L += hist_ops(rng, xs, "thist", False)[:1]
        L.append("tacf %d" % min(cnt - 1, rng.randint(1, 6)))
    # sort by value and THEN copy / take the median / summary / histogram: the last slot now holds the largest x with
    # its real duration (a time-ordered series always ends in a zero weight); then sort back by time and ask again
    L += ["tsortx", "tdump", "tcopy", "tmedian", "tfivenum"]
    if cnt >= 2:
        L += hist_ops(rng, xs, "thist", False)[:2]
    L += ["tsortt", "tdump", "tmedian"]
    # copy last (a defect in the copy must not hide the answers above); the copy is then added to,
    # now and then far enough to cross the next doubling threshold
    L.append("tcopy")
    k = rng.choice((1, 2, 0, init - (cnt % init) + 1 if cnt < 3 * init and rng.random() < 0.3 else 1))
    if k:
        tt = tend
        adds = []
        for _ in range(k):
            tt += rng.randint(0, 3)
            adds.append("%s %s" % (rat(rng.randint(-9, 9)), rat(tt)))
        L.append("tcopyadd " + " ".join(adds))
    return L


def thresholds(init, quick):
    t = []
    mults = (1, 2) if quick else (1, 2, 4, 8)
    for m in mults:
        t += [m * init - 1, m * init, m * init + 1]
    return t


def generate(seed, quick, init):
    """[(meta, lines)]"""
    rng = random.Random(seed * 1000003 + 18)
    cases = []
    sizes = list(range(1, 71))
    rounds = 1 if quick else 4
    for r in range(rounds):
        for n in sizes:
            p = PATTERNS[(n + r + seed) % len(PATTERNS)]
            cases.append(({"kind": "dataset", "n": n, "pattern": p}, gen_dataset(rng, n, p, init, all_bins=(n % 7 == seed % 7))))
            p2 = PATTERNS[(n * 5 + r + seed) % len(PATTERNS)]
            w = WEIGHTS[(n + 2 * r + seed) % len(WEIGHTS)]
            cases.append(({"kind": "series", "n": n, "pattern": p2, "weights": w},
                          gen_series(rng, n, p2, w, init, all_bins=(n % 7 == (seed + 3) % 7))))
    # every pattern x every weight pattern at a few small sizes (corner sizes 1, 2, 3 included)
    for p in PATTERNS:
        for w in WEIGHTS:
            n = rng.choice((1, 2, 3, 4, 5, 8, 13))
            cases.append(({"kind": "series", "n": n, "pattern": p, "weights": w}, gen_series(rng, n, p, w, init)))
        for n in (1, 2, 3):
            cases.append(({"kind": "dataset", "n": n, "pattern": p}, gen_dataset(rng, n, p, init, all_bins=True)))
    for n in thresholds(init, quick):
        for p in (("small", "reverse") if quick else ("small", "reverse", "wide", "constant", "sorted")):
            cases.append(({"kind": "dataset", "n": n, "pattern": p, "threshold": True}, gen_dataset(rng, n, p, init)))
            w = rng.choice(WEIGHTS)
            cases.append(({"kind": "series", "n": n, "pattern": p, "weights": w, "threshold": True}, gen_series(rng, n, p, w, init)))
    return cases


def corpus_cases():
    out = []
    if os.path.isdir(CORPUS):
        for f in sorted(os.listdir(CORPUS)):
            if f.endswith(".txt"):
                raw = open(os.path.join(CORPUS, f)).read().splitlines()
                meta = {"kind": "corpus", "file": f}
                for l in raw:
                    m = re.match(r"#\s*finding:\s*(\S+)", l)
                    if m:
                        meta["finding"] = m.group(1)
                    m = re.match(r"#\s*build:\s*(\S+)", l)
                    if m:
                        meta["build"] = m.group(1)
                out.append((meta, clean(raw)))
    return out


def nontrivial(meta, lines):
    """a case counts as non-trivial when sorting has work to do (the samples are not already ascending)
    or the arrays cross a capacity doubling"""
    if meta.get("threshold"):
        return True
    xs = []
    for l in lines:
        w = l.split()
        if w[0] == "add":
            xs += [Fraction(t) for t in w[1:]]
        elif w[0] == "tadd":
            xs += [Fraction(t) for t in w[1::2]]
    return any(a > b for a, b in zip(xs, xs[1:]))
