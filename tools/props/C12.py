"""C12 — queued objects are delivered exactly once, in order, within capacity.

Proof:  Props/C12.lean over the process-layer model CimbaModel/Sim.
Tie:    harness/simdrv.c <-> Drivers/SimMain.lean on generated scenarios (profiles oq, pq, mixed), complete observable logs;
        tools/simmon.py (C12 clauses) on every implementation log. See tools/simcheck.py.
"""
import simcheck

PROFILES = ['oq', 'pq', 'mixed', 'pqreprio', 'qdrain']


def run(chk):
    simcheck.run(chk, PROFILES)


def replay(chk, path):
    simcheck.replay(chk, path)
