"""C16 — every sampler stays inside the mathematical support of its distribution for every admissible parameter set, and its
samples follow the stated distribution.

Proof:  Props/C16.lean (exact arithmetic) over definitions REGENERATED on every run (tools/gen_rngdist.py, tools/c2lean_dist.py):
        the integer / index logic of cmb_random, uniform, triangular, dice, bernoulli, binomial, sums_to_one, loaded_dice,
        alias_secure, alias_create (Vose), alias_sample, geometric, std_beta, PERT_mod and the leading statements (small-shape
        guard with early return) of std_gamma from clang's AST; the ziggurat tables from
        the include files the codegen programs of the current tree wrote into the build; hand model Rng/Zig.lean of the
        exponential ziggurat.
Ties:   T-gen   the definitions above (AST hashes in the evidence), emitted twice from ONE text: DistQ (Rat) / DistF (Float)
        T-corr  harness/distdrv.c <-> Drivers/DistMain.lean on top of the bit-exact generator model of C15:
                * DistF (IEEE) vs the library: every returned index / count / table entry / double, bit for bit, on seeded
                  parameter sets (validates the translator and the hand model of the ziggurat),
                * DistQ (exact, what the theorems are about) vs the library on the parameter family for which the library's
                  floating-point arithmetic is exact (dyadic probabilities, small ranges); elsewhere the number of
                  disagreements is reported (rounding-sensitive inputs),
                * every alias table the LIBRARY builds is checked in exact rational arithmetic to induce p_i / sum(p)
                  (deterministic, tolerance 2^-40).
Tests (labelled "statistical test evidence, not proof" in the evidence): support scan of every distribution over a boundary
        parameter grid (exact: every value finite and inside the support), first two moments (>= 6.5 standard errors), KS distance
        against the exact CDF / chi-square of the bin frequencies against the exact pmf (tools/diststat.py, scipy).
"""
import collections
import hashlib
import json
import os
import random
import re
import struct
import subprocess
from fractions import Fraction

import c2lean
import distgrid
import gen_rng
import gen_rngdist
import vlib

CORPUS = os.path.join(vlib.VERIF, "corpus", "rngdist")
DRIVERS = ["distmain"]
GAMMA_DRIVER = "gammamain"
TRUSTED = [
    "Lean 4.33 kernel; axioms propext, Classical.choice, Quot.sound only (audited per theorem on every run)",
    "tools/c2lean_dist.py + tools/gen_rngdist.py + clang's JSON AST (translation of the samplers' integer / index logic, the "
    "struct, sum_tolerance, the table include files parsed with Python's correctly rounded float()); validated on every run by "
    "executing the IEEE instantiation DistF of the SAME generated text bit for bit against the library (harness/distdrv.c vs distmain)",
    "the generator underneath is C15's regenerated model (Generated/Rng.lean), tied bit-exactly by C15",
    "hand-written model Rng/Zig.lean of cmb_random_std_exponential / cmi_random_exp_not_hot (not translated: for(;;) with returns, "
    "pointer arithmetic); tied by bit-exact execution of its Float instantiation against the library over the regenerated tables",
    "IEEE-754 rounding is NOT in the theorems: `double` is modelled as Rat (exact); int->double conversions are exact in the model "
    "(true below 2^53); out-of-range double->integer conversions (undefined in C) are modelled as wrap-around; where exact and IEEE "
    "results can differ is measured by the DistQ-vs-library comparison (cmb_random_dice with offsets >= 2^31 was such a case: found by the test tier, since repaired)",
    "log, sqrt, exp, pow: abstract functions with the stated hypotheses (SqrtLike; none needed for log after the repair)",
    "the normal / gamma / beta / Poisson ... sampler BODIES are not modelled: for them only the tables (nor_tables_ok), the algebraic "
    "wrappers (std_beta_range, PERT_mod_range) and the statistical tier apply",
    "statistical tier: scipy.stats CDFs / pmfs, numpy; a passed statistical test is evidence, not proof",
]


def hx(x):
    return "%016x" % struct.unpack("<Q", struct.pack("<d", float(x)))[0]


# ---- scenario files (corpus and replays) --------------------------------------------------------------------

def parse_scenario(text):
    kind, attrs, lines = None, {}, []
    for l in text.splitlines():
        l = l.strip()
        m = re.match(r"#!\s*kind=(\w+)(.*)", l)
        if m:
            kind = m.group(1)
            for kv in m.group(2).split():
                if "=" in kv:
                    k, v = kv.split("=", 1)
                    attrs[k] = v
            continue
        if not l or l.startswith("#"):
            continue
        lines.append(l)
    return kind, attrs, lines


TIMEOUT = {"quick": 240, "thorough": 2400}
TIER = ["quick"]


def run_supp(c_exe, lines):
    """-> list of (line, bad, detail, raw output)"""
    rc, out, err = vlib.run_driver(c_exe, "\n".join(lines) + "\n", args=["supp"], timeout=TIMEOUT[TIER[0]])
    if rc == 124:
        err = "the sampler did not return within %d s" % TIMEOUT[TIER[0]]
    res = []
    outs = [l for l in out.splitlines() if l.startswith("supp ")]
    for i, l in enumerate(lines):
        if i >= len(outs):
            res.append((l, -1, "driver died (exit code %d): %s" % (rc, err.strip()[-300:]), ""))
            continue
        m = re.search(r"n=(\d+) bad=(\d+) first=(\d+):([0-9a-f]{16}) nonfinite=(\d+)", outs[i])
        if not m:
            res.append((l, -1, "driver: " + outs[i], outs[i]))
            continue
        bad = int(m.group(2))
        v = struct.unpack("<d", struct.pack("<Q", int(m.group(4), 16)))[0]
        res.append((l, bad, "%d of %s draws outside the support (%s not finite), first at draw %s: %r" % (
            bad, m.group(1), m.group(5), m.group(3), v), outs[i]))
    return res


def run_stat(c_exe, jobs):
    spec = {"exe": c_exe, "workers": vlib.NPROC, "jobs": jobs, "timeout": TIMEOUT[TIER[0]]}
    p = subprocess.run(["python3-vt", os.path.join(vlib.VERIF, "tools", "diststat.py")], input=json.dumps(spec).encode(),
                       stdout=subprocess.PIPE, stderr=subprocess.PIPE, timeout=4000)
    if p.returncode != 0:
        raise RuntimeError("tools/diststat.py failed: " + p.stderr.decode("utf-8", "replace")[-2000:])
    return json.loads(p.stdout)


def stat_job(name, params, support, n, seed):
    return {"name": name, "params": params, "n": n, "seed": seed,
            "support": [distgrid.fmt(support[0]), distgrid.fmt(support[1]), support[2]],
            "line": distgrid.stat_line(name, params, n, seed)}


def stat_replay_text(job, fails):
    return "#! kind=stat support=%s,%s,%s\n# %s\n%s\n" % (job["support"][0], job["support"][1], job["support"][2] or "-",
                                                        "; ".join(fails), job["line"])


# ---- correspondence ---------------------------------------------------------------------------------------------

def dyadic_vector(r, n, bits):
    """n non-negative multiples of 2^-bits summing to exactly 1"""
    total = 2 ** bits
    cuts = sorted(r.randrange(0, total + 1) for _ in range(n - 1))
    parts = [b - a for a, b in zip([0] + cuts, cuts + [total])]
    return [p / total for p in parts]


def gen_script(r, exact):
    """one correspondence script; exact=True: the family on which exact and IEEE arithmetic agree"""
    lines = ["seed %d" % r.choice([0, 1, 2 ** 64 - 1, r.getrandbits(64), r.randrange(1000)])]
    for _ in range(r.choice([2, 3, 4, 6])):
        k = r.random()
        n = r.choice([1, 3, 8, 20, 40])
        if k < 0.08:
            lines.append("unit %d" % n)
        elif k < 0.14:
            lines.append("flip %d" % r.choice([1, 7, 64, 65, 130]))
        elif k < 0.30:
            if exact:
                w = 2 ** r.randrange(1, 12)
                a = r.randrange(-2 ** 20, 2 ** 20)
                lines.append("dice %d %d %d" % (n, a, a + w - 1))
            else:
                a = r.choice([0, 1, -3, r.randrange(-10 ** 6, 10 ** 6), r.randrange(-2 ** 45, 2 ** 45)])
                lines.append("dice %d %d %d" % (n, a, a + r.choice([1, 5, 6, 99, 1000, 2 ** 33 + 7])))
        elif k < 0.40:
            p = r.choice([0.0, 1.0, 0.5, 0.25, r.random(), r.random() * 1e-3])
            lines.append("bern %d %s" % (n, hx(p)))
        elif k < 0.50:
            p = r.choice([1.0, 0.5, 0.3, r.random()])
            lines.append("binom %d %d %s" % (n, r.choice([1, 2, 7, 30]), hx(p)))
        elif k < 0.72:
            m = r.choice([1, 2, 3, 5, 8, 17, 40])
            if exact:
                v = dyadic_vector(r, m, r.choice([4, 8, 16, 24]))
            else:
                v = [r.random() for _ in range(m)]
                s = sum(v) / r.choice([1.0, 1.0, 0.9991, 1.0009, 0.99999])
                v = [x / s for x in v]
                if m >= 2 and r.random() < 0.2:
                    v[r.randrange(m)] = 0.0
                    s = sum(v) or 1.0
                    v = [x / s for x in v]
            if abs(sum(v) - 1.0) > 0.00095:       # stay inside what sums_to_one accepts (release assert otherwise)
                v = [1.0 / m] * m
            lines.append("loaded %d %s" % (n, " ".join(hx(x) for x in v)))
        elif k < 0.92:
            m = r.choice([1, 2, 3, 4, 7, 16, 33, 64])
            if exact:
                v = dyadic_vector(r, m, r.choice([4, 8, 16, 24]))
            else:
                v = [r.random() ** r.choice([1, 3]) for _ in range(m)]
                s = sum(v) / r.choice([1.0, 1.0, 0.9991, 1.0009])
                v = [x / s for x in v]
            if abs(sum(v) - 1.0) > 0.00095:
                v = [1.0 / m] * m
            lines.append("alias %d %s" % (n, " ".join(hx(x) for x in v)))
        elif k < 0.96:
            lines.append("stdexp %d" % r.choice([10, 100, 400]))
        else:
            lines.append("geom %d %s" % (n, hx(r.choice([0.5, 0.125, 0.3, 0.9, 0.01, 1.0]))))
    return lines


def bits_to_float(h):
    return struct.unpack("<d", struct.pack("<Q", int(h, 16)))[0]


def alias_exactness(in_line, table_line):
    """the table the LIBRARY built, in exact rational arithmetic: induced probability of i = (1/n) (t_i + sum_{alias_j = i} (1 - t_j))
    with t = uprob / 2^64 (UINT64_MAX means 1).  Returns None or a message."""
    ps = [Fraction(bits_to_float(w)) for w in in_line.split()[2:]]
    w = table_line.split()
    n = int(w[1])
    bar = w.index("|")
    up = [int(x, 16) for x in w[2:bar]]
    al = [int(x) for x in w[bar + 1:]]
    if n != len(ps) or len(up) != n or len(al) != n:
        return "table of the wrong size"
    if any(a >= n for a in al):
        return "alias index %d >= n = %d" % (max(al), n)
    t = [Fraction(1) if u == 2 ** 64 - 1 else Fraction(u, 2 ** 64) for u in up]
    ind = [t[i] for i in range(n)]
    for j in range(n):
        ind[al[j]] += 1 - t[j]
    s = sum(ps)
    for i in range(n):
        if abs(ind[i] / n - ps[i] / s) > Fraction(1, 2 ** 40):
            return "entry %d: the table induces probability %.15g, p_i / sum(p) = %.15g" % (i, float(ind[i] / n), float(ps[i] / s))
    return None


def judge_script(c_exe, lines, exact):
    """-> (message or None, stats)"""
    txt = "\n".join(lines) + "\n"
    rc, co, ce = vlib.run_driver(c_exe, txt, args=["corr"], timeout=600)
    if rc != 0:
        return "library driver exit code %d: %s" % (rc, ce.strip()[-400:]), {}
    rc2, lo, le = vlib.run_driver(vlib.lean_exe("distmain"), txt, timeout=600)
    if rc2 != 0:
        return "model driver exit code %d: %s" % (rc2, le.strip()[-400:]), {}
    c_lines = co.splitlines()
    f_lines = [l[2:] for l in lo.splitlines() if l.startswith("F ")]
    q_lines = [l[2:] for l in lo.splitlines() if l.startswith("Q ")]
    stats = collections.Counter()
    # F: everything the library printed (except the bare "seed" echo)
    cl = [l for l in c_lines if l != "seed"]
    fl = [re.sub(r" admissible=\w+", "", l) for l in f_lines]
    if len(cl) != len(fl):
        return "library printed %d result lines, the IEEE model %d" % (len(cl), len(fl)), stats
    for a, b in zip(cl, fl):
        if a != b:
            wa, wb = a.split(), b.split()
            i = next((i for i, (x, y) in enumerate(zip(wa, wb)) if x != y), min(len(wa), len(wb)))
            return "IEEE model (DistF) differs from the library in `%s`, item %d: library %s, model %s" % (
                wa[0], i, wa[i] if i < len(wa) else "-", wb[i] if i < len(wb) else "-"), stats
        stats["F_items"] += len(a.split()) - 1
    # Q: the lines that have an exact counterpart
    qd = {}
    for l in q_lines:
        l = re.sub(r" admissible=\w+", "", l)
        qd.setdefault(l.split()[0], []).append(l)
    cd = {}
    for l in cl:
        cd.setdefault(l.split()[0], []).append(l)
    for op, ls in qd.items():
        for a, b in zip(cd.get(op, []), ls):
            wa, wb = a.split(), b.split()
            nd = sum(1 for x, y in zip(wa, wb) if x != y)
            stats["Q_items"] += len(wa) - 1
            if nd:
                stats["Q_differs"] += nd
                if exact:
                    i = next(i for i, (x, y) in enumerate(zip(wa, wb)) if x != y)
                    return "exact model (DistQ) differs from the library on an input where the arithmetic is exact: `%s` item %d: library %s, model %s" % (
                        op, i, wa[i], wb[i]), stats
    # the library's alias tables in exact arithmetic
    ins = [l for l in lines if l.startswith("alias ")]
    tabs = [l for l in c_lines if l.startswith("alias-table ")]
    for a, b in zip(ins, tabs):
        stats["alias_tables"] += 1
        msg = alias_exactness(a, b)
        if msg:
            return "alias table built by the library is not exact: " + msg, stats
    # indices in range, whatever the arithmetic
    for l, c in zip([l for l in lines if l.split()[0] in ("loaded", "alias")], [l for l in c_lines if l.split()[0] in ("loaded", "alias")]):
        m = len(l.split()) - 2
        bad = [int(x) for x in c.split()[1:] if int(x) >= m]
        if bad:
            return "%s returned the index %d for a vector of %d entries" % (l.split()[0], bad[0], m), stats
    return None, stats


def judge_gboost(c_exe, lines):
    """the regenerated small-shape guard of cmb_random_std_gamma against the library: for `gboost <seed> <shape>` the library
    returns r = std_gamma(shape) after the seed and, after the same seed, g = std_gamma(shape + 1) and the next cmb_random() u;
    the IEEE instantiation of the regenerated leading statements, fed with g and u, must return r bit for bit (this also
    pins the ORDER of the two draws)."""
    rc, co, ce = vlib.run_driver(c_exe, "\n".join(lines) + "\n", args=["corr"], timeout=600)
    outs = [l.split() for l in co.splitlines() if l.startswith("gboost ")]
    if rc != 0 or len(outs) != len(lines):
        return "library driver exit code %d, %d of %d results: %s" % (rc, len(outs), len(lines), ce.strip()[-300:])
    q = ["gboost %s %s %s" % (l.split()[2], o[2], o[3]) for l, o in zip(lines, outs)]
    rc2, lo, le = vlib.run_driver(vlib.lean_exe(GAMMA_DRIVER), "\n".join(q) + "\n", timeout=600)
    mo = [l.split() for l in lo.splitlines() if l.startswith("gboost ")]
    if rc2 != 0 or len(mo) != len(lines):
        return "model driver exit code %d, %d of %d results: %s" % (rc2, len(mo), len(lines), le.strip()[-300:])
    for l, o, m in zip(lines, outs, mo):
        if o[1] != m[1] or m[2] != "draws=1":
            return ("cmb_random_std_gamma(%r) after seed %s: library %s (%r); regenerated guard fed with the library's "
                    "std_gamma(shape + 1) = %r and the next uniform %s / 2^53: %s (%r), %s" % (
                        bits_to_float(l.split()[2]), l.split()[1], o[1], bits_to_float(o[1]), bits_to_float(o[2]), o[3],
                        m[1], bits_to_float(m[1]), m[2]))
    return None


# ---- far-tail statistics (statistical test evidence, not proof) ---------------------------------------------------------------

def poisson_band(mu, alpha=1e-9):
    """[lo, hi] with P(X < lo) <= alpha and P(X > hi) <= alpha for X ~ Poisson(mu) (the counts are binomial with a tiny p)"""
    import math
    if mu <= 0:
        return 0, 0
    kmax = int(mu + 12 * math.sqrt(mu) + 40)
    logp = [-mu + k * math.log(mu) - math.lgamma(k + 1) for k in range(kmax + 1)]
    pm = [math.exp(v) for v in logp]
    acc, lo = 0.0, 0
    for k in range(kmax + 1):
        if acc + pm[k] > alpha:
            lo = k
            break
        acc += pm[k]
    acc, hi = 0.0, kmax
    for k in range(kmax, -1, -1):
        if acc + pm[k] > alpha:
            hi = k
            break
        acc += pm[k]
    return lo, hi


def tail_spec(name, tabs):
    """(r, thresholds, P(|X| > t), mean and variance of the excess |X| - r given |X| > r)"""
    import math
    if name == "std_normal":
        r = tabs["nor_zig_x_tail_start"]
        ts = [r, 4.0, 4.5, 5.0]
        q = lambda t: math.erfc(t / math.sqrt(2.0))                     # two-sided
        lam = math.exp(-0.5 * r * r) / math.sqrt(2.0 * math.pi) / (0.5 * math.erfc(r / math.sqrt(2.0)))
        return r, ts, q, lam - r, 1.0 + r * lam - lam * lam
    r = tabs["exp_zig_x_tail_start"]
    ts = [r, r + 1.0, r + 2.0, r + 4.0, 14.0, 2.0 * r, 3.0 * r]     # beyond 2r / 3r: two / three passes through the tail layer
    return r, ts, (lambda t: math.exp(-t)), 1.0, 1.0


def tail_lines(name, tabs, n_each, jobs, seed0):
    r, ts, _q, _m, _v = tail_spec(name, tabs)
    return ["tail %s %d %d %s" % (name, n_each, seed0 + 7919 * j, " ".join(repr(t) for t in ts)) for j in range(jobs)]


def judge_tail(c_exe, name, tabs, lines):
    """-> (messages, summary).  The far tail of the ziggurat samplers is reached through their slow paths only (about 3e-4 of
    the normal draws, 5e-4 of the exponential ones): counts beyond the tail start and further out against the exact
    probabilities (two-sided 1e-9 Poisson band, about 6 sigma) and the mean excess beyond the tail start (6 standard errors)."""
    import math
    r, ts, q, m_exc, v_exc = tail_spec(name, tabs)
    outs = vlib.parallel_map(lambda l: vlib.run_driver(c_exe, l + "\n", args=["corr"], timeout=TIMEOUT[TIER[0]]), lines)
    n_tot, s1, counts = 0, 0.0, [0] * len(ts)
    for l, (rc, out, err) in zip(lines, outs):
        mm = re.search(r"n=(\d+) sum=(\S+) sumsq=(\S+) counts (.*)", out)
        if rc != 0 or not mm:
            return ["`%s`: driver exit code %d: %s" % (l, rc, (err or out).strip()[-200:])], {}
        n_tot += int(mm.group(1))
        s1 += float(mm.group(2))
        for j, c in enumerate(mm.group(4).split()):
            counts[j] += int(c)
    msgs = []
    summ = {"draws": n_tot, "thresholds": ts, "counts": counts, "expected": [round(n_tot * q(t), 1) for t in ts]}
    for t, c in zip(ts, counts):
        mu = n_tot * q(t)
        lo, hi = poisson_band(mu)
        if not (lo <= c <= hi):
            msgs.append("%s: %d of %d draws beyond %.6g, expected %.1f (1e-9 band %d..%d)" % (name, c, n_tot, t, mu, lo, hi))
    if counts[0] > 0:
        me = s1 / counts[0]
        se = math.sqrt(v_exc / counts[0])
        summ["mean_excess"], summ["mean_excess_expected"] = round(me, 5), round(m_exc, 5)
        if abs(me - m_exc) > 6.0 * se:
            msgs.append("%s: mean excess beyond the tail start %.6g is %.4f, expected %.4f +/- %.4f (%.1f standard errors)" % (
                name, r, me, m_exc, se, (me - m_exc) / se))
    return msgs, summ


def tail_tables(impl):
    te = gen_rngdist.parse_inc(os.path.join(impl["dir"], "cmi_random_exp_zig.inc"))
    tn = gen_rngdist.parse_inc(os.path.join(impl["dir"], "cmi_random_nor_zig.inc"))
    return {"nor_zig_x_tail_start": tn["nor_zig_x_tail_start"][2][0], "exp_zig_x_tail_start": te["exp_zig_x_tail_start"][2][0]}


# ---- the generated tables against the curve they are meant to lie on (deterministic numerical check, not proof) -------------

def check_tables(impl):
    """corner points (x_i, y_i), i <= zig_max + 1, must lie on the pdf: y_i = exp(-x_i) resp. exp(-x_i^2 / 2), to 1e-12 relative
    (the generated text has 15 significant digits; observed 2e-14).  Monotonicity, ranges etc. are theorems (exp_tables_ok)."""
    import math
    out = []
    try:
        te = gen_rngdist.parse_inc(os.path.join(impl["dir"], "cmi_random_exp_zig.inc"))
        tn = gen_rngdist.parse_inc(os.path.join(impl["dir"], "cmi_random_nor_zig.inc"))
    except Exception as ex:                                      # noqa: BLE001
        return ["table files unreadable: %s" % ex]
    for nm, t, px, py, pm, scale, f in (
            ("exponential", te, "cmi_random_exp_zig_pdf_x", "cmi_random_exp_zig_pdf_y", "cmi_random_exp_zig_max", 2.0 ** 64, lambda v: math.exp(-v)),
            ("normal", tn, "cmi_random_nor_zig_pdf_x", "cmi_random_nor_zig_pdf_y", "cmi_random_nor_zig_max", 2.0 ** 63, lambda v: math.exp(-0.5 * v * v))):
        x, y, zm = t[px][2], t[py][2], t[pm][2][0]
        for i in range(min(zm + 2, len(x), len(y))):
            want = f(x[i] * scale)
            if abs(y[i] * scale - want) > 1e-12 * want:
                out.append("%s ziggurat table: corner point %d is not on the pdf: x = %.15g, y = %.15g, pdf(x) = %.15g" % (
                    nm, i, x[i] * scale, y[i] * scale, want))
                break
    return out


# ---- the check ------------------------------------------------------------------------------------------------------

def seed_for(chk, i, salt):
    return (chk.seed * 1000003 + i * 7919 + salt) % (2 ** 62) + 1


def run(chk):
    quick = chk.tier == "quick"
    TIER[0] = chk.tier
    impl = vlib.build_impl("rel")
    chk.cov["trusted_base"] = TRUSTED
    chk.assumptions += [
        "parameters inside the documented domains (the release asserts of cmb_random.c / cmb_random.h, collected per function in the evidence)",
        "n < 2^32 (the type of n), |a|, |b| <= 2^61 for cmb_random_dice; exact-arithmetic model of double (see trusted base)",
        "no known finding is listed for C16 at present (the former triggers — std_gamma / std_beta / beta with a shape below 1, dice with "
        "offsets >= 2^31 — are part of the grid)",
        "events of probability about 2^-53 per draw are not observable by the test tier: cmb_random() = 0 makes cmb_random_pareto "
        "return +inf and cmb_random_logistic return -inf (unit_uniform_range proves that 0 is attainable)"]
    chk.notes.append("samples-follow-the-distribution part: STATISTICAL TEST EVIDENCE, NOT PROOF (seeded large-sample tests on the real "
                     "library: support scan, moments, KS / chi-square against exact CDFs); the support, index, range and table statements are theorems")
    # ---- T-gen -----------------------------------------------------------------------------------------
    tgen_ok = True
    try:
        gen_rng.run(impl)
        info, _ = gen_rngdist.run(impl)
        chk.cov["generated_from"] = info["functions"]
        chk.cov["generated_tables"] = sorted(info["tables"])
        chk.cov["generated_constants"] = info["constants"]
    except c2lean.Untranslatable as ex:
        tgen_ok = False
        chk.tgen_error = str(ex)
        chk.log("translator cannot handle the current source: %s" % ex)
    # ---- proofs ------------------------------------------------------------------------------------------
    proved = tgen_ok and chk.prove(extra_targets=DRIVERS + [GAMMA_DRIVER])
    drivers_ok = gamma_ok = proved
    if tgen_ok and not proved:
        drivers_ok, out = vlib.lake_build(DRIVERS)
        if not drivers_ok:
            chk.log("model driver does not build:\n" + "\n".join(l for l in out.splitlines() if "error" in l)[:2000])
        gamma_ok, out = vlib.lake_build([GAMMA_DRIVER])
        if not gamma_ok:
            chk.log("the driver for the regenerated guard of cmb_random_std_gamma does not build against the current source "
                    "(the function has another shape than `guard with early return; rest`)")
    c_exe = vlib.cc_harness("distdrv", impl)
    r = random.Random(chk.seed * 1000003 + 16)
    evals, sigs, samples = 0, set(), []
    dist = collections.Counter()
    failures = []          # (kind, what, replay text)
    known_ids = {k["id"]: k for k in chk.known}

    # ---- known findings and corpus first -----------------------------------------------------------------------
    n_corpus = 0
    for name in sorted(os.listdir(CORPUS)) if os.path.isdir(CORPUS) else []:
        if not name.endswith(".txt"):
            continue
        text = open(os.path.join(CORPUS, name)).read()
        kind, attrs, lines = parse_scenario(text)
        n_corpus += 1
        evals += len(lines)
        dist["corpus/" + kind] += 1
        if kind == "support":
            res = run_supp(c_exe, lines)
            bad = [(l, d) for l, b, d, _ in res if b != 0]
            kid = attrs.get("known")
            if kid and kid in known_ids:
                if bad:
                    chk.known_finding("%s: `%s`: %s" % (kid, " ".join(bad[0][0].split()[1:2] + bad[0][0].split()[7:]), bad[0][1]))
                else:
                    chk.notes.append("known finding %s no longer reproduces (corpus/rngdist/%s)" % (kid, name))
            elif bad:
                failures.append(("support", "corpus/rngdist/%s: `%s`: %s" % (name, bad[0][0], bad[0][1]),
                                 "#! kind=support\n# corpus/rngdist/%s\n%s\n" % (name, bad[0][0])))
        elif kind == "corr" and drivers_ok:
            msg, _ = judge_script(c_exe, lines, attrs.get("exact") == "1")
            if msg:
                failures.append(("corr", "corpus/rngdist/%s: %s" % (name, msg), text))
            elif "expect_above" in attrs:
                # the scenario is meant to exercise a rare path: say so if it no longer does (tables or generator changed)
                _rc, co, _ce = vlib.run_driver(c_exe, "\n".join(lines) + "\n", args=["corr"], timeout=600)
                big = [w for l in co.splitlines() if l.startswith("stdexp") for w in l.split()[1:]
                       if bits_to_float(w) > float(attrs["expect_above"])]
                dist["corpus-rare-path-draws"] += len(big)
                if not big:
                    chk.notes.append("corpus/rngdist/%s no longer reaches a variate above %s: search new seeds (see the file)" % (name, attrs["expect_above"]))
        elif kind == "stat":
            sup = attrs.get("support", "-inf,inf,-").split(",")
            w = lines[0].split()
            job = {"name": w[1], "params": [float(x) for x in w[4:]], "n": int(w[2]), "seed": int(w[3]),
                   "support": [sup[0], sup[1], "" if sup[2] == "-" else sup[2]], "line": lines[0]}
            res = run_stat(c_exe, [job])[0]
            if res["fails"]:
                failures.append(("stat", "corpus/rngdist/%s: %s" % (name, "; ".join(res["fails"])), stat_replay_text(job, res["fails"])))
    for kid in known_ids:
        cf = known_ids[kid].get("corpus", "")
        if not os.path.exists(os.path.join(vlib.VERIF, cf)):
            chk.notes.append("known finding %s: corpus file %s missing" % (kid, cf))

    # ---- the tables against the pdf (numerical) ---------------------------------------------------------------------
    for msg in check_tables(impl):
        evals += 1
        failures.append(("tables", msg, "#! kind=tables\n# %s\n" % msg))
    dist["tables-vs-pdf"] += 1

    # ---- T-corr ------------------------------------------------------------------------------------------------
    validated = 0
    corr_stats = collections.Counter()
    if drivers_ok:
        n = 160 if quick else 3000
        scripts = [(gen_script(r, exact=(i % 2 == 0)), i % 2 == 0) for i in range(n)]
        results = vlib.parallel_map(lambda s: judge_script(c_exe, s[0], s[1]), scripts)
        for (lines, exact), (msg, stats) in zip(scripts, results):
            evals += 1
            dist["corr/" + ("exact-family" if exact else "general")] += 1
            for l in lines[1:]:
                dist["corr-op:" + l.split()[0]] += 1
            corr_stats.update(stats)
            sigs.add(hashlib.sha256("\n".join(lines).encode()).hexdigest()[:16])
            if msg:
                failures.append(("corr", msg, "#! kind=corr exact=%d\n# %s\n%s\n" % (1 if exact else 0, msg, "\n".join(lines))))
            else:
                validated += 1
        samples.append({"kind": "corr", "script": scripts[0][0][:4]})
        chk.cov["correspondence"] = dict(corr_stats)

    # ---- T-corr: the regenerated small-shape guard of cmb_random_std_gamma -----------------------------------------
    if gamma_ok:
        shapes = [2.0 ** -20, 0.05, 0.2, 1.0 / 3.0, 0.4, 0.5, 0.999999] + [r.random() for _ in range(8 if quick else 60)]
        gl = ["gboost %d %s" % (r.choice([1, 2, r.getrandbits(64)]) if i % 3 else r.randrange(1000), hx(sh))
              for sh in shapes for i in range(6 if quick else 40)]
        msg = judge_gboost(c_exe, gl)
        evals += len(gl)
        dist["corr-op:gboost"] += len(gl)
        sigs.add(hashlib.sha256("\n".join(gl).encode()).hexdigest()[:16])
        if msg:
            failures.append(("corr", msg, "#! kind=gboost\n# %s\n%s\n" % (msg, "\n".join(gl))))
        else:
            validated += 1

    # ---- support scan over the boundary grid (exact check, seeded) ----------------------------------------------------
    grid = distgrid.grid()
    n_supp = 300000 if quick else 10000000
    supp_lines = []
    for i, (name, params, sup) in enumerate(grid):
        # sums of many variates are slow: scale the number of draws
        cost = {"binomial": max(1, int(params[0]) // 4) if name == "binomial" else 1, "poisson": 8 if name == "poisson" and params[0] > 10 else 1}.get(name, 1)
        supp_lines.append(distgrid.supp_line(name, params, sup, max(20000, n_supp // cost), seed_for(chk, i, 101)))
    chunks = [supp_lines[i::vlib.NPROC] for i in range(vlib.NPROC)]
    for res in vlib.parallel_map(lambda ls: run_supp(c_exe, ls) if ls else [], chunks):
        for l, bad, detail, _ in res:
            evals += 1
            dist["support:" + l.split()[1]] += 1
            sigs.add(hashlib.sha256(l.encode()).hexdigest()[:16])
            if bad != 0:
                failures.append(("support", "`%s`: %s" % (l, detail), "#! kind=support\n# %s\n%s\n" % (detail, l)))
    samples.append({"kind": "support", "line": supp_lines[0]})

    # ---- thorough: the same under ASan + UBSan (buffer overruns behind an invalid index, undefined conversions) ---------
    if not quick:
        san = vlib.build_impl("san")
        c_san = vlib.cc_harness("distdrv", san)
        san_lines = [distgrid.supp_line(name, params, sup, 20000, seed_for(chk, i, 303)) for i, (name, params, sup) in enumerate(grid)]
        chunks = [san_lines[i::vlib.NPROC] for i in range(vlib.NPROC)]
        for res in vlib.parallel_map(lambda ls: run_supp(c_san, ls) if ls else [], chunks):
            for l, bad, detail, _ in res:
                evals += 1
                dist["support-sanitizer"] += 1
                if bad != 0:
                    failures.append(("support", "`%s` (ASan/UBSan build): %s" % (l, detail), "#! kind=support\n# ASan/UBSan build: %s\n%s\n" % (detail, l)))
        if drivers_ok:
            sub = scripts[:300]
            for (lines, exact), (msg, _st) in zip(sub, vlib.parallel_map(lambda s_: judge_script(c_san, s_[0], s_[1]), sub)):
                evals += 1
                dist["corr-sanitizer"] += 1
                if msg:
                    failures.append(("corr", "(ASan/UBSan build) " + msg, "#! kind=corr exact=%d\n# ASan/UBSan build: %s\n%s\n" % (1 if exact else 0, msg, "\n".join(lines))))

    # ---- far tails of the ziggurat samplers (test evidence; the slow paths are where a wrong constant hides) -----------
    try:
        tabs = tail_tables(impl)
        far = {}
        for ti, name in enumerate(("std_normal", "std_exponential")):
            tl = tail_lines(name, tabs, 15000000 if quick else 60000000, 4 if quick else 16, seed_for(chk, ti, 404))
            msgs, summ = judge_tail(c_exe, name, tabs, tl)
            evals += len(tl)
            dist["far-tail:" + name] += len(tl)
            sigs.add(hashlib.sha256("\n".join(tl).encode()).hexdigest()[:16])
            far[name] = summ
            if msgs:
                failures.append(("stat", "`tail %s`: %s" % (name, "; ".join(msgs)), "#! kind=tail\n# %s\n%s\n" % ("; ".join(msgs), "\n".join(tl))))
        chk.cov["far_tail"] = dict(far, label="statistical test evidence, not proof")
    except (OSError, KeyError) as ex:
        failures.append(("tables", "the generated table files cannot be read for the far-tail test: %s" % ex, "#! kind=tables\n"))

    # ---- statistical tier (test evidence) ---------------------------------------------------------------------------
    n_stat = 200000 if quick else 3000000
    jobs = [stat_job(name, params, sup, n_stat, seed_for(chk, i, 202)) for i, (name, params, sup) in enumerate(grid)]
    stat_res = run_stat(c_exe, jobs)
    worst = {"mean_z": 0.0, "var_z": 0.0, "ks_over_threshold": 0.0, "chi2_over_threshold": 0.0}
    for job, res in zip(jobs, stat_res):
        evals += 1
        dist["stat:" + job["name"]] += 1
        sigs.add(hashlib.sha256(job["line"].encode()).hexdigest()[:16])
        for k, v in (("mean_z", res.get("mean_z")), ("var_z", res.get("var_z"))):
            if isinstance(v, (int, float)) and abs(v) != float("inf"):
                worst[k] = max(worst[k], abs(v))
        if "ks" in res:
            worst["ks_over_threshold"] = max(worst["ks_over_threshold"], res["ks"] / res["ks_threshold"])
        if "chi2" in res:
            worst["chi2_over_threshold"] = max(worst["chi2_over_threshold"], res["chi2"] / res["chi2_threshold"])
        if res["fails"]:
            failures.append(("stat", "`%s`: %s" % (job["line"], "; ".join(res["fails"])), stat_replay_text(job, res["fails"])))
    chk.cov["statistical_tier"] = {"label": "statistical test evidence, not proof", "configurations": len(jobs), "draws_each": n_stat,
                                   "support_draws_each": n_supp, "worst_observed": {k: round(v, 3) for k, v in worst.items()},
                                   "thresholds": "moments 6.5 standard errors; KS 3.3/sqrt(n); chi-square 1-1e-9 quantile"}
    samples.append({"kind": "stat", "line": jobs[3]["line"], "result": {k: stat_res[3].get(k) for k in ("mean", "mean_z", "var_z", "ks")}})

    # ---- coverage --------------------------------------------------------------------------------------------------
    chk.cov["evaluations"] = evals
    chk.cov["distinct_nontrivial"] = len(sigs)
    chk.cov["traces_validated_against_impl"] = validated
    chk.cov["rule"] = (
        "THEOREM part: Props/C16.lean over the regenerated definitions and tables (all n < 2^32, all rational probability vectors / "
        "parameters, all streams of 64-bit raw words). "
        "TIE (T-corr): seeded scripts (seed, then 2-6 operations over unit / flip / dice / bern / binom / loaded / alias / stdexp / geom) "
        "executed by the library and by the compiled regenerated model; DistF must agree on every item; every second script is from the "
        "exact-arithmetic family (dyadic probability vectors summing to exactly 1, power-of-two dice ranges) where DistQ must agree as well; "
        "every alias table the library builds is re-checked in exact rational arithmetic. "
        "TEST part (statistical test evidence, not proof): per entry of the boundary grid (tools/distgrid.py) one support scan and one "
        "moments + KS / chi-square test with seeds derived from VERIF_SEED. Non-trivial: every script with at least one sampler operation, "
        "every grid entry; distinct by content hash of the script / command line.")
    chk.cov["input_distribution"] = dict(sorted(dist.items()))
    chk.cov["corpus"] = n_corpus
    chk.cov["samples"] = samples
    chk.cov["test_evidence_only"] = ["samples follow the stated distribution (moments, KS, chi-square)",
                                     "support of the samplers whose bodies are not modelled (normal, gamma, beta, Poisson, ...): support scan"]

    # ---- verdicts -----------------------------------------------------------------------------------------------------
    order = {"support": 0, "tables": 1, "corr": 2, "stat": 3}
    seen = set()
    for kind, what, replay in sorted(failures, key=lambda f: order[f[0]]):
        # one violation per distribution (the corpus scenario, the grid's support scan and the statistical tier usually all see it)
        key = what.split("`")[1].split()[1] if kind in ("support", "stat") and "`" in what else (
            "loaded_dice" if "loaded returned the index" in what else what[:60])
        if key in seen or len(chk.violations) >= 6:
            continue
        seen.add(key)
        if kind == "support":
            chk.violation("a sampler left the mathematical support of its distribution on the real library: " + what, replay, True)
        elif kind == "stat":
            chk.violation("samples do not follow the stated distribution (statistical test on the real library): " + what, replay, True)
        elif kind == "tables":
            chk.violation("a build-time generated ziggurat table is wrong (the samples cannot follow the stated distribution): " + what, replay, True)
        else:
            # a disagreement between model and library is a broken tie unless it also shows an invalid value
            # `stdexp` / `geom` are compared with the HAND model Rng/Zig.lean, i.e. with the specification of the slow path (not with
            # anything regenerated): when in addition a theorem about the regenerated statements of that path no longer checks,
            # the disagreement at this seed and draw is a failing input, not merely a broken tie
            spec_path = ("`stdexp`" in what or "`geom`" in what) and tgen_ok and not proved
            if spec_path:
                what += " — the library leaves the specified slow path of the exponential ziggurat at this seed / draw, and Props/C16.lean does not check against the regenerated statements of that path"
            chk.violation("T-corr: " + what, replay, "returned the index" in what or "is not exact" in what or spec_path)
    if not tgen_ok and not chk.violations:
        chk.violation("T-gen broken: tools/gen_rngdist.py cannot translate the current source: %s; the library passes the support scan and "
                      "the statistical tier" % getattr(chk, "tgen_error", ""),
                      "translator: tools/gen_rngdist.py\n" + getattr(chk, "tgen_error", ""), False)
    if tgen_ok and not proved and not chk.violations:
        errs = "\n".join(l for l in getattr(chk, "build_error", "").splitlines() if "error" in l)[:3000]
        probs = "\n".join(getattr(chk, "audit_result", {}).get("problems", []))
        chk.violation("a theorem of Props/C16.lean no longer checks against the regenerated definitions / tables; the library passes the "
                      "support scan over the boundary grid, the correspondence and the statistical tier",
                      "theorems: CimbaModel.Props.C16.*\n" + errs + "\n" + probs, False)
    elif tgen_ok and not proved:
        errs = [l for l in getattr(chk, "build_error", "").splitlines() if "error" in l][:6]
        chk.log("Props/C16.lean does not check against the regenerated definitions (consistent with the violation(s) above):\n  " + "\n  ".join(errs))


def replay(chk, path):
    impl = vlib.build_impl("rel")
    c_exe = vlib.cc_harness("distdrv", impl)
    chk.cov["trusted_base"] = TRUSTED
    text = open(path).read()
    kind, attrs, lines = parse_scenario(text)
    chk.cov["evaluations"] = len(lines)
    if kind == "support":
        bad = [(l, d) for l, b, d, _ in run_supp(c_exe, lines) if b != 0]
        if bad:
            chk.violation("replay: `%s`: %s" % bad[0], "#! kind=support\n%s\n" % bad[0][0], True)
        else:
            chk.log("replay: every value inside the support (%d command(s))" % len(lines))
        return
    if kind == "gboost":
        try:
            gen_rngdist.run(impl)
        except c2lean.Untranslatable as ex:
            chk.violation("replay needs the model, which cannot be regenerated: %s" % ex, text, False)
            return
        ok, out = vlib.lake_build([GAMMA_DRIVER])
        if not ok:
            chk.violation("replay needs the driver for the guard of cmb_random_std_gamma, which does not build against this source", text, False)
            return
        msg = judge_gboost(c_exe, lines)
        if msg:
            chk.violation("replay: " + msg, text, False)
        else:
            chk.log("replay: library and regenerated guard agree on %d cases" % len(lines))
        return
    if kind == "tail":
        tabs = tail_tables(impl)
        name = lines[0].split()[1]
        msgs, summ = judge_tail(c_exe, name, tabs, lines)
        if msgs:
            chk.violation("replay: " + "; ".join(msgs), text, True)
        else:
            chk.log("replay: the far tail of %s agrees with the exact probabilities: %s" % (name, summ))
        return
    if kind == "tables":
        msgs = check_tables(impl)
        if msgs:
            chk.violation("replay: " + msgs[0], "#! kind=tables\n# %s\n" % msgs[0], True)
        else:
            chk.log("replay: the corner points of both ziggurat tables lie on the pdf")
        return
    if kind == "stat":
        sup = attrs.get("support", "-inf,inf,-").split(",")
        w = lines[0].split()
        job = {"name": w[1], "params": [float(x) for x in w[4:]], "n": int(w[2]), "seed": int(w[3]),
               "support": [sup[0], sup[1], "" if sup[2] == "-" else sup[2]], "line": lines[0]}
        res = run_stat(c_exe, [job])[0]
        if res["fails"]:
            chk.violation("replay: `%s`: %s" % (lines[0], "; ".join(res["fails"])), stat_replay_text(job, res["fails"]), True)
        else:
            chk.log("replay: the statistical tests pass")
        return
    if kind == "corr":
        try:
            gen_rng.run(impl)
            gen_rngdist.run(impl)
        except c2lean.Untranslatable as ex:
            chk.violation("replay needs the model, which cannot be regenerated: %s" % ex, text, False)
            return
        ok, out = vlib.lake_build(DRIVERS)
        if not ok:
            chk.violation("replay needs the model driver, which does not build", text, False)
            return
        msg, _ = judge_script(c_exe, lines, attrs.get("exact") == "1")
        if msg:
            chk.violation("replay: " + msg, text, "returned the index" in msg or "is not exact" in msg)
        else:
            chk.log("replay: library and model agree")
        return
    # a replay that only names theorems (no failing input was found): re-run the proof part
    try:
        gen_rng.run(impl)
        gen_rngdist.run(impl)
        if chk.prove(extra_targets=DRIVERS):
            chk.log("replay: all theorems of Props/C16.lean check against the current source")
        else:
            chk.violation("replay: Props/C16.lean still does not check", text, False)
    except c2lean.Untranslatable as ex:
        chk.violation("replay: the source still cannot be translated: %s" % ex, text, False)
