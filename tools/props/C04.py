"""C04 — waits return at the right time for exactly one cause; no stale wake-ups.

Proof:  Props/C04.lean over the process-layer model CimbaModel/Sim.
Tie:    harness/simdrv.c <-> Drivers/SimMain.lean on generated scenarios (profiles timers, lifecycle, resource, mixed, cond, pool, timerso), complete observable logs;
        tools/simmon.py (C04 clauses) on every implementation log. See tools/simcheck.py.
"""
import simcheck

PROFILES = ['timers', 'lifecycle', 'resource', 'mixed', 'cond', 'pool', 'timerso', 'coincide']


def run(chk):
    simcheck.run(chk, PROFILES)


def replay(chk, path):
    simcheck.replay(chk, path)
