"""C20 — pool-allocated objects are distinct, aligned and stable, across any number of pool expansions.

Proof:  Props/C20.lean over CimbaModel/Mempool/Model.lean (a statement-by-statement model of cmi_mempool.c/.h with the
        free list threaded through object memory and an abstract realloc whose result must be used): for EVERY
        sequence of allocations, frees and stores, every object size that is a multiple of 8, every chunk population,
        every page size and every CHUNK_LIST_SIZE the run never faults (expand_ok: no access outside the chunk list)
        and the invariant holds: live objects are pairwise disjoint, 8-aligned, inside their chunk with obj_sz bytes,
        free list and live set partition all slots, stored contents stay until the object is returned.
Ties:   T-gen  tools/gen_pool.py: size arithmetic and release asserts of cmi_mempool_initialize from the C AST,
        CHUNK_LIST_SIZE from the preprocessor; Props/C20 proves the model's initPool equal to them.
        T-corr harness/pooldrv.c <-> Drivers/PoolMain.lean, exact state of struct cmi_mempool (incl. canonicalised
        chunk list and free-list prefix) after every operation, scripts generated against the running model and
        steered across 1 / objects-per-chunk / 63-64-65 / 127-128-129 (/191-193) chunks with interleaved frees,
        dynamic pools, CMI_MEMPOOL_STATIC_INIT pools and the library's own thread-local pools; C side also under
        ASan+UBSan.  CHUNK_LIST_SIZE is read from the current source by the preprocessor on every run.
        The C driver is at the same time the property monitor on the real code (patterns, alignment, overlap).
"""
import collections
import os

import c2lean
import gen_pool
import poolcorr
import vlib

TRUSTED = [
    "Lean 4.33 kernel; axioms propext, Classical.choice, Quot.sound only (audited per theorem on every run)",
    "tools/c2lean.py + tools/gen_pool.py + clang's JSON AST (translation of the size arithmetic and asserts of cmi_mempool_initialize)",
    "hand-written model CimbaModel/Mempool/Model.lean, tied to src/cmi_mempool.c + cmi_mempool.h by exact-state "
    "differential execution (generator quality bounds what the tie sees)",
    "libc: malloc/aligned_alloc return fresh blocks disjoint from everything live, aligned_alloc(page, n) is page aligned, "
    "realloc keeps the old contents and invalidates the old pointer (modelled abstractly, not verified)",
    "harness/pooldrv.c (pointer canonicalisation, pattern/alignment/overlap monitors), gcc, ASan/UBSan",
    "size_t / unsigned wrap-around is not modelled: obj_sz * obj_num < 2^64 and objects per chunk < 2^32 assumed",
]


def script_text(lines, extra=()):
    return "\n".join(list(lines) + ["# " + e.replace("\n", "\n# ") for e in extra]) + "\n"


def describe(d):
    return "at op #%s '%s': impl '%s' vs model '%s'" % (d.get("index"), d.get("op"), str(d.get("impl"))[:160], str(d.get("model"))[:160])


def report(chk, c_rel, c_san, lean_exe, cls, lines, d, origin):
    """Turn a disagreement into a VIOLATION line.  Confirmed (replay = the script) when the real code itself breaks the
    property on it: monitor line, crash, abort or sanitizer report, in the release-like or the sanitizer build."""
    verdicts = {}
    for exe, tag in ((c_san, "ASan+UBSan build"), (c_rel, "release build")):
        if exe is None:
            continue
        rc, out, err = poolcorr.run_impl(exe, lines)
        v = poolcorr.verdict(rc, out, err)
        if v:
            verdicts[tag] = (exe, v)
    if verdicts:
        # shrink under the sanitizers when they see it (the report is at the faulting operation), else on the release build
        # ... unless the driver's own monitor already names the broken clause on the release build
        tag = "ASan+UBSan build" if "ASan+UBSan build" in verdicts else "release build"
        if verdicts.get("release build", (None, ""))[1].startswith("PROPERTY"):
            tag = "release build"
        exe, v = verdicts[tag]
        small = poolcorr.shrink(exe, lines)
        rc2, out2, err2 = poolcorr.run_impl(exe, small)
        v2 = poolcorr.verdict(rc2, out2, err2) or v
        other = ""
        if tag != "release build":
            rc3, out3, err3 = poolcorr.run_impl(c_rel, small + ([] if small[-1] == "end" else ["v", "end"]))
            v3 = poolcorr.verdict(rc3, out3, err3)
            other = "; release build on the same script: %s" % (v3 or "no crash, monitors silent (the damage is latent)")
            if not v3 and "release build" in verdicts:
                other += "; release build on the unshrunk script (%d ops): %s" % (len(lines), verdicts["release build"][1])
        _, mdef, _ = poolcorr.model_output(lean_exe, cls, small, defective=True)
        fault = [l for l in mdef if l.startswith("fault")][:1]
        what = ("memory pool breaks C20 on a valid alloc/free script (%s; %s): %s%s; the proved model completes the "
                "script (%d ops)%s" % (origin, tag, v2, other, len(small),
                                       ("; the model of expand with realloc's result dropped / count as byte size "
                                        "faults with '%s'" % fault[0].split(" |")[0]) if fault else ""))
        chk.violation(what, script_text(small, ["impl (%s) stderr:" % tag] + poolcorr.err_excerpt(err2)), True)
        return True
    if d.get("index") is not None and d["index"] + 1 < len(lines):
        # the stream differs at a definite operation: the prefix up to it is the replay
        lines = lines[:d["index"] + 1]
    what = ("mempool exact-state correspondence (pooldrv vs CimbaModel.Mempool.Model) broken (%s) %s; the real pool's own "
            "monitors (patterns, alignment, overlap, sanitizers) report nothing on this script" % (origin, describe(d)))
    chk.violation(what, script_text(lines, ["impl stderr:"] + poolcorr.err_excerpt(d.get("err", ""), 8)), False)
    return False


def loop_disagreements():
    """Chunk populations n (1..12) at which the regenerated trip count / stride of the chaining loop of cmi_mempool_expand
    differs from the model's (n - 1 steps of obj_sz / 8 words), evaluated in Lean on the generated definitions."""
    ok, _ = vlib.lake_build(["CimbaModel.Generated.Mempool"])
    if not ok:
        return []
    text = ("import CimbaModel.Generated.Mempool\nopen CimbaModel.Mempool CimbaModel.Generated.Mempool\n"
            "#eval (List.range 12).filterMap fun i => let n := i + 1; let s : MP := { incrNum := n, objSz := 64 }; "
            "if expand_links s = n - 1 ∧ expand_stride s = 8 then none else some n\n")
    rc, out = vlib.lean_run_file(text)
    import re
    m = re.search(r"\[([0-9, ]*)\]", out)
    return [int(x) for x in m.group(1).split(",") if x.strip()] if (rc == 0 and m) else []


def directed_script(kind, n):
    """alloc / free / re-alloc across several chunks of exactly n objects each"""
    sz = (poolcorr.PAGE // n) // 8 * 8
    if sz == 0 or poolcorr.objects_per_chunk(sz, n) != n:
        return None
    lines = ["page %d" % poolcorr.PAGE, "init %s %d %d" % (kind, sz, n)] + ["a"] * (3 * n + 2)
    lines += ["f 1", "f 0", "a", "a", "a", "v", "dump", "end"]
    return lines


def run(chk):
    quick = chk.tier == "quick"
    impl = vlib.build_impl("rel")
    san = vlib.build_impl("san")
    chk.cov["trusted_base"] = TRUSTED
    chk.assumptions += ["client programs are valid: free / store only to objects currently allocated from this pool, at most "
                        "obj_sz bytes per object, one thread per pool (thread-local pools)",
                        "obj_sz > 0 and a multiple of 8, obj_num > 0 (release asserts of cmi_mempool_initialize; obj_sz = 0 "
                        "divides by zero in the code and is a Fault in the model)",
                        "cmi_pagesize() is a power of two > 8 (asserted by cmi_aligned_alloc); the run uses %d" % poolcorr.PAGE]
    # ---- T-gen: size arithmetic + asserts of cmi_mempool_initialize, CHUNK_LIST_SIZE ---------------
    tgen_ok, cls = True, None
    try:
        info, _ = gen_pool.run(impl)
        chk.cov["generated_from"] = info
        cls = info["CHUNK_LIST_SIZE"]
    except c2lean.Untranslatable as ex:
        tgen_ok = False
        chk.log("translator cannot handle the current source: %s" % ex)
        cls = poolcorr.chunk_list_size(impl)
    # ---- proofs ----------------------------------------------------------
    proved = tgen_ok and chk.prove(extra_targets=["poolmain"])
    drivers_ok = True
    if not proved:
        drivers_ok, out = vlib.lake_build(["poolmain"])
        if not drivers_ok:
            chk.build_error = out
    if not cls:
        chk.violation("tie broken: CHUNK_LIST_SIZE cannot be read from src/cmi_mempool.c (the model takes it as a parameter)",
                      "stream: tools/poolcorr.chunk_list_size\n", False)
        return
    if not drivers_ok:
        chk.violation("model driver poolmain does not build", getattr(chk, "build_error", "")[-3000:], False)
        return
    # ---- T-corr ------------------------------------------------------------
    c_rel = vlib.cc_harness("pooldrv", impl)
    c_san = vlib.cc_harness("pooldrv", san)
    lean_exe = vlib.lean_exe("poolmain")
    libsizes = poolcorr.lib_pool_sizes(c_rel)
    bad = []          # (lines, diff, origin)
    n_corpus = 0
    for name, lines in poolcorr.corpus_scripts():
        _, mo, _ = poolcorr.model_output(lean_exe, cls, lines)
        for exe, tag in ((c_rel, "rel"), (c_san, "san")):
            n_corpus += 1
            d = poolcorr.compare(exe, lines, mo)
            if d is not None:
                bad.append((lines, d, "corpus/pool/%s, %s" % (name, tag)))
                break
    if quick:
        plan = [(0, 2500)] * 300 + [(1, 6000)] * 80 + [(2, 12000)] * 30 + [(3, 16000)] * 8
        plan_san = [(0, 1500)] * 48 + [(1, 5000)] * 16 + [(2, 9000)] * 6 + [(3, 14000)] * 2
    else:
        plan = [(0, 4000)] * 6000 + [(1, 8000)] * 1600 + [(1, 40000)] * 240 + [(2, 16000)] * 640 + [(2, 70000)] * 160 + \
               [(3, 26000)] * 160 + [(3, 100000)] * 40
        plan_san = [(0, 3000)] * 1600 + [(1, 8000)] * 640 + [(1, 40000)] * 64 + [(2, 16000)] * 240 + [(2, 70000)] * 32 + \
                   [(3, 26000)] * 32 + [(3, 100000)] * 8
    stats, b1 = poolcorr.run_generated(chk.seed, plan, c_rel, lean_exe, cls, libsizes)
    bad += [(l, d, "generated, release build") for l, d in b1]
    st_san, b2 = poolcorr.run_generated(chk.seed + 7919, plan_san, c_san, lean_exe, cls, libsizes)
    bad += [(l, d, "generated, ASan+UBSan build") for l, d in b2]
    for s in st_san:
        s["san"] = True
    stats += st_san
    # ---- proof broken: where does the regenerated loop of expand differ from the model's? aim scripts there ----
    if tgen_ok and not proved:
        for n in loop_disagreements()[:3]:
            for kind in ("dyn", "static"):
                lines = directed_script(kind, n)
                if lines is None:
                    continue
                _, mo, _ = poolcorr.model_output(lean_exe, cls, lines)
                for exe, tag in ((c_rel, "rel"), (c_san, "san")):
                    d = poolcorr.compare(exe, lines, mo)
                    chk.cov["evaluations"] = chk.cov.get("evaluations", 0)
                    if d is not None:
                        bad.append((lines, d, "directed at %d objects per chunk, where the regenerated chaining loop of "
                                               "cmi_mempool_expand takes a different number of steps than the model; %s" % (n, tag)))
    # ---- coverage ----------------------------------------------------------
    chk.cov["evaluations"] = len(stats) + n_corpus
    nontriv = {s["sig"] for s in stats if (s["expands"] >= 2 and s["reuse"] >= 1) or s["list_growths"] >= 1}
    chk.cov["distinct_nontrivial"] = len(nontriv)
    chk.cov["traces_validated_against_impl"] = sum(1 for s in stats if s.get("agree")) + n_corpus - sum(1 for b in bad if b[2].startswith("corpus"))
    chk.cov["rule"] = ("alloc/free/store/verify scripts generated against the running Lean model (profiles ramp/churn/sawtooth; "
                       "dynamic, CMI_MEMPOOL_STATIC_INIT and the library's own thread-local pools; object sizes 8..512 plus boundary geometries with exactly 1, 2, 3 objects per chunk of 1..4 pages (sizes at the edges of each population, objects larger than a page); requested "
                       "objects per chunk 1..1000; depth 0..3 = number of growths of the chunk list to cross, with a free/"
                       "re-allocate dance at every expansion next to such a growth; final partial or full drain and refill). "
                       "Non-trivial = at least two expansions and at least one allocation served from a returned object, or at "
                       "least one growth of the chunk list; distinct by content hash. Compared: result line and the visible "
                       "state of struct cmi_mempool (cookie, sizes, len, cnt, canonicalised chunk list, next_obj, first 32 "
                       "free-list entries) after EVERY operation, full free-list digests on `dump`; the C driver verifies "
                       "per-object patterns, alignment, chunk bounds and overlap on the real pointers.")
    if stats:
        growth_hist = collections.Counter(s["list_growths"] for s in stats)
        chk.cov["input_distribution"] = {
            "scripts": len(stats), "under_sanitizers": sum(1 for s in stats if s.get("san")), "corpus_runs": n_corpus,
            "profiles": dict(collections.Counter(s["profile"] for s in stats)),
            "kinds": dict(collections.Counter(s["kind"] for s in stats)),
            "obj_sizes": dict(collections.Counter(s["obj_sz"] for s in stats)),
            "ops_total": sum(s["ops"] for s in stats), "allocs_total": sum(s["allocs"] for s in stats),
            "reused_total": sum(s["reuse"] for s in stats), "expansions_total": sum(s["expands"] for s in stats),
            "chunk_list_growths_crossed": {str(k): v for k, v in sorted(growth_hist.items())},
            "reached_target_depth": sum(1 for s in stats if s.get("reached")),
            "max_chunks": max(s["chunks"] for s in stats), "max_live": max(s["max_live"] for s in stats),
            "objects_per_chunk_min_max": [min(s["per_chunk"] for s in stats), max(s["per_chunk"] for s in stats)],
            "objects_per_chunk": dict(collections.Counter(
                ("1" if s["per_chunk"] == 1 else "2" if s["per_chunk"] == 2 else "3" if s["per_chunk"] == 3 else
                 "4-16" if s["per_chunk"] <= 16 else "17-128" if s["per_chunk"] <= 128 else ">128") for s in stats)),
            "objects_larger_than_a_page": sum(1 for s in stats if s["obj_sz"] > poolcorr.PAGE),
            "CHUNK_LIST_SIZE": cls, "page": poolcorr.PAGE}
        with_head = [s for s in stats if "script_head" in s]
        with_head.sort(key=lambda s: -s["list_growths"])
        chk.cov["samples"] = [{k: s[k] for k in ("profile", "kind", "obj_sz", "obj_num", "per_chunk", "chunks", "ops", "allocs",
                                                  "reuse", "list_growths", "sig", "script_head")} for s in with_head[:3]]
    # ---- disagreements -------------------------------------------------------
    if bad:
        # prefer a disagreement on which the real code itself breaks the property
        bad.sort(key=lambda b: (b[1].get("verdict") is None, not str(b[1].get("verdict")).startswith("PROPERTY"), len(b[0])))
        lines, d, origin = bad[0]
        chk.log("%d disagreeing scripts; first: %s %s" % (len(bad), origin, describe(d)))
        report(chk, c_rel, c_san, lean_exe, cls, lines, d, origin)
    # ---- proof broken: the generated correspondence above is the search for a failing input ----------------
    if not proved and not chk.violations:
        errs = "\n".join(l for l in getattr(chk, "build_error", "").splitlines() if "error" in l)[:3000]
        probs = "\n".join(getattr(chk, "audit_result", {}).get("problems", []))
        chk.violation("a theorem of Props/C20.lean (or the translation of cmi_mempool_initialize it rests on) no longer checks; "
                      "%d generated scripts found no input on which the real pool misbehaves" % len(stats),
                      "theorems: CimbaModel.Props.C20.*\n" + errs + "\n" + probs, False)


def replay(chk, path):
    impl = vlib.build_impl("rel")
    san = vlib.build_impl("san")
    cls = poolcorr.chunk_list_size(impl) or 64
    try:
        gen_pool.run(impl)
        chk.prove(extra_targets=["poolmain"])
    except c2lean.Untranslatable:
        vlib.lake_build(["poolmain"])
    c_rel, c_san = vlib.cc_harness("pooldrv", impl), vlib.cc_harness("pooldrv", san)
    lean_exe = vlib.lean_exe("poolmain")
    lines = poolcorr.read_script(path)
    chk.cov["evaluations"] = 2
    chk.cov["distinct_nontrivial"] = 2
    chk.cov["rule"] = "replay of one script on the release-like and the ASan+UBSan build, each compared with the model"
    chk.cov["samples"] = [{"replay": os.path.basename(path), "ops": len(lines), "head": lines[:3]}]
    chk.cov["trusted_base"] = TRUSTED
    _, mo, _ = poolcorr.model_output(lean_exe, cls, lines)
    if any(l.startswith(("fault", "bad-op", "no-pool")) for l in mo):
        chk.log("the model does not accept this script as a valid client program: %s" % [l for l in mo if l.startswith(("fault", "bad-op", "no-pool"))][:1])
    worst = None
    for exe, tag in ((c_rel, "release build"), (c_san, "ASan+UBSan build")):
        d = poolcorr.compare(exe, lines, mo)
        if d is None:
            chk.log("replay agrees with the model (%s)" % tag)
            continue
        chk.log("replay disagrees (%s) %s; verdict on the real code: %s" % (tag, describe(d), d["verdict"]))
        if worst is None or (d["verdict"] and not worst[0]["verdict"]):
            worst = (d, tag)
    if worst:
        d, tag = worst
        chk.violation("replay still fails (%s) %s; real code: %s" % (tag, describe(d), d["verdict"] or "no monitor / sanitizer report"),
                      script_text(lines, ["impl stderr:"] + poolcorr.err_excerpt(d["err"])), bool(d["verdict"]))
