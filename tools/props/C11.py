"""C11 — buffer level is conserved and partial transfers are reported exactly.

Proof:  Props/C11.lean over the process-layer model CimbaModel/Sim.
Tie:    harness/simdrv.c <-> Drivers/SimMain.lean on generated scenarios (profiles buffer, mixed), complete observable logs;
        tools/simmon.py (C11 clauses) on every implementation log. See tools/simcheck.py.
"""
import simcheck

PROFILES = ['buffer', 'mixed', 'qdrain']


def run(chk):
    simcheck.run(chk, PROFILES)


def replay(chk, path):
    simcheck.replay(chk, path)
