"""C08 — no lost wake-ups.

Proof:  Props/C08.lean over the process-layer model CimbaModel/Sim.
Tie:    harness/simdrv.c <-> Drivers/SimMain.lean on generated scenarios (profiles resource, pool, buffer, oq, pq, mixed, crowd), complete observable logs;
        tools/simmon.py (C08 clauses) on every implementation log. See tools/simcheck.py.
"""
import simcheck

PROFILES = ['resource', 'pool', 'buffer', 'oq', 'pq', 'mixed', 'crowd', 'poolleft', 'coincide', 'qdrain']


def run(chk):
    simcheck.run(chk, PROFILES)


def replay(chk, path):
    simcheck.replay(chk, path)
