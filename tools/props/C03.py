"""C03 — context switches preserve execution state and deliver messages.

Proof:  Props/C03.lean
          machine part, for ALL register / flag / MXCSR / memory contents (symbolic x86-64 state, Ctx/X86.lean):
            switch_roundtrip, switch_frame_only, first_entry, return_goes_to_exit, init_frame_image
          bookkeeping part, over arbitrary scripts (Ctx/Coroutine.lean, inductions in Ctx/CoLemmas.lean):
            yield_returns_to_caller, value_returns_from_matching_call, resume_value_is_yield_result,
            yield_value_is_resume_result, exit_value_stored, exit_transfers_to_parent, stop_other_marks_finished,
            restart_runs_from_entry
Ties:   T-gen  tools/gen_ctxasm.py: objdump of the assembled cmi_coroutine_context_asm.o -> Generated/CtxAsm.lean
               (instruction lists, cross-checked against `nasm -E` of the source), and the store list of
               cmi_coroutine_context_init from the C source
        T-corr harness/ctxdrv.c (+ctxprobe.asm) <-> Drivers/CtxMain.lean: frame image, first entry / return observed at
               instruction level, random bookkeeping scripts through the real API
Test evidence (labelled as such): dynamic probes comparing the instruction semantics with the CPU.
"""
import collections
import os
import re

import ctxcorr
import gen_ctxasm
import vlib

TRUSTED = [
    "Lean 4.33 kernel; axioms propext, Classical.choice, Quot.sound only (audited per theorem on every run)",
    "my transcription of the Intel SDM semantics of the 14 instruction forms in lean/CimbaModel/Ctx/X86.lean (user mode, "
    "CPL 3, IOPL 0; word-granular memory, valid because every access is shown to be aligned: `ok`); compared with the CPU by "
    "harness/ctxprobe.asm on seeded register files on every run (test, not proof)",
    "the System V AMD64 callee-saved set {rbx, rbp, r12-r15, rsp, MXCSR control bits, x87 CW} and that compiled C code obeys "
    "it (hypothesis SysVReturn of return_goes_to_exit); the x87 control word is not saved by the code and not named by C03",
    "tools/gen_ctxasm.py + binutils objdump + nasm -E (object code and macro-expanded source must translate to the same list); "
    "the regex extraction of the stores of cmi_coroutine_context_init (validated by the frame-image correspondence)",
    "hand-written bookkeeping model CimbaModel/Ctx/Coroutine.lean, tied to src/cmi_coroutine.c by differential execution of "
    "random scripts (generator quality bounds what it sees)",
    "the C compiler; malloc returns disjoint blocks (stacks of different coroutines do not overlap: hypotheses hd2 / hd)",
]

ASSUMPTIONS = [
    "rsp, `old` and `new` are 8-byte aligned at every switch (stated hypotheses; the ABI gives 16)",
    "the outgoing frame [rsp-64, rsp) and *old do not overlap the incoming saved context and *new (distinct stacks / structs)",
    "between switch-out and switch-in nobody writes the suspended coroutine's saved 72 bytes nor its stack_pointer field",
    "MXCSR reserved bits are zero (hardware invariant); the message given to cmi_coroutine_start is dropped by the trampoline "
    "(the code clears rax), so C03's 'handed over' is claimed for resume / transfer / yield / exit only",
    "a coroutine is not re-initialised while it is RUNNING, nor while another coroutine is still suspended in a transfer to it "
    "(debug assert cmi_coroutine_stack_valid(to) after the switch, cmi_coroutine.c:255)",
    "release asserts of cmi_coroutine.c (and the debug asserts documenting a precondition: reset/initialize of main or of the "
    "current coroutine, stopping main) are preconditions: the model faults, the generator never emits such an operation",
]


def _errors(chk):
    out = getattr(chk, "build_error", "")
    errs = [l for l in out.splitlines() if "error" in l]
    thms = sorted(set(re.findall(r"(CimbaModel/(?:Props/C03|Ctx/\w+)\.lean:\d+)", "\n".join(errs))))
    return errs, thms


def failing_decls(chk):
    """names of the declarations of Props/C03.lean and Ctx/*.lean that lake reported errors in"""
    errs, locs = _errors(chk)
    names = []
    for loc in locs:
        path, line = loc.rsplit(":", 1)
        p = os.path.join(vlib.LEAN, path)
        if not os.path.exists(p):
            continue
        src = open(p).read().splitlines()
        for k in range(min(int(line), len(src)) - 1, -1, -1):
            m = re.match(r"\s*(?:@\[[^\]]*\]\s*)?theorem\s+(\S+)", src[k])
            if m:
                names.append("%s (%s)" % (m.group(1), path))
                break
    return sorted(set(names)), errs


def machine_search(chk, c_exe, lean_exe, quick):
    """The proof (or the translation) broke: look for a concrete machine state on which the regenerated code does not do
    what the property says, and confirm it on the CPU.  Returns True if a violation was reported."""
    files = ctxcorr.regfiles(chk.seed, 24 if quick else 200)
    res = ctxcorr.model_rt(lean_exe, files)
    for rf, r in zip(files, res):
        if r is None:
            continue
        vals, flags = r
        bad = ctxcorr.first_unpreserved(rf, vals)
        if bad is None and flags.get("back_rip_ok") == "true" and flags.get("other_rip_ok") == "true":
            continue
        why = bad or "control does not return to the caller (rip) %s" % flags
        rc, cpu, err = ctxcorr.cpu_rt(c_exe, [rf])
        cpu_bad = (rc != 0 or not cpu) and "the real double switch crashed (rc=%d)" % rc or ctxcorr.first_unpreserved(rf, cpu[0])
        replay = "kind: rt\n# rbx rbp r12 r13 r14 r15 mxcsr rflags msg_out msg_back (hex)\n%s\n# model (regenerated code): %s\n# cpu: %s\n" % (
            ctxcorr.rt_line(rf), why, cpu_bad)
        if cpu_bad:
            chk.violation("the assembled context switch does not preserve the context across a round trip: in the machine model "
                          "(regenerated instruction list) %s; on the CPU %s" % (why, cpu_bad), replay, True)
            return True
        chk.violation("the machine model of the regenerated switch code loses state (%s) but the CPU run of the same register "
                      "file does not: instruction semantics or translation suspect" % why, replay, False)
        return True
    # first entry / return
    n, problems, sample = ctxcorr.entry_check(c_exe, lean_exe)
    claims = [p for p in problems if "claim" in p or "failed rc" in p]
    if claims:
        chk.violation("first entry / return of a coroutine function does not meet C03 on the real code: %s" % claims[0],
                      "kind: entry\n# " + "\n# ".join(problems[:12]) + "\n", True)
        return True
    return False


def run(chk):
    quick = chk.tier == "quick"
    impl = vlib.build_impl("rel")
    chk.cov["trusted_base"] = TRUSTED
    chk.assumptions += ASSUMPTIONS
    # ---- T-gen -----------------------------------------------------------------------------------------------
    tgen_ok, tgen_msg = True, ""
    try:
        info, _ = gen_ctxasm.run(impl)
        chk.cov["generated_from"] = info
    except gen_ctxasm.Untranslatable as ex:
        tgen_ok, tgen_msg = False, str(ex)
        chk.log("translator cannot handle the current source: %s" % ex)
    # ---- proofs ----------------------------------------------------------------------------------------------
    proved = tgen_ok and chk.prove(extra_targets=["ctxmain"])
    drivers_ok = True
    if not proved:
        drivers_ok, out = vlib.lake_build(["ctxmain"]) if tgen_ok else (os.path.exists(vlib.lean_exe("ctxmain")), "")
    c_exe = ctxcorr.build_harness(impl)
    lean_exe = vlib.lean_exe("ctxmain")
    evals, nontriv, validated = 0, set(), 0
    # ---- the proof broke against the regenerated code: first look for a machine state that shows it ------------------
    if not proved and tgen_ok and drivers_ok:
        machine_search(chk, c_exe, lean_exe, quick)
    # ---- T-corr and probes -------------------------------------------------------------------------------------
    if drivers_ok and tgen_ok:
        # (i) frame image
        n, problems, finfo = ctxcorr.frame_check(c_exe, lean_exe)
        evals += n
        chk.cov["frame_images_compared"] = n
        chk.cov["context_init_stores_all_aligned"] = finfo.get("aligned_stores")
        if finfo.get("aligned_stores") == "false":
            chk.notes.append("cmi_coroutine_context_init writes the MXCSR image with a misaligned 8-byte store (C10, not C03: the "
                             "frame image is proved and observed to be the intended one; fixes/C10-mxcsr-store.patch)")
        if problems and not chk.violations:
            chk.violation("the initial frame written by cmi_coroutine_context_init is not the frame first_entry assumes: %s" % problems[0],
                          "kind: frame\n# " + "\n# ".join(problems[:10]) + "\n", True)
        elif not problems:
            validated += n
            for k in range(n):
                nontriv.add("frame-%d" % k)
        # first entry / return observed at instruction level
        n, problems, sample = ctxcorr.entry_check(c_exe, lean_exe)
        evals += n
        chk.cov["entries_observed"] = n
        if problems and not chk.violations:
            claims = [p for p in problems if "claim" in p or "failed rc" in p]
            chk.violation("first entry / return: %s" % (claims or problems)[0], "kind: entry\n# " + "\n# ".join(problems[:12]) + "\n",
                          bool(claims))
        elif not problems:
            validated += n
        # (iii) dynamic probes: instruction semantics against the CPU (test evidence)
        files = ctxcorr.regfiles(chk.seed, 512 if quick else 8000)
        mres = ctxcorr.model_rt(lean_exe, files)
        rc, cres, cerr = ctxcorr.cpu_rt(c_exe, files)
        evals += len(files)
        sem_bad = None
        if rc != 0 or len(cres) != len(files):
            sem_bad = "ctxdrv roundtrip failed rc=%d after %d of %d register files: %s" % (rc, len(cres), len(files), cerr[-500:])
        else:
            for rf, mr, cr in zip(files, mres, cres):
                if mr is None or mr[0] != cr:
                    sem_bad = "register file %s: machine model %s vs CPU %s" % (ctxcorr.rt_line(rf), mr and ["%x" % x for x in mr[0]],
                                                                               ["%x" % x for x in cr])
                    break
                nontriv.add("rt-" + ctxcorr.rt_line(rf))
        chk.cov["probe_roundtrip_register_files"] = len(files)
        probes_bad = []
        nseeds = 4 if quick else 24
        for k in range(nseeds):
            rc, o, e = vlib.run_driver(c_exe, "", args=["yieldprobe", str(chk.seed * 100 + k)], timeout=300)
            evals += 1
            if rc != 0 or "bad=0" not in o:
                probes_bad.append((o + e)[-1500:])
            else:
                nontriv.add("yieldprobe-%d" % k)
        chk.cov["probe_yield_runs"] = "%d runs x 3 coroutines x call depths 0..64" % nseeds
        if proved and (sem_bad or probes_bad) and not chk.violations:
            # theorems hold, CPU disagrees: either my instruction semantics is wrong or the C side loses state
            what = sem_bad or probes_bad[0]
            rf_bad = None
            if sem_bad and rc == 0 and len(cres) == len(files):
                for rf, cr in zip(files, cres):
                    if ctxcorr.first_unpreserved(rf, cr):
                        rf_bad = (rf, ctxcorr.first_unpreserved(rf, cr))
                        break
            if rf_bad:
                chk.violation("the CPU loses context across the double switch although the theorems hold for the machine model: %s" % rf_bad[1],
                              "kind: rt\n%s\n" % ctxcorr.rt_line(rf_bad[0]), True)
            elif probes_bad:
                chk.violation("callee-saved registers / MXCSR not preserved across cmi_coroutine_yield on the real code: %s" % probes_bad[0][-400:],
                              "kind: yieldprobe\nseed %d\n# %s\n" % (chk.seed * 100, probes_bad[0].replace("\n", "\n# ")), True)
            else:
                chk.violation("dynamic probe disagrees with the instruction semantics of Ctx/X86.lean: %s" % what,
                              "kind: rt\n# %s\n" % what, False)
        # (ii) bookkeeping scripts
        bad_total = []
        n_corpus = 0
        for name, lines in ctxcorr.corpus_scripts():
            n_corpus += 1
            d = ctxcorr.compare_script(c_exe, lean_exe, lines)
            if d is not None:
                bad_total.append((lines, d))
        total, max_ops = (3200, 150) if quick else (32000, 400)
        stats, bad = ctxcorr.run_generated(chk.seed, total, max_ops, c_exe, lean_exe)
        bad_total += bad
        # the same generator against the sanitizer build (ASan + UBSan, debug asserts on)
        san_stats = []
        try:
            c_san = ctxcorr.build_harness(vlib.build_impl("san"))
            san_stats, bad2 = ctxcorr.run_generated(chk.seed + 4242, 320 if quick else 3200, 120, c_san, lean_exe)
            for name, lines in ctxcorr.corpus_scripts():
                d = ctxcorr.compare_script(c_san, lean_exe, lines)
                if d is not None:
                    bad2.append((lines, d))
            chk.cov["san_scripts"] = len(san_stats)
            bad_total += bad2
            stats += san_stats
        except vlib.ImplBuildError as ex:
            chk.notes.append("san harness did not build: %s" % str(ex)[:300])
        evals += len(stats) + n_corpus
        validated += len(stats) + n_corpus - len(bad_total)
        for s in stats:
            if s["restarts"] or s["nested_starts"] or s["peer_transfers"] or s["stops_other"] or s["exit_parent_ne_caller"]:
                nontriv.add(s["sig"])
        kinds = collections.Counter()
        rej = collections.Counter()
        for s in stats:
            kinds.update(s["kinds"])
            rej.update(s["rejected"])
        chk.cov["input_distribution"] = {
            "scripts": len(stats), "corpus": n_corpus, "profiles": dict(collections.Counter(s["profile"] for s in stats)),
            "coroutines": dict(collections.Counter(s["n"] for s in stats)), "ops_total": sum(s["ops"] for s in stats),
            "op_kinds": dict(kinds), "rejected_by_model_(would_assert)": dict(rej),
            "restarts": sum(s["restarts"] for s in stats), "nested_starts": sum(s["nested_starts"] for s in stats),
            "peer_transfers": sum(s["peer_transfers"] for s in stats), "self_transfers": sum(s["self_transfers"] for s in stats),
            "stops_of_other": sum(s["stops_other"] for s in stats), "returns_through_trampoline": sum(s["exits_via_ret"] for s in stats),
            "exits_with_parent_ne_caller": sum(s["exit_parent_ne_caller"] for s in stats),
            "max_call_depth_at_switch": max([s["max_depth"] for s in stats] or [0])}
        if stats:
            chk.cov["samples"] = [{"profile": stats[0]["profile"], "coroutines": stats[0]["n"], "ops": stats[0]["ops"]},
                                  {"register_file": ctxcorr.rt_line(files[2])}, {"frame": finfo.get("sample", "")[:300]}]
        reported = bool(chk.violations)
        for lines, d in ([] if reported else bad_total):
            msg = ctxcorr.monitor(lines, d["impl_out"])
            if msg:
                small = ctxcorr.shrink(c_exe, lean_exe, lines,
                                       lambda c: ctxcorr.monitor(c, ctxcorr.run_c(c_exe, c)[1]) is not None)
                rc_s, out_s, err_s = ctxcorr.run_c(c_exe, small)
                msg2 = ctxcorr.monitor(small, out_s) or msg
                fatal = [l.strip() for l in err_s.splitlines() if "Fatal" in l or "runtime error" in l or "ERROR" in l]
                if fatal:
                    msg2 += " [%s]" % fatal[0][:200]
                chk.violation("the real coroutine API violates C03 on a script: %s" % msg2,
                              "kind: script\n" + "\n".join(small) + "\n# impl stderr: " + d["impl_err"][-600:].replace("\n", "\n# "), True)
                reported = True
                break
        if bad_total and not reported:
            lines, d = bad_total[0]
            small = ctxcorr.shrink(c_exe, lean_exe, lines, lambda c: ctxcorr.compare_script(c_exe, lean_exe, c) is not None)
            d2 = ctxcorr.compare_script(c_exe, lean_exe, small) or d
            chk.violation("bookkeeping correspondence (ctxdrv vs CimbaModel.Ctx.Coroutine) broken at op '%s': impl '%s' vs model '%s'; "
                          "the C03 clauses evaluated on the implementation's own log still hold on %d diverging scripts" % (
                              d2.get("op"), d2.get("impl"), d2.get("model"), len(bad_total)),
                          "kind: script\n" + "\n".join(small) + "\n# impl stderr: " + d2.get("impl_err", "")[-600:].replace("\n", "\n# "), False)
    elif not tgen_ok:
        pass
    else:
        chk.violation("model driver ctxmain does not build against the regenerated definitions", getattr(chk, "build_error", "")[-3000:], False)
    chk.cov["evaluations"] = evals
    chk.cov["distinct_nontrivial"] = len(nontriv)
    chk.cov["traces_validated_against_impl"] = validated
    chk.cov["rule"] = ("(a) bookkeeping scripts generated against the running Lean model (profiles asym/sym/nested/restart/mixed, 2-8 "
                       "coroutines, switching calls issued at C call depths 0..64, invalid operations proposed and rejected by the model), "
                       "non-trivial = contains a restart, a start from a non-main coroutine, a transfer between two non-main coroutines, "
                       "a stop of another coroutine, or an exit whose parent differs from its caller; distinct by content hash; every output "
                       "line (event, current, status/exit_value/parent/caller of all coroutines) compared.  (b) seeded register files for "
                       "the direct double switch, model vs CPU, each distinct file counts.  (c) frame images for 6 stack sizes x 2 exit "
                       "functions, (d) yield probes.  The theorems cover all contents; these runs tie the models to the code.")
    # ---- the proof or the translation broke: look for a failing input --------------------------------------------------
    if not proved and not chk.violations:
        found = False
        if not tgen_ok:
            # the instruction list could not be translated / object and source differ: the probes still run on the real code
            if os.path.exists(lean_exe):
                pass
            rc_files = ctxcorr.regfiles(chk.seed, 24)
            rc, cres, cerr = ctxcorr.cpu_rt(c_exe, rc_files)
            for rf, cr in zip(rc_files, cres):
                b = ctxcorr.first_unpreserved(rf, cr)
                if b:
                    chk.violation("translation failed (%s) and the real double switch loses context: %s" % (tgen_msg, b),
                                  "kind: rt\n%s\n" % ctxcorr.rt_line(rf), True)
                    found = True
                    break
            if not found and (rc != 0 or len(cres) != len(rc_files)):
                chk.violation("translation failed (%s) and the real double switch crashes (rc=%d)" % (tgen_msg, rc),
                              "kind: rt\n%s\n" % ctxcorr.rt_line(rc_files[len(cres) if len(cres) < len(rc_files) else 0]), True)
                found = True
            if not found:
                chk.violation("T-gen broken: %s" % tgen_msg, "translator: tools/gen_ctxasm.py\n%s\ntheorems not re-checked: CimbaModel.Props.C03.*\n" % tgen_msg, False)
            return
        if not found:
            names, errs = failing_decls(chk)
            probs = "\n".join(getattr(chk, "audit_result", {}).get("problems", []))
            chk.violation("theorems of the C03 proof no longer check against the regenerated definitions: %s" % (", ".join(names) or "see replay"),
                          "theorems: %s\n%s\n%s\n" % (", ".join(names), "\n".join(errs[:30]), probs), False)


def replay(chk, path):
    impl = vlib.build_impl("rel")
    try:
        gen_ctxasm.run(impl)
    except gen_ctxasm.Untranslatable as ex:
        chk.log("translator: %s" % ex)
    vlib.lake_build(["ctxmain"])
    c_exe = ctxcorr.build_harness(impl)
    lean_exe = vlib.lean_exe("ctxmain")
    raw = [l.rstrip("\n") for l in open(path)]
    kind = next((l.split(":", 1)[1].strip() for l in raw if l.startswith("kind:")), "script")
    body = [l.strip() for l in raw if l.strip() and not l.startswith("#") and not l.startswith("kind:")]
    chk.cov["evaluations"] = 1
    chk.cov["trusted_base"] = TRUSTED
    if kind == "script":
        d = ctxcorr.compare_script(c_exe, lean_exe, body)
        if d is None:
            chk.log("replay: implementation and model agree on every line")
            return
        msg = ctxcorr.monitor(body, d["impl_out"])
        chk.violation("replay still disagrees at op '%s': impl '%s' vs model '%s'; monitor on the implementation log: %s" % (
            d["op"], d["impl"], d["model"], msg or "clauses hold"), "kind: script\n" + "\n".join(body), msg is not None)
    elif kind == "rt":
        for l in body:
            rf = [int(x, 16) for x in l.split()]
            rc, cpu, err = ctxcorr.cpu_rt(c_exe, [rf])
            bad = "crash rc=%d" % rc if (rc != 0 or not cpu) else ctxcorr.first_unpreserved(rf, cpu[0])
            if bad:
                chk.violation("replay: the real double switch loses context: %s" % bad, "kind: rt\n%s\n" % l, True)
            else:
                chk.log("replay: register file preserved on the CPU")
    elif kind == "entry":
        n, problems, sample = ctxcorr.entry_check(c_exe, lean_exe)
        if problems:
            chk.violation("replay: %s" % problems[0], "kind: entry\n# " + "\n# ".join(problems[:12]) + "\n", any("claim" in p for p in problems))
    elif kind == "frame":
        n, problems, finfo = ctxcorr.frame_check(c_exe, lean_exe)
        if problems:
            chk.violation("replay: %s" % problems[0], "kind: frame\n# " + "\n# ".join(problems[:12]) + "\n", True)
    elif kind == "yieldprobe":
        seed = next((int(l.split()[1]) for l in body if l.startswith("seed")), 1)
        rc, o, e = vlib.run_driver(c_exe, "", args=["yieldprobe", str(seed)], timeout=300)
        if rc != 0 or "bad=0" not in o:
            chk.violation("replay: yield probe fails: %s" % (o + e)[-400:], "kind: yieldprobe\nseed %d\n" % seed, True)
