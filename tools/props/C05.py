"""C05 — a resource has at most one holder at any time.

Proof:  Props/C05.lean over the process-layer model CimbaModel/Sim.
Tie:    harness/simdrv.c <-> Drivers/SimMain.lean on generated scenarios (profiles resource, crowd, lifecycle, mixed), complete observable logs;
        tools/simmon.py (C05 clauses) on every implementation log. See tools/simcheck.py.
"""
import simcheck

PROFILES = ['resource', 'crowd', 'lifecycle', 'mixed', 'coincide']


def run(chk):
    simcheck.run(chk, PROFILES)


def replay(chk, path):
    simcheck.replay(chk, path)
