"""C13 — a condition wakes exactly the satisfied waiters.

Proof:  Props/C13.lean over the process-layer model CimbaModel/Sim.
Tie:    harness/simdrv.c <-> Drivers/SimMain.lean on generated scenarios (profiles cond), complete observable logs;
        tools/simmon.py (C13 clauses) on every implementation log. See tools/simcheck.py.
"""
import simcheck

PROFILES = ['cond', 'condcrowd', 'condfwd', 'coincide']


def run(chk):
    simcheck.run(chk, PROFILES)


def replay(chk, path):
    simcheck.replay(chk, path)
