"""C14 — recorded histories equal the true state trajectory.

Proof:  Props/C14.lean over the process-layer model CimbaModel/Sim.
Tie:    harness/simdrv.c <-> Drivers/SimMain.lean on generated scenarios (profiles record, mixed), complete observable logs;
        tools/simmon.py (C14 clauses) on every implementation log. See tools/simcheck.py.
"""
import simcheck

PROFILES = ['record', 'record2', 'mixed', 'longrec']


def run(chk):
    simcheck.run(chk, PROFILES)


def replay(chk, path):
    simcheck.replay(chk, path)
