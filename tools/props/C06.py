"""C06 — waiters are served by priority, then by waiting time; priority changes reorder.

Part 1 (this file, now): T-gen of guard_queue_check + Props/C06.lean (the C function IS the documented lexicographic order),
        exact-state correspondence of a real waiting-list heap under that order (shared with C02).
Part 2 (process layer): see tools/simcheck.py when present.
"""
import c2lean
import gen_orders
import hhcorr
import ordercheck
import vlib

TRUSTED = [
    "Lean 4.33 kernel; axioms propext, Classical.choice, Quot.sound only",
    "tools/c2lean.py + clang's JSON AST (translation of guard_queue_check)",
    "hashheap model tied to src/cmi_hashheap.c by exact-state differential execution (C02)",
]


def run(chk):
    impl = vlib.build_impl("hook")
    chk.cov["trusted_base"] = TRUSTED
    tgen_ok = True
    try:
        info, _ = gen_orders.run(impl)
        chk.cov["generated_from"] = [i for i in info if i["function"] == "guard_queue_check"]
    except c2lean.Untranslatable as ex:
        tgen_ok = False
        chk.log("translator cannot handle the current source: %s" % ex)
    proved = tgen_ok and chk.prove(extra_targets=["hhmain", "hhspec"])
    if not proved:
        found = False
        ok, out = vlib.lake_build(["hhspec"])
        if ok:
            pairs, _ = ordercheck.lean_disagreements("guard_queue_check", "guardB")
            chk.cov["evaluations"] += len(pairs)
            if not pairs:
                pairs = ordercheck.grid_pairs()
            if pairs:
                r = ordercheck.replay_on_impl("guard", pairs, impl)
                if r:
                    found = True
                    kf = [k for k in chk.known if k.get("id") == "guard-order-not-lexicographic"]
                    what = ("waiting-list order: the real queue serves a waiter ahead of one that the documented order "
                            "(priority, then waiting time) puts first: %s" % r[1])
                    if kf:
                        chk.known_finding(what)
                    else:
                        chk.violation(what, r[0], True)
        if not found:
            errs = "\n".join(l for l in getattr(chk, "build_error", "").splitlines() if "error" in l)[:3000]
            probs = "\n".join(getattr(chk, "audit_result", {}).get("problems", []))
            chk.violation("theorem CimbaModel.Props.C06.guard_order_is_lex (or the translation it rests on) no longer checks",
                          "theorems: CimbaModel.Props.C06.*\n" + errs + "\n" + probs, False)
        return
    # correspondence of a waiting-list heap under the real guard order (exact state)
    c_exe = vlib.cc_harness("hhdrv", impl)
    import os
    cdir = os.path.join(vlib.VERIF, "corpus", "c06")
    for f in sorted(os.listdir(cdir)) if os.path.isdir(cdir) else []:
        bad = judge_under_spec(c_exe, os.path.join(cdir, f))
        chk.cov["evaluations"] += 1
        if bad:
            chk.violation("corpus %s: the implementation's answers are rejected under the documented order: %s" % (f, bad[1]), bad[0], True)
    lean_exe, spec_exe = vlib.lean_exe("hhmain"), vlib.lean_exe("hhspec")
    import gen_hh
    orig = gen_hh.ORDERS
    gen_hh.ORDERS = ["guard"]
    try:
        total = 1600 if chk.tier == "quick" else 20000
        stats, bad = hhcorr.run_generated(chk.seed, total, 200, c_exe, lean_exe)
    finally:
        gen_hh.ORDERS = orig
    chk.cov["evaluations"] += len(stats)
    chk.cov["distinct_nontrivial"] = len({s["sig"] for s in stats if s["growths"] > 0})
    chk.cov["traces_validated_against_impl"] = len(stats) - len(bad)
    hh_eval, hh_nontriv, hh_valid = chk.cov["evaluations"], chk.cov["distinct_nontrivial"], chk.cov["traces_validated_against_impl"]
    # ---- process level: waiters served by priority then waiting time; priority changes reposition ----
    import simcheck
    simcheck.run(chk, ["crowd", "prioq", "resource", "pool", "lifecycle"], total_quick=10000, total_thorough=40000, extra_targets=["hhmain", "hhspec"])
    chk.cov["evaluations"] += hh_eval
    chk.cov["distinct_nontrivial"] += hh_nontriv
    chk.cov["traces_validated_against_impl"] += hh_valid
    chk.cov["input_distribution"]["waiting_list_heap_sequences"] = len(stats)
    chk.cov["rule"] += (" Additionally: waiting-list heaps (real guard_queue_check reached through cmb_resourceguard_initialize) driven with arbitrary "
                       "(priority, entry time, key) triples incl. ties and int64 extremes; non-trivial = crosses a capacity doubling "
                       "(more than 8 simultaneous waiters)")
    for lines, d in bad[:1]:
        r = hhcorr.behavioural_search(c_exe, lean_exe, spec_exe, lines)
        if r:
            chk.violation("waiting-list heap misbehaves: %s" % r[1], "\n".join(r[0]), True)
        else:
            chk.violation("waiting-list heap: exact-state correspondence broken at '%s'" % d.get("op"), "\n".join(lines), False)


def judge_under_spec(c_exe, path):
    """Run the ops of `path` on the implementation and judge its answers with Monitor.C02 under the DOCUMENTED order."""
    ops = [l.strip() for l in open(path) if l.strip() and not l.startswith("#")]
    rc, o, e = vlib.run_driver(c_exe, "\n".join(ops) + "\n")
    res = [hhcorr.strip_digest(l) for l in o.splitlines()]
    order = ops[0].split()[2]
    log = ["init 3 spec-%s => ok" % order] + ["%s => %s" % (x, y) for x, y in zip(ops[1:], res[1:])]
    rc, mo, me = vlib.run_driver(vlib.lean_exe("hhspec"), "\n".join(log) + "\n")
    if mo.startswith("bad") or len(res) != len(ops):
        return "\n".join(ops), mo.strip() or "implementation stopped early"
    return None


def replay(chk, path):
    impl = vlib.build_impl("hook")
    gen_orders.run(impl)
    vlib.lake_build(["hhspec"])
    c_exe = vlib.cc_harness("hhdrv", impl)
    chk.cov["evaluations"] = 1
    bad = judge_under_spec(c_exe, path)
    if bad:
        chk.violation("replay: the implementation's answers are rejected under the documented order: %s" % bad[1], bad[0], True)
    else:
        chk.log("replay: implementation's answers accepted under the documented order")
