"""C09 — ending a process notifies waiters once, frees holdings, silences its events.

Proof:  Props/C09.lean over the process-layer model CimbaModel/Sim.
Tie:    harness/simdrv.c <-> Drivers/SimMain.lean on generated scenarios (profiles lifecycle, mixed, resource, pool, timers, timerso), complete observable logs;
        tools/simmon.py (C09 clauses) on every implementation log. See tools/simcheck.py.
"""
import simcheck

PROFILES = ['lifecycle', 'mixed', 'resource', 'pool', 'timers', 'timerso', 'coincide']


def run(chk):
    simcheck.run(chk, PROFILES)


def replay(chk, path):
    simcheck.replay(chk, path)
