"""C10 — valid programs never hit memory errors, undefined behaviour or library aborts.

Proof:  Props/C10.lean: the `Except Fault` discipline of the container models (hashheap incl. growth: every operation of
        every valid history returns .ok — no out-of-bounds index, no release assert) re-exported from C02; event kernel.
Tie:    the SAME generated valid programs as the other checks, run against the library built with ASan + UBSan and debug
        asserts on (-DCIMBA_VERIF for the stack-unpoison hook): hashheap op sequences (exact state), event-kernel scripts,
        process-layer scenarios of every profile, plus corpus/san (populations steered to growth thresholds while the
        library holds pointers into the container). A sanitizer report or an abort on a valid program is a violation with
        that input as replay.
"""
import collections
import os

import ctxcorr
import evcorr
import gen_ctxasm
import gen_orders
import gen_sim
import hhcorr
import simcheck
import simcorr
import vlib


def run(chk):
    quick = chk.tier == "quick"
    san = vlib.build_impl("san")
    try:
        gen_orders.run(san)
    except Exception:
        pass        # simcheck.run below regenerates again and reports a translator failure as a broken tie
    # process layer under sanitizers (includes proofs + corpus/sim + monitors for aborts)
    simcheck.run(chk, gen_sim.PROFILES, total_quick=10000, total_thorough=40000, variant="san",
                 extra_targets=["hhmain", "evmain"])
    lean_sim = vlib.lean_exe("simmain")
    c_sim = vlib.cc_harness("simdrv", san)
    # sanitizer corpus (steered growth / alignment scenarios)
    cdir = os.path.join(vlib.VERIF, "corpus", "san")
    n_extra = 0
    for f in sorted(os.listdir(cdir)) if os.path.isdir(cdir) else []:
        lines = [l.strip() for l in open(os.path.join(cdir, f)) if l.strip() and not l.startswith("#")]
        (rc, out, err), _ = simcorr.run_pair(c_sim, lean_sim, lines)
        n_extra += 1
        if rc != 0:
            what = [l for l in err.splitlines() if "ERROR" in l or "runtime error" in l or "Assert" in l][:1]
            chk.violation("corpus/san/%s: the library terminates abnormally under sanitizers: %s" % (f, (what or [err[-200:]])[0]),
                          "\n".join(lines) + "\n# stderr: " + err[-1500:].replace("\n", "\n# "), True)
    # hashheap and event kernel under sanitizers
    c_hh = vlib.cc_harness("hhdrv", san)
    stats, bad = hhcorr.run_generated(chk.seed + 17, 1600 if quick else 20000, 300, c_hh, vlib.lean_exe("hhmain"))
    for lines, d in bad[:1]:
        chk.violation("hashheap under sanitizers: %s" % (d.get("impl_err", "")[-300:] or d.get("impl")),
                      "\n".join(lines) + "\n# stderr: " + d.get("impl_err", "")[-1500:].replace("\n", "\n# "), d.get("impl_rc", 0) != 0)
    c_ev = vlib.cc_harness("evdrv", san)
    st2, bad2 = evcorr.run_generated(chk.seed + 23, 1600 if quick else 20000, 150, c_ev, vlib.lean_exe("evmain"))
    for lines, d in bad2[:1]:
        chk.violation("event kernel under sanitizers: %s" % (d.get("impl_err", "")[-300:] or d.get("impl")),
                      "\n".join(lines) + "\n# stderr: " + d.get("impl_err", "")[-1500:].replace("\n", "\n# "), d.get("impl_rc", 0) != 0)
    # coroutine layer under sanitizers: initial frames for stack sizes that are / are not multiples of 16, first entry and return,
    # and generated start/yield/resume/transfer/exit/stop scripts (the C03 harness, here only "does it run clean")
    n_ctx = 0
    try:
        gen_ctxasm.run(san)
        if vlib.lake_build(["ctxmain"])[0]:
            lean_ctx = vlib.lean_exe("ctxmain")
            c_ctx = ctxcorr.build_harness(san)
            n, problems, _ = ctxcorr.frame_check(c_ctx, lean_ctx)
            n_ctx += n
            n2, problems2, _ = ctxcorr.entry_check(c_ctx, lean_ctx)
            n_ctx += n2
            bad_ctx = [p for p in problems + problems2 if "failed rc" in p or "ERROR" in p or "runtime error" in p or "stack_base" in p]
            if bad_ctx:
                chk.violation("coroutine set-up / first entry under sanitizers: %s" % bad_ctx[0][-400:],
                              "kind: frame\n# " + "\n# ".join(bad_ctx[:6]) + "\n", True)
            st3, bad3 = ctxcorr.run_generated(chk.seed + 29, 320 if quick else 3200, 120, c_ctx, lean_ctx)
            n_ctx += len(st3)
            for lines, d in bad3[:1]:
                if d.get("impl_rc", 0) != 0:
                    chk.violation("coroutine scripts under sanitizers: %s" % d.get("impl_err", "")[-300:],
                                  "kind: script\n" + "\n".join(lines) + "\n# stderr: " + d.get("impl_err", "")[-1500:].replace("\n", "\n# "), True)
    except (vlib.ImplBuildError, ImportError, AttributeError, gen_ctxasm.Untranslatable) as ex:
        chk.notes.append("coroutine harness not run under sanitizers: %s" % str(ex)[:200])
    chk.cov["input_distribution"]["coroutine_frames_entries_scripts"] = n_ctx
    chk.cov["evaluations"] += len(stats) + len(st2) + n_extra + n_ctx
    chk.cov["traces_validated_against_impl"] += len(stats) + len(st2) + n_extra - len(bad) - len(bad2)
    chk.cov["input_distribution"]["hashheap_sequences"] = len(stats)
    chk.cov["input_distribution"]["hashheap_growth_steps"] = sum(s["growths"] for s in stats)
    chk.cov["input_distribution"]["event_scripts"] = len(st2)
    chk.cov["input_distribution"]["sanitizer_corpus"] = n_extra
    chk.cov["rule"] += (" Additionally hashheap operation sequences (exact state, growth thresholds) and event-kernel scripts, all against the "
                        "ASan+UBSan build with debug asserts on.")


def replay(chk, path):
    simcheck.replay(chk, path, variant="san")
