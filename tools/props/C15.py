"""C15 — after seeding, the values returned by any fixed sequence of generator / distribution calls are a function of the
seed alone; the raw stream is the documented sfc64 bootstrapped with splitmix64 and 20 discarded outputs.

Proof:  Props/C15.lean over definitions REGENERATED from src/cmb_random.c (tools/gen_rng.py, tools/c2lean_rng.py):
        sfc64_is_spec, splitmix_is_spec, init_is_documented, raw_stream_is_documented, step_respects, init_overwrites_reads,
        reseed_forgets, all_state_thread_local, thread_locals_classified, …
Ties:   T-gen   state record, the seven integer-only functions, read set and the storage inventory from clang's AST
        T-corr  harness/rngdrv.c <-> Drivers/RngMain.lean, bit-exact, every line (raw, flip, cmb_random numerators, curseed,
                terminate, reseeding after arbitrary integer-only histories; sequentially and with concurrent threads)
Tests (labelled as such in the evidence): the floating-point samplers cannot be modelled bit-exactly in Lean; for them only
        the seed-alone differential on the implementation is run (same seed, different histories / threads => identical bit
        patterns), and the direct comparison implementation vs. Spec stream.
"""
import collections
import os
import random

import c2lean
import gen_rng
import rngcorr
import vlib

TRUSTED = [
    "Lean 4.33 kernel; axioms propext, Classical.choice, Quot.sound only (audited per theorem on every run)",
    "tools/c2lean_rng.py + tools/c2lean.py + clang's JSON AST (translation of cmb_random_sfc64, splitmix_initialize, splitmix64, "
    "cmb_random_initialize, cmb_random_terminate, cmb_random_curseed, cmb_random_flip; storage inventory); validated on every "
    "run by bit-exact differential execution of the compiled definitions against the library (harness/rngdrv.c vs rngmain)",
    "Rng/Spec.lean is the published sfc64 / splitmix64 (transcribed from PractRand's sfc.h and Vigna's splitmix64.c; "
    "known-answer examples from Rosetta Code's splitmix64 vector and numpy's SFC64 are checked by `decide`)",
    "C11 semantics of _Thread_local (one instance per thread), pthreads, the C compiler; shift amounts < 64 (proved: flip_shift_defined)",
    "hand-written one-line model of the header inline cmb_random() (numerator sfc64 >> 11), tied by T-corr only",
    "floating-point samplers: NOT modelled; covered by the seed-alone differential test on the implementation and by the "
    "per-variable classification of their function-static memo caches (allow-list in Rng/Inventory.lean, checked against "
    "the regenerated inventory by `decide`)",
]
DRIVERS = ["rngmain"]


def _sample(sc, limit=12):
    return {"kind": sc.kind, "mode": sc.mode, "runs": [r[:limit] for r in sc.runs[:3]]}


def run(chk):
    quick = chk.tier == "quick"
    impl = vlib.build_impl("rel")
    chk.cov["trusted_base"] = TRUSTED
    chk.assumptions += ["the calls of a sequence are made by one thread between two seedings of that thread (the library's documented usage)",
                        "sampler parameters inside the documented domains (asserted by the library) and away from the triggers of the "
                        "separately recorded sampler defects (C16)",
                        "the platform's libm functions are deterministic functions of their arguments"]
    # ---- T-gen -----------------------------------------------------------------------------
    tgen_ok, info = True, {}
    try:
        info, _ = gen_rng.run(impl)
        chk.cov["generated_from"] = info["functions"]
        chk.cov["state_fields"] = info["state_fields"]
        chk.cov["inventory_size"] = len(info["inventory"])
    except c2lean.Untranslatable as ex:
        tgen_ok = False
        chk.log("translator cannot handle the current source: %s" % ex)
        chk.tgen_error = str(ex)
    if tgen_ok:
        try:
            fpw, _ = gen_rng.run_fpenv(impl)
            chk.cov["fp_control_writes"] = fpw
        except c2lean.Untranslatable as ex:
            tgen_ok = False
            chk.log("translator cannot handle the current source: %s" % ex)
            chk.tgen_error = str(ex)
    # ---- proofs ----------------------------------------------------------------------------
    proved = tgen_ok and chk.prove(extra_targets=DRIVERS)
    drivers_ok = proved
    if tgen_ok and not proved:
        drivers_ok, out = vlib.lake_build(DRIVERS)
        if not drivers_ok:
            chk.log("model driver does not build:\n" + "\n".join(l for l in out.splitlines() if "error" in l)[:2000])
    c_exe = vlib.cc_harness("rngdrv", impl)
    r = random.Random(chk.seed * 1000003 + 15)
    evals, sigs, samples = 0, set(), []
    dist = collections.Counter()
    failures = []          # (kind, scenario, message)

    def account(sc):
        nonlocal evals
        evals += 1
        dist["%s/%s" % (sc.kind, sc.mode)] += 1
        for run_ in sc.runs:
            for op in run_:
                w = op.split()
                dist["op:" + (w[0] if w[0] != "dist" else "dist")] += 1
                if w[0] == "dist":
                    dist["dist:" + w[1]] += 1
        if rngcorr.nontrivial(sc):
            sigs.add(sc.sig())

    # ---- corpus first ------------------------------------------------------------------------
    n_corpus = 0
    for name, sc in rngcorr.corpus():
        n_corpus += 1
        account(sc)
        if sc.kind == "seedalone":
            msg = rngcorr.judge_seedalone(c_exe, sc)
            if msg:
                sc.note = "corpus/rng/%s\n%s" % (name, msg)
                failures.append(("seedalone", sc, "corpus/rng/%s: %s" % (name, msg)))
        elif drivers_ok:
            msg = rngcorr.judge_against_lean(c_exe, sc, spec=sc.kind == "spec")
            if msg:
                failures.append((sc.kind, sc, "corpus/rng/%s: %s" % (name, msg)))
    # ---- the documented stream, directly on the implementation (test) ----------------------------
    validated = 0
    if drivers_ok:
        specs = rngcorr.spec_scenarios(r, 8 if quick else 200)
        for sc, msg in zip(specs, vlib.parallel_map(lambda s: rngcorr.judge_against_lean(c_exe, s, spec=True), specs)):
            account(sc)
            if msg:
                failures.append(("spec", sc, msg))
            else:
                validated += 1
        samples.append(_sample(specs[0]))
    # ---- T-corr: implementation vs regenerated model, integer-only, every line -------------------
    corr_bad = []
    if drivers_ok:
        n = 1200 if quick else 12000
        corr = [rngcorr.gen_corr(r, big=(i % 10 == 0)) for i in range(n)]
        for sc, msg in zip(corr, vlib.parallel_map(lambda s: rngcorr.judge_against_lean(c_exe, s), corr)):
            account(sc)
            if msg:
                corr_bad.append((sc, msg))
            else:
                validated += 1
        samples.append(_sample(corr[0]))
        if not quick:
            san = vlib.build_impl("san")
            c_san = vlib.cc_harness("rngdrv", san)
            corr2 = [rngcorr.gen_corr(r) for _ in range(600)]
            for sc, msg in zip(corr2, vlib.parallel_map(lambda s: rngcorr.judge_against_lean(c_san, s), corr2)):
                account(sc)
                if msg:
                    corr_bad.append((sc, msg))
                else:
                    validated += 1
    # ---- seed-alone differential on the implementation (all samplers, histories, threads) (test) ----
    n = 1500 if quick else 16000
    sa = [rngcorr.gen_seedalone(r) for _ in range(n)]
    for sc, msg in zip(sa, vlib.parallel_map(lambda s: rngcorr.judge_seedalone(c_exe, s), sa)):
        account(sc)
        if msg:
            failures.append(("seedalone", sc, msg))
    samples.append(_sample(sa[0]))
    for sc, msg in zip(sa[::5], vlib.parallel_map(lambda s: rngcorr.judge_thread_identity(c_exe, s), sa[::5])):
        evals += 1
        dist["thread-identity"] += 1
        if msg:
            failures.append(("threads", rngcorr.Scenario("threads", "conc", [sc.runs[0]], msg), msg))
    # ---- which thread: main / pthread / worker of cimba_run_experiment / after an experiment (test) ---------
    fc = [rngcorr.gen_fpctx(r) for _ in range(40 if quick else 600)]
    for sc, msg in zip(fc, vlib.parallel_map(lambda s: rngcorr.judge_seedalone(c_exe, s), fc, workers=4)):
        account(sc)
        if msg:
            failures.append(("seedalone", sc, msg))
    samples.append(_sample(fc[0], limit=8))
    # ---- threads: all at once vs one after the other, on the implementation (test) -------------------
    th = [rngcorr.gen_threads(r, storm=(i % 8 == 0)) for i in range(160 if quick else 2000)]
    for sc, msg in zip(th, vlib.parallel_map(lambda s: rngcorr.judge_threads(c_exe, s), th, workers=4)):
        account(sc)
        if msg:
            failures.append(("threads", sc, msg))
    samples.append(_sample(th[1], limit=6))
    # ---- proof broken: model-steered search for a failing input -----------------------------------
    leak = []
    if tgen_ok:
        leak = [f for f in info["read_set"] if f not in set(sum([fn["writes"] for fn in info["functions"]
                                                                  if fn["function"] == "cmb_random_initialize"], []))]
    if not proved and tgen_ok and not any(k == "seedalone" for k, _, _ in failures):
        # the model says which state survives seeding (read by the calls, not written by cmb_random_initialize):
        # steer histories at exactly that state
        for k in (1, 3, 17, 63):
            for calls in (["flip 10"], ["flip 64", "raw 2"], ["raw 3", "flip 5"]):
                sc = rngcorr.Scenario("seedalone", "seq", [["seed 42", "mark"] + calls,
                                                           ["raw 2", "flip %d" % k, "seed 42", "mark"] + calls])
                account(sc)
                msg = rngcorr.judge_seedalone(c_exe, sc)
                if msg:
                    failures.append(("seedalone", sc, msg))
                    break
            if failures:
                break
    # a memo theorem broke: evaluate the regenerated memo prologues in Lean with IEEE doubles to find the keys for which the
    # cache is not a first-call cache, then confront the implementation with exactly those keys
    memo_note = ""
    if not proved and tgen_ok and drivers_ok:
        pairs, lean_out = rngcorr.lean_memo_disagreements(info.get("memo", []))
        for fname, ps in pairs.items():
            memo_note = (" The regenerated memo prologue of %s, evaluated in Lean with IEEE doubles, is not a function of its argument: "
                         "prologue x (prologue y init) differs from prologue x init for (x, y) = %s." % (fname, ", ".join("(%r, %r)" % p for p in ps[:3])))
            for sc in rngcorr.memo_scenarios(fname, ps):
                account(sc)
                msg = rngcorr.judge_seedalone(c_exe, sc)
                if msg:
                    failures.append(("seedalone", sc, msg))
        if not pairs and lean_out.strip():
            chk.log("memo grid in Lean: " + lean_out.strip()[:400])
    # ---- coverage ----------------------------------------------------------------------------------
    chk.cov["evaluations"] = evals
    chk.cov["distinct_nontrivial"] = len(sigs)
    chk.cov["traces_validated_against_impl"] = validated
    chk.cov["rule"] = (
        "THEOREM part: Props/C15.lean over the regenerated definitions (all seeds, all prior states, all call sequences over raw / flip / "
        "cmb_random numerator / curseed / terminate; decide over the regenerated storage inventory). "
        "TIE (T-corr, bit-exact, every output line): generated multi-run operation streams over the integer-only API with re-seeding "
        "(special seeds 0, 1, 2^64-1, 42, the dummy seed, 2^63, 2^32 and random 64-bit ones), each run on a fresh thread, sequentially and "
        "concurrently, implementation vs compiled Lean model. "
        "TEST part (not a theorem): (a) implementation vs the documented generator (Spec) for 40 raw outputs, 4 cmb_random numerators and a "
        "digest of up to 30000 further outputs per seed; (b) seed-alone differential on the implementation over ALL samplers: the same seed "
        "and calls after 1-3 different histories (earlier seeds, partially consumed bit caches, memoising samplers called with equal / "
        "different parameters, and with parameters that are different doubles less than 1e-9 apart), each on a fresh thread / all threads concurrently / one after another on the main thread; doubles compared "
        "as bit patterns; (c) 2-16 threads seeding themselves (every 8th scenario: re-seeding 100-300 times each) and drawing from all "
        "samplers at once vs one after the other: every thread's output must be the same; (d) the history-free run of every fifth scenario of (b) on the main thread vs on a new thread; (e) the same seed and calls — samplers at parameters whose results reach the subnormal range, the value-affecting bits of MXCSR, the next raw words — on the main thread before any experiment, on a plain pthread, in trials on cimba_run_experiment's worker threads, and on the main thread / a new pthread after the experiment. Non-trivial: seed-alone scenario with a non-empty history and a cache-using call (flip or a memoising sampler); "
        "correspondence stream with a re-seed after a draw or more than 64 flips in one call; every Spec comparison. Distinct by content hash.")
    chk.cov["input_distribution"] = dict(sorted(dist.items()))
    chk.cov["corpus"] = n_corpus
    chk.cov["samples"] = samples
    chk.cov["test_evidence_only"] = ["floating-point samplers (seed-alone differential on the implementation)",
                                     "implementation vs Spec stream (the theorem chain is Generated = Spec by proof, implementation = Generated by T-gen + T-corr)"]
    # ---- verdicts ------------------------------------------------------------------------------------
    fpnote = ""
    bad_fp = [w for w in chk.cov.get("fp_control_writes", []) if w["kind"] != "fesetround" and int(w["value"], 16) & 0xE040]
    if bad_fp:
        fpnote = ("; regenerated from the source: %s:%s sets MXCSR to %s, which changes rounding control / flush-to-zero / "
                  "denormals-are-zero (theorem fp_control_preserves_values fails)" % (bad_fp[0]["file"], bad_fp[0]["function"], bad_fp[0]["value"]))

    def still_fails(s):
        return rngcorr.judge_seedalone(c_exe, s) is not None
    sa_fail = [(sc, msg) for k, sc, msg in failures if k == "seedalone"]
    spec_fail = [(sc, msg) for k, sc, msg in failures if k == "spec"]
    if sa_fail:
        sc, msg = min(sa_fail[:20], key=lambda x: (sum(len(r_) for r_ in x[0].runs), x[0].mode != "seq"))
        if sc.mode == "ctx":
            # prefer a replay in which a SAMPLER's value differs over one in which only the MXCSR probe does
            cand = rngcorr.Scenario(sc.kind, sc.mode, [[o for o in r_ if o != "fpenv"] for r_ in sc.runs], sc.note)
            if still_fails(cand):
                sc = cand
        small = rngcorr.shrink(sc, still_fails)
        msg2 = rngcorr.judge_seedalone(c_exe, small) or msg
        model = ""
        if drivers_ok and small.mode != "ctx" and all(o.split()[0] not in ("dist", "distd", "fpenv", "ctx") for run_ in small.runs for o in run_):
            rc, runs, _ = rngcorr.run_lean(small)
            if rc == 0 and len(runs) == len(small.runs):
                ams = [rngcorr.after_mark(x) for x in runs]
                model = (" The regenerated Lean model reproduces the difference (so the code, not the tie, is at fault)"
                         if any(a != ams[0] for a in ams[1:]) else " The regenerated Lean model does NOT show the difference")
        model += memo_note
        if leak:
            model += "; state read by the calls but not written by cmb_random_initialize according to the AST: %s." % ", ".join(leak)
        small.note = ("seed-alone violated (%d failing scenarios, first one shrunk): %s%s\n"
                      "the lines after `mark` must be identical in all runs" % (len(sa_fail), msg2, model))
        chk.violation("values after seeding depend on %s: %s%s" % (
            "what other threads do at the same time (or on the history of the thread)" if small.mode == "conc"
            else ("which thread makes the calls (main thread / plain pthread / worker thread of cimba_run_experiment / after an "
                  "experiment)%s" % fpnote) if small.mode == "ctx"
            else "what the thread did before seeding", msg2, model), small.text(), True)
    th_fail = [(sc, msg) for k, sc, msg in failures if k == "threads"]
    if th_fail and not sa_fail:
        sc, msg = min(th_fail, key=lambda x: sum(len(r_) for r_ in x[0].runs))
        sc.note = ("what a thread draws depends on what other threads do at the same time (%d failing scenarios): %s\n"
                   "every run must print the same under `rngdrv conc` as under `rngdrv seq`" % (len(th_fail), msg))
        chk.violation("values drawn after seeding depend on what other threads do at the same time: " + msg, sc.text(), True)
    if spec_fail:
        sc, msg = spec_fail[0]
        sc.note = "the implementation's stream differs from the documented generator: " + msg
        chk.violation("the raw stream after seeding is not the documented sfc64 / splitmix64 / 20-discard generator: %s" % msg,
                      sc.text(), True)
    if corr_bad and not chk.violations:
        sc, msg = corr_bad[0]
        sc.note = "implementation vs regenerated model: " + msg
        chk.violation("T-corr broken: the library and the compiled regenerated model disagree (%d streams): %s; the implementation still "
                      "passes the seed-alone differential and the Spec comparison" % (len(corr_bad), msg), sc.text(), False)
    for k, sc, msg in failures:
        if k == "corr" and not chk.violations:
            chk.violation("corpus correspondence scenario fails: " + msg, sc.text(), False)
    if not tgen_ok and not chk.violations:
        chk.violation("T-gen broken: tools/gen_rng.py cannot translate the current src/cmb_random.c: %s; the implementation passes the "
                      "seed-alone differential%s" % (getattr(chk, "tgen_error", ""), "" if not drivers_ok else " and the Spec comparison"),
                      "translator: tools/gen_rng.py\n" + getattr(chk, "tgen_error", ""), False)
    if tgen_ok and not proved and not chk.violations:
        errs = "\n".join(l for l in getattr(chk, "build_error", "").splitlines() if "error" in l)[:3000]
        probs = "\n".join(getattr(chk, "audit_result", {}).get("problems", []))
        chk.violation("a theorem of Props/C15.lean no longer checks against the regenerated definitions; no failing input found on the "
                      "implementation%s" % ((" (model: fields %s survive seeding)" % ", ".join(leak)) if leak else ""),
                      "theorems: CimbaModel.Props.C15.*\n" + errs + "\n" + probs, False)


def replay(chk, path):
    impl = vlib.build_impl("rel")
    c_exe = vlib.cc_harness("rngdrv", impl)
    sc = rngcorr.parse(open(path).read())
    chk.cov["evaluations"] = 1
    chk.cov["trusted_base"] = TRUSTED
    if sc.kind == "seedalone":
        msg = rngcorr.judge_seedalone(c_exe, sc)
        if msg:
            chk.violation("replay: " + msg, sc.text(), True)
        else:
            chk.log("replay: all runs print the same values after `mark`")
        return
    if sc.kind == "threads":
        msg = None
        for _ in range(20):                      # a race does not show on every execution
            chk.cov["evaluations"] += 1
            msg = rngcorr.judge_threads(c_exe, sc)
            if msg:
                break
        if msg:
            chk.violation("replay: " + msg, sc.text(), True)
        else:
            chk.log("replay: every thread prints the same alone and with the others running (20 executions)")
        return
    try:
        gen_rng.run(impl)
    except c2lean.Untranslatable as ex:
        chk.violation("replay needs the model, which cannot be regenerated: %s" % ex, sc.text(), False)
        return
    ok, out = vlib.lake_build(DRIVERS)
    if not ok:
        chk.violation("replay needs the model driver, which does not build", sc.text(), False)
        return
    msg = rngcorr.judge_against_lean(c_exe, sc, spec=sc.kind == "spec")
    if msg:
        chk.violation("replay: " + msg, sc.text(), sc.kind == "spec")
    else:
        chk.log("replay: implementation agrees with the %s" % ("documented generator" if sc.kind == "spec" else "model"))
