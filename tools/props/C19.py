"""C19 — an experiment runs every trial exactly once, isolated, schedule-independent.

Proof:  Props/C19.lean — the dispenser / join of src/cimba.c as a transition system over ALL interleavings of the main thread
        and W workers (Experiment/Model.lean, in terms of the definitions regenerated from the C AST): exactly-once in
        every reachable and every terminal state, own element, join, no deadlock, a two-step fetch violates it (witness);
        `isolation`: every variable with static storage duration found in the library's current sources is classified and
        its class's side condition holds on the access / reset sets extracted from the AST.
Ties:   T-gen  tools/gen_tlsinv.py  (Generated/Dispenser.lean, Generated/TlsInventory.lean)
        T-corr harness/expdrv.c <-> Drivers/ExpMain.lean: every observed run of the real cimba_run_experiment is replayed
               as a schedule of the model and judged by Monitor.C19; result digests of a real simulation inside the trials
               are compared bit for bit with sequential references.  (differential TESTING of real thread schedules)
"""
import collections
import os

import c2lean
import expcorr
import gen_tlsinv
import vlib
from expcorr import Scenario

TRUSTED = [
    "Lean 4.33 kernel; axioms propext, Classical.choice, Quot.sound only (audited per theorem on every run)",
    "tools/gen_tlsinv.py + clang's JSON AST: inventory of static-storage variables with access and reset sets; shape of the "
    "worker loop and of the create / join loops of src/cimba.c (anything outside the recognised shape breaks the tie)",
    "hand-written model CimbaModel/Experiment/Model.lean (atomic actions of worker_thread_func / cimba_run_experiment), tied to "
    "the real runner by replaying every observed run as a model schedule",
    "pthreads (create / join / cleanup), __atomic_fetch_add with SEQ_CST and the hardware memory model are trusted, not modelled",
    "that the classes PureMemo / Scratch / AddressOnly / LogOutputOnly carry nothing into results is argued per variable "
    "(Experiment/Isolation.lean) and exercised by the differential runs, not proved; libc malloc state is outside the inventory",
    "C15 for what cmb_random_initialize resets the generator to",
]

FLIP_WHAT = ("the coin-flip bit cache (static bits / bitpos of cmb_random_flip) survives cmb_random_initialize: a trial that "
             "seeds the generator from its own parameter gets different flips depending on what ran before it on the same "
             "worker thread")
TIE_WHAT = ("id=address-tiebreak equal-priority waiters of the same instant are served in order of process ADDRESS "
            "(cmb_resourceguard.c key=(uint64_t)pp): the same experiment gives different results for different worker "
            "counts / delay patterns / orders")


MAX_REPORTS = 3


def report(chk, what, text, found):
    """at most MAX_REPORTS VIOLATION lines per run; further failing runs are only counted"""
    if len(chk.violations) < MAX_REPORTS:
        chk.violation(what, text, found)
    else:
        chk.suppressed = getattr(chk, "suppressed", 0) + 1


class Runner:
    def __init__(self, chk, c_exe, lean_exe):
        self.chk, self.c_exe, self.lean_exe = chk, c_exe, lean_exe
        self.refs = {}
        self.evals = 0
        self.validated = 0

    def ref(self, sc, mode="seq"):
        k = (mode,) + sc.ref_key()
        if k not in self.refs:
            rc, out, err = expcorr.run_one(self.c_exe, Scenario(mode, 1 if mode == "solo" else 0, sc.n, 64, sc.seed, 0, 0, sc.kinds))
            self.evals += 1
            self.refs[k] = (rc, expcorr.parse_output(out), err)
        return self.refs[k]

    def run_par(self, sc):
        """returns dict(problems=[...], r=parsed, out=text, verdict, replay)"""
        rc, out, err = expcorr.run_one(self.c_exe, sc)
        r = expcorr.parse_output(out)
        probs = []
        if rc != 0:
            probs.append("harness exit code %d: %s" % (rc, err[-300:].replace("\n", " | ")))
        probs += expcorr.check_counters(sc, r)
        verdict = replay = ""
        if sc.mode == "par" and r["P"] is not None:
            verdict, replay = expcorr.model_check(self.lean_exe, out)
            if not verdict.startswith("verdict ok"):
                probs.append("Monitor.C19 on the implementation log: " + verdict)
        return {"problems": probs, "r": r, "out": out, "err": err, "verdict": verdict, "replay": replay, "rc": rc}


def _judge(self, sc, out, rc, err, ordinal, of):
    r = expcorr.parse_output(out)
    probs = []
    if rc != 0:
        probs.append("harness exit code %d: %s" % (rc, err[-300:].replace("\n", " | ")))
    probs += expcorr.check_counters(sc, r)
    verdict = replay = ""
    if sc.mode == "par" and r["P"] is not None:
        verdict, replay = expcorr.model_check(self.lean_exe, out)
        if not verdict.startswith("verdict ok"):
            probs.append("Monitor.C19 on the implementation log: " + verdict)
    if probs and of > 1:
        probs = ["experiment %d of %d run by the same process (n = %d, size %d): %s" % (ordinal + 1, of, sc.n, sc.size, probs[0])] + probs[1:]
    return {"problems": probs, "r": r, "out": out, "err": err, "verdict": verdict, "replay": replay, "rc": rc}


def _run_group(self, group):
    """several experiments in ONE process; returns one result dict per experiment"""
    rc, blocks, err = expcorr.run_group(self.c_exe, group)
    res = []
    for j, sc in enumerate(group):
        out = blocks[j] if j < len(blocks) else ""
        res.append(_judge(self, sc, out, rc if j >= len(blocks) - 1 else 0, err, j, len(group)))
    return res


Runner.run_group = _run_group


def replay_text(sc_lines, res=None, extra=""):
    t = "\n".join(sc_lines) + "\n"
    if extra:
        t += "# " + extra.replace("\n", "\n# ") + "\n"
    if res is not None:
        t += "# observed output of the first line (P/S/E = log, C = calls per index, D = digests, R = join):\n"
        t += "".join("# " + l + "\n" for l in res["out"].splitlines()[:400])
    return t


def run(chk):
    quick = chk.tier == "quick"
    impl = vlib.build_impl("rel")
    chk.cov["trusted_base"] = TRUSTED
    chk.assumptions += [
        "trial functions return, establish everything they rely on (seed, event queue, logger flags) from their own "
        "parameters, and do not write outside their own element",
        "num_trials > 0, trial_struct_size > 0, non-NULL array and function (release asserts of cimba_run_experiment); "
        "index * size does not wrap (the array exists in memory); experiments of one process run one after the other, not concurrently",
        "results that depend on object addresses are excluded (known finding address-tiebreak)",
    ]
    # ---- T-gen ---------------------------------------------------------
    tgen_ok, table = True, []
    try:
        info, table, _ = gen_tlsinv.run(impl)
        chk.cov["generated_from"] = info
    except c2lean.Untranslatable as ex:
        tgen_ok = False
        chk.tgen_error = str(ex)
        chk.log("translator cannot handle the current source: %s" % ex)
    # ---- proofs ----------------------------------------------------------
    proved = tgen_ok and chk.prove(extra_targets=["expmain"])
    drivers_ok = True
    if not proved:
        if not tgen_ok:
            # fall back to the documented dispenser so that the model driver exists for the search below
            _write_reference_generated()
        ok, out = vlib.lake_build(["expmain"])
        drivers_ok = ok
        if not ok and tgen_ok:
            _write_reference_generated(keep_inventory=True)
            drivers_ok, out = vlib.lake_build(["expmain"])
    c_exe = vlib.cc_harness("expdrv", impl)
    lean_exe = vlib.lean_exe("expmain")
    rn = Runner(chk, c_exe, lean_exe)
    # ---- inventory report ------------------------------------------------
    leaks, badvars = [], []
    if drivers_ok:
        rc, o, e = vlib.run_driver(lean_exe, "", args=["inventory"])
        classes = collections.Counter()
        for l in o.splitlines():
            w = l.split()
            if len(w) == 6:
                classes[w[1]] += 1
                if w[1] == "Leaks":
                    leaks.append(w)
                if w[0] != "ok":
                    badvars.append(w)
        chk.cov["inventory_classes"] = dict(classes)
        # every memoised sampler of the inventory must have a neighbouring-keys design (equal / 1 ulp / far) in the harness
        memo_fns = sorted({t["function"] for t in table if t["function"] and t["tls"] and not t["const"]
                           and t["file"] == "src/cmb_random.c"})
        chk.cov["memoised_samplers"] = memo_fns
        unexercised = [f for f in memo_fns if f not in expcorr.MEMO_FUNCTIONS_EXERCISED]
        if unexercised and not leaks:
            report(chk, "function-static cache(s) in %s: harness/expdrv.c (ulp_block) has no equal / 1-ulp / far-apart parameter "
                   "design for them" % ", ".join(unexercised), "memoised samplers without a differential design: %s\n"
                   "theorems: CimbaModel.Props.C19.isolation (class PureMemo is argued, not proved)" % ", ".join(unexercised), False)
    flips_ok = tgen_ok and not leaks and not any(t["name"] in ("bits", "bitpos") and t["function"] == "cmb_random_flip" for t in table)
    # ---- corpus ----------------------------------------------------------
    stats = []
    n_corpus = 0
    for path in expcorr.corpus_files():
        name = os.path.basename(path)
        expect, groups = expcorr.read_corpus(path)
        multi = any(len(g) > 1 for g in groups)
        scs = [g[0] for g in groups]
        results, file_bad = [], False
        for grp in groups:
            gres = rn.run_group(grp)
            rn.evals += 1
            n_corpus += 1
            for sc, res in zip(grp, gres):
                if not res["problems"] and multi and sc.kinds and sc.mode == "par":
                    rc, ref, err = rn.ref(sc, "solo")
                    if expcorr.digests(res["r"]) != expcorr.digests(ref):
                        res["problems"].append("result digests differ from the same trials each run alone as a one-trial experiment")
                if res["problems"]:
                    if not file_bad:
                        report(chk, "corpus %s: %s" % (name, "; ".join(res["problems"][:3])),
                               replay_text([expcorr.group_line(grp)], res), True)
                    file_bad = True
                    break
                if sc.mode == "par" and not res["replay"].startswith("replay ok"):
                    report(chk, "corpus %s: the observed run is not a behaviour of CimbaModel.Experiment.Model: %s; the counters and "
                           "Monitor.C19 accept the run" % (name, res["replay"]), replay_text([expcorr.group_line(grp)], res), False)
                else:
                    rn.validated += 1
                    if sc.mode == "par":
                        stats.append(dict(expcorr.assignment_sig(res["r"]), n=sc.n, W=res["r"]["P"][0], size=sc.size, kinds=sc.kinds,
                                          pat=sc.pat, ordinal=grp.index(sc)))
            else:
                if not multi:
                    results.append((grp[0], gres[0]))
        if multi:
            continue
        if file_bad or not results:
            continue
        vecs = {expcorr.digests(res["r"]) for _, res in results}

        def first_diff():
            return next(i for i in range(scs[0].n) if len({res["r"]["D"].get(i, ("?",))[0] for _, res in results}) > 1)
        if name == "address-tiebreak.txt":
            if len(vecs) > 1:
                orders = ["%s: %s" % (sc.line(), " ".join(res["r"]["D"][i][1] for i in sorted(res["r"]["D"]) if i % 2))
                          for sc, res in results]
                if any(k.get("id") == "address-tiebreak" for k in chk.known):
                    chk.known_finding(TIE_WHAT + " (replay corpus/exp/address-tiebreak.txt: %d distinct result vectors over %d runs)"
                                      % (len(vecs), len(results)))
                else:
                    report(chk, TIE_WHAT, replay_text([sc.line() for sc, _ in results], None,
                                                      "service order (ab / ba) of the odd trials per run:\n" + "\n".join(orders)), True)
            else:
                chk.notes.append("address-tiebreak scenario did not produce differing results in this run (allocator dependent)")
        elif len(vecs) > 1 and expect == "same":
            i = first_diff()
            per_run = "digest of trial %d per run: %s" % (i, ", ".join(res["r"]["D"].get(i, ("?",))[0] for _, res in results))
            if name == "flip-cache.txt" and leaks:
                what = FLIP_WHAT + "; first differing trial: %d" % i
            else:
                what = "corpus %s: result digests depend on the schedule / order; first differing trial %d" % (name, i)
            report(chk, what, replay_text([sc.line() for sc, _ in results], None, per_run), True)
        elif name == "flip-cache.txt" and leaks:
            chk.notes.append("flip cache classified Leaks but the corpus scenario showed no difference")
        if name == "logger-mask-persists.txt":
            aux = {tuple(res["r"]["D"][i][1] for i in sorted(res["r"]["D"])) for _, res in results}
            chk.cov["logger_mask_persistence"] = (
                "observed: bytes logged by trials that do not set their flags differ between runs (%d distinct vectors); "
                "digests identical" % len(aux)) if len(aux) > 1 else "not observed in this run"
    # ---- generated scenarios ---------------------------------------------
    total = 1200 if quick else 12000
    groups = [[sc] for sc in expcorr.generate(chk.seed, total, flips_ok)]
    groups += [[sc] for sc in expcorr.stress(chk.seed, 40 if quick else 400)]
    groups += expcorr.generate_groups(chk.seed, 120 if quick else 1500, flips_ok)
    groups += expcorr.stress_groups(chk.seed, 10 if quick else 100)

    def work(grp):
        return grp, rn.run_group(grp)
    # sequential references first (shared), in parallel
    keys = {}
    for grp in groups:
        for sc in grp:
            if sc.kinds:
                keys.setdefault(sc.ref_key(), sc)
    vlib.parallel_map(lambda sc: rn.ref(sc, "solo"), list(keys.values()), workers=max(2, vlib.NPROC // 2))
    some = list(keys.values())[:: max(1, len(keys) // 24)]
    vlib.parallel_map(lambda sc: (rn.ref(sc, "seq"), rn.ref(sc, "rev"), rn.ref(sc, "fresh")), some, workers=max(2, vlib.NPROC // 2))
    # the runner itself: a few processes at a time, so that runs with many threads overlap and perturb each other
    gresults = vlib.parallel_map(work, groups, workers=4)
    rn.evals += len(gresults)
    results = [(grp[0], gres[0]) for grp, gres in gresults if len(grp) == 1]
    bad = []
    for grp, gres in gresults:
        for j, (sc, res) in enumerate(zip(grp, gres)):
            probs = list(res["problems"])
            if not probs and sc.kinds:
                rc, ref, err = rn.ref(sc, "solo")
                d, dr = expcorr.digests(res["r"]), expcorr.digests(ref)
                if rc != 0 or d != dr:
                    first = next((i for i in range(sc.n) if i >= len(d) or i >= len(dr) or d[i] != dr[i]), 0)
                    probs.append("outcome of trial %d (result digest incl. the next 64 bits of its random stream) differs from the same "
                                 "trial run alone as a one-trial experiment on a fresh worker (%s vs %s)"
                                 % (first, d[first] if first < len(d) else "?", dr[first] if first < len(dr) else "?"))
                for mode in ("seq", "rev", "fresh"):
                    k = (mode,) + sc.ref_key()
                    if k in rn.refs and expcorr.digests(rn.refs[k][1]) != dr:
                        probs.append("running the trials one after the other in one thread (order '%s') gives different outcomes than "
                                     "running each alone" % mode)
            if probs:
                bad.append((grp, sc, res, probs, True))
                break
            elif not res["replay"].startswith("replay ok"):
                bad.append((grp, sc, res, ["the observed run is not a behaviour of CimbaModel.Experiment.Model: %s; counters, "
                                           "Monitor.C19 and digests accept the run" % res["replay"]], False))
                break
            else:
                rn.validated += 1
                stats.append(dict(expcorr.assignment_sig(res["r"]), n=sc.n, W=res["r"]["P"][0], size=sc.size, kinds=sc.kinds,
                                  pat=sc.pat, ordinal=j))
    for grp, sc, res, probs, found in bad:
        lines = [expcorr.group_line(grp)] + ([Scenario("solo", 1, sc.n, sc.size, sc.seed, 0, 0, sc.kinds).line()] if sc.kinds else [])
        report(chk, "; ".join(probs[:3]), replay_text(lines, res), found)
    if bad:
        chk.cov["failing_runs"] = len(bad)
    # ---- ThreadSanitizer on trials without coroutines (the hand-switched stacks are not known to TSan) ------------------
    if not chk.violations:
        vlib.VARIANTS.setdefault("tsan", ["-O1", "-g", "-fno-omit-frame-pointer", "-fsanitize=thread", "-DNDEBUG"])
        try:
            tsan = vlib.build_impl("tsan")
            c_tsan = vlib.cc_harness("expdrv", tsan)
        except vlib.ImplBuildError as ex:
            c_tsan = None
            chk.notes.append("ThreadSanitizer build not available: %s" % str(ex)[:200])
        if c_tsan:
            rt = Runner(chk, c_tsan, lean_exe)
            plain = [0, expcorr.K_SAMP, expcorr.K_SAMP | expcorr.K_MEMO] + ([expcorr.K_SAMP | expcorr.K_FLIP] if flips_ok else [])
            n_ts = 0
            for k, (W, n) in enumerate([(4, 200), (0, 64), (3, 3), (2, 1), (8, 2000), (0, 500)] if quick else
                                       [(4, 200), (0, 64), (3, 3), (2, 1), (8, 2000), (0, 500)] * 8):
                sc = Scenario("par", W, n, expcorr.SIZES[k % len(expcorr.SIZES)], chk.seed + k, k % 7, 20 if n < 100 else 0,
                              plain[k % len(plain)])
                res = rt.run_par(sc)
                rn.evals += 1
                n_ts += 1
                race = [l for l in res["err"].splitlines() if "ThreadSanitizer" in l]
                if race or res["problems"]:
                    locs = [l.strip() for l in res["err"].splitlines() if l.strip().startswith("#0") or "Location is" in l][:4]
                    report(chk, "ThreadSanitizer build: %s %s" % ("; ".join(race[:1] + res["problems"][:2]), " | ".join(locs)),
                           replay_text([sc.line()], res, res["err"][:3000]), True)
                    break
                rn.validated += 1
            chk.cov["threadsanitizer_runs"] = n_ts
    # ---- thorough: sanitizer build on a slice -----------------------------
    if not quick and not chk.violations:
        san = vlib.build_impl("san")
        c_san = vlib.cc_harness("expdrv", san)
        rs = Runner(chk, c_san, lean_exe)
        for sc in expcorr.generate(chk.seed + 7919, 60, flips_ok):
            res = rs.run_par(sc)
            rn.evals += 1
            if res["problems"]:
                report(chk, "sanitizer build: " + "; ".join(res["problems"][:3]), replay_text([sc.line()], res), True)
                break
            rn.validated += 1
    # ---- coverage ---------------------------------------------------------
    chk.cov["evaluations"] = rn.evals
    nontriv = {s["sig"] for s in stats if s["threads"] >= 2 and s["max_per_thread"] >= 2}
    chk.cov["distinct_nontrivial"] = len(nontriv)
    chk.cov["traces_validated_against_impl"] = rn.validated
    chk.cov["rule"] = (
        "one evaluation = one process running cimba_run_experiment (or a sequential reference) on a generated experiment, or on two "
        "or three experiments one after the other (later ones larger than, equal to, smaller than the first; other sizes / W): trial "
        "counts 1, 2, cores-1, cores, cores+1, 10*cores and one more; struct sizes 64..4104 incl. sizes that are not a multiple of 8; "
        "W = the library's own core count or 1..4*cores (cmi_cpu_cores overridden at link time); seven per-trial busy-delay patterns; "
        "trial contents: processes + resource, buffer, object queue, 16 samplers, gamma/geometric caches with alternating "
        "parameters, logger flags set per trial with the log digested, coin flips when the cache is reset by seeding. Checked per "
        "run: per-index call counters = 1, own element, calls finished at return = n, no call outside the array, guard bytes; the "
        "S/E log replayed as a schedule of the Lean model and judged by Monitor.C19; every trial's outcome (digest incl. the next raw 64 "
        "bits of its stream) bit-identical to the same trial run ALONE as a one-trial experiment in a forked process (and to the "
        "sequential / reverse / new-thread-per-trial orders for a sample); every fourth experiment reuses seeds between trials (all "
        "equal or period 3), half of those with trials that call cmb_random_terminate(). non-trivial = at least two worker threads ran trials and some "
        "thread ran at least two (there is an 'earlier trial on the same worker'); distinct by hash of the (index -> thread) "
        "assignment and the start order. This part is differential testing of real thread schedules.")
    chk.cov["input_distribution"] = {
        "trial_counts": dict(collections.Counter(s["n"] for s in stats)),
        "workers": dict(collections.Counter(s["W"] for s in stats)),
        "sizes": dict(collections.Counter(s["size"] for s in stats)),
        "delay_patterns": dict(collections.Counter(s["pat"] for s in stats)),
        "kinds": dict(collections.Counter(s["kinds"] for s in stats)),
        "starts_not_in_index_order": sum(1 for s in stats if not s["starts_in_index_order"]),
        "completion_reordered": sum(1 for s in stats if s["completion_reordered"]),
        "runs_with_fewer_trials_than_workers": sum(1 for s in stats if s["n"] < s["W"]),
        "position_of_the_experiment_in_its_process": dict(collections.Counter(s.get("ordinal", 0) for s in stats)),
        "processes_running_several_experiments": sum(1 for g in groups if len(g) > 1),
        "sequential_references": len(rn.refs), "corpus_runs": n_corpus, "coin_flips_included": flips_ok,
    }
    if getattr(chk, "suppressed", 0):
        chk.cov["further_failing_runs_not_reported"] = chk.suppressed
    chk.cov["samples"] = [{"scenario": sc.line(), "replay": res["replay"], "threads_used": expcorr.assignment_sig(res["r"])["threads"]}
                          for sc, res in results[:3]]
    # ---- proof or tie broken: look for a concrete failing input ------------
    if not proved and not chk.violations:
        found = False
        import time
        t_end = time.time() + (40 if quick else 600)
        search = []
        for a_, b_ in zip(expcorr.stress_groups(chk.seed + 1, 4000), expcorr.stress(chk.seed + 1, 4000)):
            search += [a_, [b_]]
        for grp in search:
            if time.time() > t_end:
                break
            gres = rn.run_group(grp)
            rn.evals += 1
            hit = [r_ for r_ in gres if r_["problems"]]
            if hit:
                chk.violation("the dispenser / join found in src/cimba.c is not the documented one (%s) and the real runner "
                              "misbehaves: %s" % (_why_broken(chk, tgen_ok, badvars), "; ".join(hit[0]["problems"][:3])),
                              replay_text([expcorr.group_line(grp)], hit[0]), True)
                found = True
                break
        chk.cov["evaluations"] = rn.evals
        if not found:
            errs = "\n".join(l for l in getattr(chk, "build_error", "").splitlines() if "error" in l)[:3000]
            probs = "\n".join(getattr(chk, "audit_result", {}).get("problems", []))
            inv = "\n".join("variable not covered by Props.C19.isolation: " + " ".join(w) for w in badvars)
            chk.violation("a theorem of Props/C19.lean (or the translation it rests on) no longer checks: %s"
                          % _why_broken(chk, tgen_ok, badvars),
                          "theorems: CimbaModel.Props.C19.*\n" + getattr(chk, "tgen_error", "") + "\n" + inv + "\n" + errs + "\n" + probs, False)


def _why_broken(chk, tgen_ok, badvars):
    if not tgen_ok:
        return "translator: " + getattr(chk, "tgen_error", "")[:300]
    if badvars:
        return "isolation fails for " + ", ".join("%s:%s:%s (%s)" % (w[3], w[4], w[5], w[1]) for w in badvars[:4])
    errs = [l for l in getattr(chk, "build_error", "").splitlines() if "error" in l]
    return errs[0][:300] if errs else "see replay"


def _write_reference_generated(keep_inventory=False):
    """When the translator cannot read the source, build the model driver against the documented dispenser so that the search
    for a failing input can still replay logs.  The proof obligation stays undischarged."""
    disp = """/- FALLBACK written by tools/props/C19.py: the translator could not read src/cimba.c -/
import CimbaModel.Experiment.Types
namespace CimbaModel.Generated
open CimbaModel.Experiment
def fetchMode : FetchMode := .atomicFetchAdd
def fetchIncr : Nat := 1
def initNext : Nat := 0
def resetsCounterEachRun : Bool := true
def stopWhen (idx total : Nat) : Bool := (decide (idx ≥ total))
def elemAddr (base idx sz : Nat) : Nat := (base + (idx * sz))
def spawnStart : Nat := 0
def spawnCond (k W : Nat) : Bool := (decide (k < W))
def joinStart : Nat := 0
def joinCond (k W : Nat) : Bool := (decide (k < W))
def setsLoggerTrialIdx : Bool := true
end CimbaModel.Generated
"""
    vlib.write_if_changed(os.path.join(vlib.GEN, "Dispenser.lean"), disp)
    if not keep_inventory:
        inv = """/- FALLBACK written by tools/props/C19.py -/
import CimbaModel.Experiment.Types
namespace CimbaModel.Generated
open CimbaModel.Experiment
def tlsInventory : List Entry := []
end CimbaModel.Generated
"""
        vlib.write_if_changed(os.path.join(vlib.GEN, "TlsInventory.lean"), inv)


def replay(chk, path):
    impl = vlib.build_impl("rel")
    try:
        gen_tlsinv.run(impl)
    except c2lean.Untranslatable:
        _write_reference_generated()
    vlib.lake_build(["expmain"])
    rn = Runner(chk, vlib.cc_harness("expdrv", impl), vlib.lean_exe("expmain"))
    groups = [expcorr.parse_group(l.strip()) for l in open(path) if l.startswith("run ")]
    chk.cov["evaluations"] = 0
    vecs = {}
    for grp in groups:
        for attempt in range(25 if grp[0].mode == "par" else 1):
            gres = rn.run_group(grp)
            chk.cov["evaluations"] += 1
            for sc, res in zip(grp, gres):
                if res["problems"]:
                    chk.violation("replay: " + "; ".join(res["problems"][:3]), replay_text([expcorr.group_line(grp)], res), True)
                    return
                vecs.setdefault(sc.ref_key(), set()).add(expcorr.digests(res["r"]))
    for k, v in vecs.items():
        if len(v) > 1:
            chk.violation("replay: the same trials give %d different result vectors over the runs of this file" % len(v),
                          "\n".join(expcorr.group_line(g) for g in groups), True)
            return
    chk.log("replay: property held on all runs of the file")
