"""C18 — sorting, copies, medians, five-number summaries, histograms, autocorrelation of datasets / time series.

Proof:  Props/C18.lean (heapsort sorted + permutation for unbounded sizes, 3-array version permutes whole
        (x,t,w) triples; copies exact and safe to add to; medians are medians; five-number summaries ordered
        and inside the data range; histogram bins hold every sample exactly once; ACF lag 0 = 1, shift
        invariance, scale invariance away from the absolute variance threshold).
Tie:    T-corr harness/statdrv2.c <-> Drivers/Stat2Main.lean (tools/stat2corr.py): same samples to the real
        library (rel and san builds of the current working tree) and to the compiled model; sorted arrays,
        copies, medians, printed five-number summaries, histogram structures compare exactly; ACF under
        tolerance (labelled test).  Differences are judged by Monitor.C18 on the implementation's answer.
"""
import collections
import os
import re

import stat2corr as sc
import vlib

TRUSTED = [
    "Lean 4.33 kernel; axioms propext, Classical.choice, Quot.sound only (audited per theorem on every run)",
    "hand-written models CimbaModel/Stats/{Sort,Arrays,Median,Hist,Acf}.lean, tied to src/cmb_dataset.c and "
    "src/cmb_timeseries.c by differential execution on the rel and san builds (harness/statdrv2.c)",
    "doubles modelled by an exact ordered field / Rat; correspondence inputs are integers and small dyadics for which "
    "every intermediate value is exact (checked per histogram by tools/stat2corr.hist_exact); ACF compared under 1e-9",
    "harness captures the histogram struct built by *_histogram_print through ld --wrap=malloc/free; five-number "
    "summaries are read from the library's own 4-significant-digit print-out",
    "libc malloc/calloc/realloc return fresh blocks; ASan/UBSan report every out-of-bounds access of the san build",
]

ASSUME = [
    "sample values, times and limits are finite doubles (no NaN/inf); times are non-decreasing (cmb_timeseries_add's contract)",
    "count < 2^32 (data_array_median takes `unsigned n`), histogram bin count < 65535 (bin index is uint16_t)",
    "a dataset / series queried for a median, summary, histogram holds at least one sample (two for a series histogram, count > lag for ACF)",
]

FINDING_TEXT = {
    "C18-acf-absolute-threshold":
        "cmb_dataset_ACF zeroes every coefficient when the variance is below the absolute constant 1e-9: "
        "scaling the data by 2^-20 changes the reported autocorrelations (corpus/stats2/finding-acf-absolute-threshold.txt)",
    "C18-acf-unbounded":
        "cmb_dataset_ACF divides the lag sums by (n-k) and the variance by (n-1): coefficients can leave [-1,1] "
        "(x = 1,0,0,-1 gives acf[3] = -1.5); the debug assert in cmb_dataset_ACF and the release assert in "
        "cmb_dataset_correlogram_print then abort on valid data (corpus/stats2/finding-acf-unbounded.txt)",
}


def signature(r):
    tag = (r.get("op") or "?").split()[0]
    d = re.sub(r"0x[0-9a-f]+|==\d+==|[-+]?\d+(\.\d+)?(e[-+]?\d+)?(/\d+)?", "N", r.get("detail", ""))
    return (r["kind"], tag, d[:90])


def size_of(lines):
    return sum(len(l.split()) for l in lines)


def minimise(c_exe, lean_exe, lines, init, san, sig, detail=""):
    """drop query ops (never the data) while exactly the same failure remains"""
    cur = list(lines)
    changed = True
    budget = 8 if "time limit" in detail else 60
    while changed and budget > 0:
        changed = False
        for i in range(len(cur) - 1, -1, -1):
            if cur[i].split()[0] in ("ds", "ts", "dump", "tdump", "tfin", "add", "tadd", "copy", "tcopy"):
                continue
            cand = cur[:i] + cur[i + 1:]
            budget -= 1
            if budget <= 0:
                break
            try:
                r = sc.check_case(c_exe, lean_exe, cand, init, san=san)
            except RuntimeError:
                continue
            if not r["ok"] and signature(r) == sig:
                cur = cand
                changed = True
    return cur


def reproduce_finding(fid, lines, exes, lean_exe, init):
    """True if the committed scenario still shows the recorded defect on the current tree."""
    if fid == "C18-acf-absolute-threshold":
        rc, out, err, _ = sc.run_impl(exes["rel"], lines, init)
        for l in out:
            if l.startswith("acfrel"):
                a = sc.acf_values(l)
                h = len(a) // 2
                if any(abs(float(x) - float(y)) > sc.ACF_TOL for x, y in zip(a[:h], a[h:])):
                    return True, "impl: " + l
        return False, ""
    if fid == "C18-acf-unbounded":
        hits = []
        rc, out, err, _ = sc.run_impl(exes["rel"], lines, init)        # corr: release assert
        if rc != 0 and "Assert" in err:
            hits.append("rel build: " + [x for x in err.splitlines() if "Assert" in x][0].strip()[:200])
        rc, out, err, _ = sc.run_impl(exes["san"], [l for l in lines if not l.startswith("corr")], init)
        if rc != 0 and "Assert" in err:
            hits.append("san build: " + [x for x in err.splitlines() if "Assert" in x][0].strip()[:200])
        return bool(hits), " ; ".join(hits)
    return False, "unknown finding id"


def run(chk):
    quick = chk.tier == "quick"
    chk.cov["trusted_base"] = TRUSTED
    chk.assumptions += ASSUME
    init = sc.init_size()
    impls = {"rel": vlib.build_impl("rel"), "san": vlib.build_impl("san")}
    # ---- proofs ----------------------------------------------------------
    proved = chk.prove(extra_targets=["stat2main"])
    drivers_ok = proved
    if not proved:
        drivers_ok, out = vlib.lake_build(["stat2main"])
    if not drivers_ok:
        chk.violation("the model driver stat2main does not build", getattr(chk, "build_error", "")[-3000:], False)
        return
    lean_exe = vlib.lean_exe("stat2main")
    exes = {v: vlib.cc_harness("statdrv2", impls[v], extra_flags=sc.WRAP) for v in impls}
    # ---- correspondence: corpus first, then generated ------------------------------------------------
    corpus = sc.corpus_cases()
    known_ids = {k.get("id") for k in chk.known}
    plain_corpus = [(m, l) for m, l in corpus if "finding" not in m]
    gen = sc.generate(chk.seed, quick, init)
    cases = plain_corpus + gen
    results = {}
    for v in ("rel", "san"):
        results[v] = vlib.parallel_map(lambda ml, v=v: safe_check(exes[v], lean_exe, ml[1], init, v == "san"), cases)
    # ---- known findings: reproduce from the committed scenario ---------------------------------------
    for meta, lines in corpus:
        fid = meta.get("finding")
        if not fid:
            continue
        ok, how = reproduce_finding(fid, lines, exes, lean_exe, init)
        text = FINDING_TEXT.get(fid, fid)
        if fid in known_ids:
            if ok:
                chk.known_finding("%s: %s [%s]" % (fid, text, how[:300]))
            else:
                chk.notes.append("listed finding %s no longer reproduces from corpus/stats2/%s" % (fid, meta["file"]))
        elif ok:
            chk.violation("%s (scenario corpus/stats2/%s; not listed in known_findings.json): %s" % (text, meta["file"], how[:300]),
                          "# build: both\n" + "\n".join(lines), True)
    # ---- evidence ------------------------------------------------------------------------------------
    n_eval = sum(r["ops"] for v in results for r in results[v])
    hashes = {sc.case_hash(l) for m, l in cases if sc.nontrivial(m, l)}
    chk.cov["evaluations"] = n_eval
    chk.cov["distinct_nontrivial"] = len(hashes)
    agree = sum(1 for v in results for r in results[v] if r["ok"])
    chk.cov["traces_validated_against_impl"] = agree
    chk.cov["rule"] = ("one evaluation = one library operation (add batch, sort, copy, add-to-copy, median, five-number summary, histogram, "
                       "ACF, finalize ...) executed on the real library and on the compiled Lean model with identical arguments and compared "
                       "(exactly, except ACF: |diff| <= 1e-9); each case is run on the rel and on the san build. A case is non-trivial when "
                       "its samples are not already in ascending order (the sort has work to do) or its size is at a doubling threshold of "
                       "the arrays (CMI_DATASET_INIT_SZ = %d read from src/cmi_dataset.h); distinct by content hash." % init)
    dist = collections.Counter()
    for m, l in cases:
        dist[m["kind"]] += 1
        if "pattern" in m:
            dist["pattern:" + m["pattern"]] += 1
        if "weights" in m:
            dist["weights:" + m["weights"]] += 1
        if m.get("threshold"):
            dist["at-doubling-threshold"] += 1
        for x in l:
            dist["op:" + x.split()[0]] += 1
    skipped = collections.Counter(n for v in results for r in results[v] for n in r.get("notes", []))
    chk.cov["input_distribution"] = {"cases": len(cases), "corpus": len(corpus), "init_size": init,
                                     "sizes": "1..70 + %s" % sc.thresholds(init, quick), "counts": dict(dist),
                                     "queries_skipped": dict(skipped)}
    chk.cov["samples"] = [{"meta": m, "first_lines": [x[:100] for x in l[:4]]} for m, l in gen[:3]]
    # ---- failures ------------------------------------------------------------------------------------
    groups = {}
    for v in ("rel", "san"):
        for (meta, lines), r in zip(cases, results[v]):
            if r["ok"]:
                continue
            s = signature(r)
            cur = groups.get(s)
            if cur is None or size_of(r["lines"]) < size_of(cur[2]["lines"]):
                groups[s] = (v, meta, r)
    concrete = [(s, g) for s, g in groups.items() if g[2]["kind"] in ("abort", "violation", "sanitizer")]
    diverge = [(s, g) for s, g in groups.items() if g[2]["kind"] not in ("abort", "violation", "sanitizer")]
    concrete.sort(key=lambda sg: size_of(sg[1][2]["lines"]))
    for s, (v, meta, r) in concrete[:12]:
        small = minimise(exes[v], lean_exe, r["lines"], init, v == "san", s, r["detail"])
        r2 = safe_check(exes[v], lean_exe, small, init, v == "san")
        if r2["ok"]:
            small, r2 = r["lines"], r
        chk.violation("%s build: %s" % (v, r2["detail"]), "# build: %s\n# case: %s\n" % (v, meta) + "\n".join(small), True)
    if diverge and not concrete:
        s, (v, meta, r) = sorted(diverge, key=lambda sg: size_of(sg[1][2]["lines"]))[0]
        chk.violation("correspondence statdrv2 <-> CimbaModel.Stats broken (%d kinds of difference) although Monitor.C18 accepts the "
                      "implementation's answers; first: %s" % (len(diverge), r["detail"]),
                      "# build: %s\n# case: %s\n" % (v, meta) + "\n".join(r["lines"]), False)
    elif diverge:
        chk.notes.append("%d further kinds of model/implementation difference accepted by Monitor.C18 (expected where the model "
                         "describes repaired behaviour)" % len(diverge))
    if not proved and not chk.violations:
        errs = "\n".join(l for l in getattr(chk, "build_error", "").splitlines() if "error" in l)[:3000]
        probs = "\n".join(getattr(chk, "audit_result", {}).get("problems", []))
        chk.violation("a theorem of Props/C18.lean no longer checks", "theorems: CimbaModel.Props.C18.*\n" + errs + "\n" + probs, False)


def safe_check(c_exe, lean_exe, lines, init, san):
    try:
        return sc.check_case(c_exe, lean_exe, lines, init, san=san)
    except RuntimeError as ex:
        return {"ok": False, "kind": "divergence", "op": None, "detail": "model driver: %s" % ex, "lines": sc.clean(lines), "notes": [], "ops": 0}


def replay(chk, path):
    init = sc.init_size()
    raw = open(path).read().splitlines()
    build = "both"
    for l in raw:
        m = re.match(r"#\s*build:\s*(\S+)", l)
        if m:
            build = m.group(1)
    vlib.lake_build(["stat2main"])
    lean_exe = vlib.lean_exe("stat2main")
    lines = sc.clean(raw)
    chk.cov["evaluations"] = 0
    for v in (("rel", "san") if build == "both" else (build,)):
        exe = vlib.cc_harness("statdrv2", vlib.build_impl(v), extra_flags=sc.WRAP)
        r = safe_check(exe, lean_exe, lines, init, v == "san")
        chk.cov["evaluations"] += r["ops"]
        if r["ok"]:
            chk.log("replay agrees with the model on the %s build" % v)
        else:
            chk.violation("%s build: replay still fails: %s" % (v, r["detail"]), "# build: %s\n" % v + "\n".join(lines),
                          r["kind"] in ("abort", "violation", "sanitizer"))
            return
    # a finding scenario is replayed without the trigger filter
    for l in raw:
        m = re.match(r"#\s*finding:\s*(\S+)", l)
        if m:
            exes = {v: vlib.cc_harness("statdrv2", vlib.build_impl(v), extra_flags=sc.WRAP) for v in ("rel", "san")}
            ok, how = reproduce_finding(m.group(1), lines, exes, lean_exe, init)
            if ok:
                chk.violation("%s: %s" % (FINDING_TEXT.get(m.group(1), m.group(1)), how), "\n".join(raw), True)
