"""C07 — pool units are conserved.

Proof:  Props/C07.lean over the process-layer model CimbaModel/Sim.
Tie:    harness/simdrv.c <-> Drivers/SimMain.lean on generated scenarios (profiles pool, mixed, lifecycle), complete observable logs;
        tools/simmon.py (C07 clauses) on every implementation log. See tools/simcheck.py.
"""
import simcheck

PROFILES = ['pool', 'poolprio', 'mixed', 'lifecycle', 'poolleft']


def run(chk):
    simcheck.run(chk, PROFILES)


def replay(chk, path):
    simcheck.replay(chk, path)
