"""C02 — the hashheap behaves as a keyed priority queue under any operation history.

Proof:  Props/C02.lean (order axioms of the regenerated ordering functions, hash function facts,
        WF invariant + refinement of every operation to the abstract keyed priority queue).
Ties:   T-gen  tools/gen_orders.py (five ordering functions, hash_key, item_match from the C AST)
        T-corr harness/hhdrv.c <-> Drivers/HHMain.lean, exact state after every operation.
"""
import collections
import os

import c2lean
import gen_orders
import hhcorr
import ordercheck
import vlib

TRUSTED = [
    "Lean 4.33 kernel; axioms propext, Classical.choice, Quot.sound only (audited per theorem on every run)",
    "tools/c2lean.py + clang's JSON AST (translation of the ordering functions, hash_key, item_match)",
    "hand-written model CimbaModel/HashHeap/Model.lean, tied to src/cmi_hashheap.c by exact-state differential execution",
    "libc malloc/aligned_alloc return fresh blocks; times are integers below 2^53 (double arithmetic exact)",
]

ORDER_SPECS = {"event": ("heap_order_check", "eventB"), "guard": ("guard_queue_check", "guardB"),
               "holder": ("holder_queue_check", "holderB"), "pq": ("compare_func", "pqB"),
               "default": ("default_order_check", "defaultB")}


def run(chk):
    quick = chk.tier == "quick"
    impl = vlib.build_impl("hook")
    chk.cov["trusted_base"] = TRUSTED
    chk.assumptions += ["keys < 2^64, caller-supplied keys fresh and non-zero (documented preconditions)",
                        "initial exponent 1..31 (1u << exp is undefined beyond)"]
    # ---- T-gen ---------------------------------------------------------
    tgen_ok = True
    try:
        info, _ = gen_orders.run(impl)
        chk.cov["generated_from"] = info
    except c2lean.Untranslatable as ex:
        tgen_ok = False
        chk.log("translator cannot handle the current source: %s" % ex)
    # ---- proofs ----------------------------------------------------------
    proved = tgen_ok and chk.prove(extra_targets=["hhmain", "hhspec"])
    drivers_ok = True
    if not proved:
        ok, out = vlib.lake_build(["hhmain", "hhspec"])
        drivers_ok = ok
    # ---- T-corr ----------------------------------------------------------
    bad_total = []
    if drivers_ok:
        c_exe = vlib.cc_harness("hhdrv", impl)
        lean_exe, spec_exe = vlib.lean_exe("hhmain"), vlib.lean_exe("hhspec")
        n_corpus = 0
        for name, lines in hhcorr.corpus_sequences():
            n_corpus += 1
            d = hhcorr.compare(c_exe, lean_exe, lines)
            if d is not None:
                bad_total.append((lines, d))
        total, max_ops = (8000, 300) if quick else (40000, 1500)
        stats, bad = hhcorr.run_generated(chk.seed, total, max_ops, c_exe, lean_exe)
        bad_total += bad
        if not quick:
            # sanitizer build on a slice of the same generator
            san = vlib.build_impl("san")
            c_san = vlib.cc_harness("hhdrv", san)
            st2, bad2 = hhcorr.run_generated(chk.seed + 7919, 3200, 400, c_san, lean_exe)
            stats += st2
            bad_total += bad2
        chk.cov["evaluations"] = len(stats) + n_corpus
        nontriv = {s["sig"] for s in stats if s["growths"] > 0 or s["reinserts"] > 0 or s["collisions"] > 0}
        chk.cov["distinct_nontrivial"] = len(nontriv)
        chk.cov["traces_validated_against_impl"] = len(stats) + n_corpus - len(bad_total)
        chk.cov["rule"] = ("operation sequences generated against the running Lean model (profiles mixed/grow/churn/collide/"
                           "ties/pattern/extreme; caller keys steered to collide in the current hash map and to wrap the probe "
                           "sequence; removed keys re-inserted); non-trivial = crosses at least one capacity doubling, or "
                           "re-inserts a removed key, or has a steered hash collision; distinct by content hash. "
                           "Compared: result line and a digest of the whole visible state after EVERY operation.")
        dist = collections.Counter(s["profile"] for s in stats)
        chk.cov["input_distribution"] = {
            "profiles": dict(dist), "orders": dict(collections.Counter(s["order"] for s in stats)),
            "ops_total": sum(s["ops"] for s in stats), "growth_steps": sum(s["growths"] for s in stats),
            "max_exp": max([s["exp_final"] for s in stats] or [0]), "reinsertions": sum(s["reinserts"] for s in stats),
            "steered_collisions": sum(s["collisions"] for s in stats), "corpus": n_corpus}
        if stats:
            chk.cov["samples"] = [{"profile": stats[0]["profile"], "order": stats[0]["order"], "ops": stats[0]["ops"]}]
        reported = 0
        for lines, d in bad_total:
            r = hhcorr.behavioural_search(c_exe, lean_exe, spec_exe, lines)
            if r:
                seq, msg, err = r
                chk.violation("the real hashheap's answers are not a behaviour of a keyed priority queue: Monitor.C02 on the "
                              "implementation log says: %s" % msg, "\n".join(seq) + "\n# impl stderr: " + err[-800:].replace("\n", "\n# "), True)
                reported += 1
                break
        if bad_total and not reported:
            lines, d = bad_total[0]
            small = hhcorr.shrink(c_exe, lean_exe, lines)
            d2 = hhcorr.compare(c_exe, lean_exe, small) or d
            what = ("hashheap exact-state correspondence (hhdrv vs CimbaModel.HashHeap.Model) broken at op '%s': impl '%s' vs model '%s'; "
                    "the implementation's observable answers on %d diverging sequences (extended by membership queries and a full "
                    "drain) are still accepted by Monitor.C02" % (d2.get("op"), d2.get("impl"), d2.get("model"), len(bad_total)))
            chk.violation(what, "\n".join(small) + "\n# impl stderr: " + d2.get("impl_err", "")[-800:].replace("\n", "\n# "), False)
    else:
        chk.violation("model drivers do not build against the regenerated definitions", getattr(chk, "build_error", "")[-3000:], False)
    # ---- proof broken: look for a failing input --------------------------
    if not proved and not chk.violations:
        found = False
        if tgen_ok and drivers_ok:
            for order, (gen_fn, spec_fn) in ORDER_SPECS.items():
                pairs, _ = ordercheck.lean_disagreements(gen_fn, spec_fn)
                if pairs:
                    r = ordercheck.replay_on_impl(order, pairs, impl)
                    if r:
                        chk.violation("ordering function %s differs from the documented order and the real queue returns a "
                                      "non-minimum: %s" % (gen_fn, r[1]), r[0], True)
                        found = True
                        break
        if not found:
            errs = "\n".join(l for l in getattr(chk, "build_error", "").splitlines() if "error" in l)[:3000]
            probs = "\n".join(getattr(chk, "audit_result", {}).get("problems", []))
            chk.violation("a theorem of Props/C02.lean (or the translation it rests on) no longer checks",
                          "theorems: CimbaModel.Props.C02.*\n" + errs + "\n" + probs, False)


def replay(chk, path):
    impl = vlib.build_impl("hook")
    gen_orders.run(impl)
    vlib.lake_build(["hhmain", "hhspec"])
    c_exe = vlib.cc_harness("hhdrv", impl)
    lines = [l.strip() for l in open(path) if l.strip() and not l.startswith("#")]
    d = hhcorr.compare(c_exe, vlib.lean_exe("hhmain"), lines)
    chk.cov["evaluations"] = 1
    if d is None:
        chk.log("replay agrees with the model")
    else:
        ok, msg = hhcorr.judge(vlib.lean_exe("hhspec"), lines, d.get("impl_out", []))
        chk.violation("replay still disagrees at op %s: impl '%s' vs model '%s'; monitor: %s" % (d["op"], d["impl"], d["model"], msg),
                      "\n".join(lines), not ok)
