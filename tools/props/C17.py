"""C17 — data summaries equal the exact sample statistics; merging equals concatenation; weighted summaries.

Proof:  lean/CimbaModel/Props/C17.lean (over any linearly ordered field; representation invariant preserved by add / merge,
        accessors = textbook sample statistics, weighted: exact mean, zero weights ignored, unit weights = unweighted,
        invariance under rescaling of the weights), helper lemmas in lean/CimbaModel/Stats/{Moments,Summary,Weighted}.lean.
Ties:   T-gen   tools/gen_stats.py + tools/c2lean_stats.py: every function the theorems speak about is regenerated from
                /repo's current C sources (clang JSON AST) into lean/CimbaModel/Generated/Stats.lean on every run, together
                with a definedness predicate `_dom` (asserts, division by zero, unsigned wrap).
        T-corr  (i) translation validation: generated definitions evaluated at ℚ vs the real library where IEEE arithmetic is
                exact (harness/statdrv.c reports FE_INEXACT per call) — equality;
                (ii) TEST, not proof: the real double results vs exact rational statistics (python fractions) under a
                conditioning-scaled tolerance on generated scenarios (lengths 0–4, constant, large offset, extreme
                magnitudes, every split, both merge directions, every target, chained merges, zero / unit / rescaled weights).
"""
import collections
import copy
import json
import os

import c2lean
import gen_stats
import statcorr
import vlib

TRUSTED = [
    "Lean 4.33 kernel; axioms propext, Classical.choice, Quot.sound only (audited per theorem on every run)",
    "tools/c2lean_stats.py + tools/gen_stats.py + clang's JSON AST (translation of add/merge/accessors of cmb_datasummary and "
    "cmb_wtdsummary, incl. the aliasing check behind 'merge into either operand'); validated on every run against the compiled "
    "functions where IEEE arithmetic is exact (harness/statdrv.c, lean/CimbaModel/Stats/Eval.lean)",
    "IEEE-754 rounding is NOT modelled: double arithmetic is an exact ordered field in the theorems; 'up to rounding' is test "
    "evidence only (real results vs exact rationals under a conditioning-scaled tolerance)",
    "libm sqrt / pow are abstract functions in the theorems (hypotheses RootFns: non-negative square root, 3/2-th power)",
    "uint64_t count is a natural number (no wrap-around below 2^64 samples; (double)count exact below 2^53)",
    "python fractions re-statement of the textbook formulas in tools/statcorr.py (exact_stats) for the test part",
]

# known-finding ids -> trigger predicate over scenarios (see notes/C17.md); only used when known_findings.json lists the id
def _both_empty(scn):
    if scn["kind"] not in ("merge", "wmerge"):
        return False
    parts = scn["parts"]
    def eff(p):
        return [e for e in p if not isinstance(e, list) or e[1] != 0]
    acc = len(eff(parts[0]))
    for p in parts[1:]:
        if acc == 0 and len(eff(p)) == 0:
            return True
        acc += len(eff(p))
    return False


def valid(scn):
    """scenarios the generators / the shrinker may produce (documented preconditions of the users)"""
    if scn["kind"] == "bigmerge":
        return len(scn["a"]) >= 1 and len(scn["b"]) >= 1
    if scn["kind"] == "timeseries":
        # cmb_timeseries_finalize / _summarize require a non-empty series; time stamps must not decrease (asserted)
        ts = [t for _, t in scn["xts"]] + [scn["tend"]]
        return len(scn["xts"]) >= 1 and all(a <= b for a, b in zip(ts, ts[1:])) and ts[0] >= 0
    return True


def _weighted_nonunit(scn):
    if scn["kind"] == "timeseries":
        return True
    if scn["kind"] == "selfmerge":
        return bool(scn.get("weighted"))
    if scn["kind"] in ("wseq", "wscale", "wzero"):
        ws = [w for _, w in scn["xws"] if w != 0]
        return scn["kind"] == "wscale" or any(w != 1.0 for w in ws)
    if scn["kind"] == "wmerge":
        return any(w not in (0.0, 1.0) for p in scn["parts"] + [scn.get("then", [])] for _, w in p)
    return False


def _tiny_unit(scn):
    """weighted scenario all of whose non-zero weights (before and/or after rescaling) are below 1e-15"""
    k = scn["kind"]
    if k in ("wseq", "wzero", "wscale"):
        ws = [w for _, w in scn["xws"] if w != 0]
        c = scn.get("c", 1.0)
        return bool(ws) and (max(ws) < 1e-15 or max(ws) * c < 1e-15)
    if k == "wmerge":
        ws = [w for p in scn["parts"] + [scn.get("then", [])] for _, w in p if w != 0]
        return bool(ws) and max(ws) < 1e-15
    return False


KNOWN_TRIGGERS = {"merge-empty-operands": _both_empty, "weighted-moments-not-normalised": _weighted_nonunit}


# ---- shrinking a failing scenario ------------------------------------------

def _lists_of(scn):
    """mutable sample lists inside a scenario"""
    k = scn["kind"]
    if k in ("seq", "wunit", "dataset", "selfmerge"):
        return [scn["xs"]]
    if k == "timeseries":
        return [scn["xts"]]
    if k == "bigmerge":
        return [scn["a"], scn["b"]]
    if k in ("wseq", "wscale", "wzero"):
        return [scn["xws"]]
    return list(scn["parts"]) + [scn.setdefault("then", [])]


def shrink(scn, fails):
    cur = copy.deepcopy(scn)
    cur.pop("fam", None)
    budget = 400
    changed = True
    while changed and budget > 0:
        changed = False
        # drop whole parts (keep at least two operands)
        if cur["kind"] in ("merge", "wmerge") and len(cur["parts"]) > 2:
            for i in range(len(cur["parts"])):
                t = copy.deepcopy(cur)
                del t["parts"][i]
                budget -= 1
                if fails(t):
                    cur, changed = t, True
                    break
            if changed:
                continue
        for li in range(len(_lists_of(cur))):
            n = len(_lists_of(cur)[li])
            for chunk in (max(n // 2, 1), 1):
                i = 0
                while i < len(_lists_of(cur)[li]) and budget > 0:
                    t = copy.deepcopy(cur)
                    del _lists_of(t)[li][i:i + chunk]
                    budget -= 1
                    if fails(t):
                        cur, changed = t, True
                    else:
                        i += chunk
        # simplify values
        for li in range(len(_lists_of(cur))):
            for i in range(len(_lists_of(cur)[li])):
                e = _lists_of(cur)[li][i]
                cands = []
                if isinstance(e, list):
                    for x in (float(i + 1), float(round(e[0])) if abs(e[0]) < 1e15 else e[0]):
                        for w in ((1.0, 2.0, e[1]) if e[1] != 0 else (0.0,)):
                            if [x, w] != e:
                                cands.append([x, w])
                else:
                    cands = [c for c in (float(i + 1), float(round(e)) if abs(e) < 1e15 else e) if c != e]
                for c in cands:
                    if budget <= 0:
                        break
                    t = copy.deepcopy(cur)
                    _lists_of(t)[li][i] = c
                    budget -= 1
                    if fails(t):
                        cur, changed = t, True
                        break
        if cur["kind"] == "bigmerge":
            for key in ("ka", "kb"):
                while cur[key] > 0 and budget > 0:
                    t = copy.deepcopy(cur)
                    t[key] -= 1
                    budget -= 1
                    if fails(t):
                        cur, changed = t, True
                    else:
                        break
        if cur["kind"] == "wscale" and cur["c"] != 10.0:
            t = copy.deepcopy(cur)
            t["c"] = 10.0
            if fails(t):
                cur, changed = t, True
    return cur


def replay_text(scn, probs, c_exe):
    ops, _ = statcorr.scenario_ops(scn)
    rc, lines, err = statcorr.run_c(c_exe, ops)
    txt = ["# scenario (one JSON object per line; replay: ./check C17 --replay <this file>)",
           json.dumps({k: v for k, v in scn.items() if k != "fam"})]
    txt.append("# what the real library reports, against the exact statistics of the data:")
    txt += ["#   " + p for p in probs]
    txt.append("# harness/statdrv.c operations and the library's answers (hex doubles; value:fe-mask for statistics):")
    for op, l in zip(ops, lines + ["(no output)"] * len(ops)):
        txt.append("#   %-40s => %s" % (" ".join(x.hex() if isinstance(x, float) else str(x) for x in op), l))
    return "\n".join(txt) + "\n"


def _chunks(xs, n):
    return [xs[i:i + n] for i in range(0, len(xs), n)]


def _job(a):
    return statcorr.run_scenarios(a[0], a[1])


def _pmap(exe, chunks):
    import multiprocessing
    with multiprocessing.Pool(min(vlib.NPROC, max(len(chunks), 1))) as pool:
        return pool.map(_job, [(exe, c) for c in chunks])


def run(chk):
    quick = chk.tier == "quick"
    impl = vlib.build_impl("rel")
    chk.cov["trusted_base"] = TRUSTED
    chk.assumptions += ["samples are finite doubles (|x| <= DBL_MAX), weights are >= 0 (the library asserts it)",
                        "the merged count stays below 2^63 (sums of counts do not wrap; a product of counts is modelled WITH C's wrap-around); (double)count is exact for the counts used (k*2^j), beyond 2^53 in general it is part of 'up to rounding'",
                        "skewness / kurtosis of constant data are undefined (0/0): the library returns NaN there, and the "
                        "generated definedness predicate is false exactly there (theorem kurtosis_undefined_iff_constant)"]
    known_ids = {k.get("id") for k in chk.known}
    exclude = [KNOWN_TRIGGERS[i] for i in known_ids if i in KNOWN_TRIGGERS]
    # ---- T-gen -----------------------------------------------------------
    tgen_ok, meta = True, {}
    try:
        info, meta, _ = gen_stats.run(impl)
        chk.cov["generated_from"] = info
        chk.cov["translator_assumed"] = meta.get("assumed", [])
    except c2lean.Untranslatable as ex:
        tgen_ok = False
        chk.tgen_error = str(ex)
        chk.log("translator cannot handle the current source: %s" % ex)
    # ---- proofs ------------------------------------------------------------
    proved = tgen_ok and chk.prove(extra_targets=["CimbaModel.Stats.Eval"])
    eval_ok = proved
    if tgen_ok and not proved:
        eval_ok, out = vlib.lake_build(["CimbaModel.Stats.Eval"])
        if not eval_ok:
            chk.log("the ℚ evaluator does not build against the regenerated definitions")
    c_exe = vlib.cc_harness("statdrv", impl, extra_flags=("-frounding-math",))
    # ---- T-corr (i): translation validation --------------------------------
    tv_bad, tv = [], {}
    if eval_ok:
        ncases = 3300 if quick else 22000
        tv, tv_bad = statcorr.tv_compare(statcorr.tv_cases(chk.seed, ncases), c_exe)
        chk.cov["translation_validation"] = tv
        chk.log("translation validation: %d cases, %d exact state comparisons, %d exact + %d near statistic comparisons, "
                "%d mismatches" % (tv["cases"], tv["exact_state_compares"], tv["exact_stat_compares"],
                                   tv["near_stat_compares"], len(tv_bad)))
    # ---- T-corr (ii): the property on the real library, up to rounding (TEST) ----
    results = []
    corpus = statcorr.load_corpus()
    cres = statcorr.run_scenarios(c_exe, [s for _, s in corpus]) if corpus else []
    known_reproduced = set()
    failing = []
    for (fname, _), (s, probs, sk) in zip(corpus, cres):
        if probs:
            hit = [i for i in known_ids if i in KNOWN_TRIGGERS and KNOWN_TRIGGERS[i](s)]
            if hit:
                if hit[0] not in known_reproduced:
                    known_reproduced.add(hit[0])
                    chk.known_finding("%s (corpus/stats/%s): %s" % (hit[0], fname, probs[0]))
            else:
                failing.append((s, probs))
    total = 12000 if quick else 120000
    scns = statcorr.gen_scenarios(chk.seed, total, quick=quick, exclude=exclude)
    for part in _pmap(c_exe, _chunks(scns, 600)):
        results += part
    if not quick:
        san = vlib.build_impl("san")
        c_san = vlib.cc_harness("statdrv", san, extra_flags=("-frounding-math",))
        extra = statcorr.gen_scenarios(chk.seed + 7919, 20000, quick=True, exclude=exclude)
        for part in _pmap(c_san, _chunks(extra, 600)):
            results += part
    failing += [(s, p) for s, p, _ in results if p]
    ill = sum(k for _, _, k in results)
    nontriv = {statcorr.scenario_key(s) for s, p, _ in results if statcorr.scenario_samples(s) >= 2}
    chk.cov["evaluations"] = len(results) + len(cres) + tv.get("cases", 0)
    chk.cov["distinct_nontrivial"] = len(nontriv)
    chk.cov["traces_validated_against_impl"] = len(results) + len(cres) - len(failing) + tv.get("cases", 0) - len(tv_bad)
    chk.cov["rule"] = ("(i) translation validation: operation scripts (reachable states built so that d/n is exact, arbitrary field "
                       "contents via dset/wset with the divisibility arranged, accessors on hand-set fields, uninitialised objects) "
                       "run on the real library and on the generated definitions at ℚ; a case is 'exact' when no library call "
                       "raised FE_INEXACT, then all fields must be EQUAL. (ii) TEST evidence for 'up to rounding': scenarios "
                       "(seq / merge at every split, both orders, targets new|a|b|self / chained merges / merges with empty operands / "
                       "weighted / zero weights / unit weights / rescaled weights incl. by 2^-60, 2^-200, 2^60 / weights and time "
                       "stamps in a tiny absolute unit / cmb_dataset and cmb_timeseries as users) over value families " + ", ".join(statcorr.VALUE_FAMS) +
                       "; compared with exact rational statistics under tolerances scaled by (steps · 2^-52 · max|x|/sd); "
                       "non-trivial = at least 2 samples of non-zero weight; distinct by content hash of the scenario")
    chk.cov["input_distribution"] = {
        "scenario_kinds": dict(collections.Counter(s["kind"] for s, _, _ in results)),
        "value_families": dict(collections.Counter(s.get("fam", "?") for s, _, _ in results)),
        "lengths": dict(collections.Counter(min(statcorr.scenario_samples(s), 5) for s, _, _ in results)),
        "ill_conditioned_statistics_skipped": ill, "corpus": len(cres),
        "merge_with_an_empty_operand": sum(1 for s, _, _ in results if s["kind"] in ("merge", "wmerge") and any(len(p) == 0 for p in s["parts"])),
        "merge_with_both_empty": sum(1 for s, _, _ in results if _both_empty(s)),
        "merged_counts_product_at_least_2^64": sum(1 for s, _, _ in results if s["kind"] == "bigmerge" and
                                                    len(s["a"]) * 2 ** s["ka"] * len(s["b"]) * 2 ** s["kb"] >= 2 ** 64),
        "weights_tiny_in_absolute_terms": sum(1 for s, _, _ in results if _tiny_unit(s)),
        "time_series_in_a_tiny_time_unit": sum(1 for s, _, _ in results if s["kind"] == "timeseries" and 0 < s["tend"] < 1e-12),
    }
    chk.cov["evidence_kinds"] = {"theorems": "proof (Lean kernel)", "translation_validation": "exact equality where IEEE arithmetic is exact",
                                 "up_to_rounding": "TEST evidence only (tolerance comparison), not proof"}
    chk.cov["samples"] = [{k: v for k, v in s.items()} for s, _, _ in results[:3]] + \
                         [{"tv_case": " ; ".join(" ".join(map(str, o)) for o in ops)} for _, ops in statcorr.tv_cases(chk.seed, 22)[11:13]]
    # ---- report ------------------------------------------------------------
    def fails_on(exe):
        def f(s):
            if not valid(s):
                return False
            try:
                return bool(statcorr.run_scenarios(exe, [s])[0][1])
            except Exception:
                return False
        return f
    reported = set()
    groups = collections.OrderedDict()
    for s, probs in failing:
        hit = [i for i in known_ids if i in KNOWN_TRIGGERS and KNOWN_TRIGGERS[i](s)]
        if hit:
            continue
        wsm = s["kind"] == "selfmerge" and bool(s.get("weighted"))
        g = ("merge of summaries holding billions of samples" if s["kind"] == "bigmerge" else
             "merge of unweighted summaries" if s["kind"] == "merge" or (s["kind"] == "selfmerge" and not wsm) else
             "unweighted summary" if s["kind"] in ("seq", "dataset") else
             "merge of weighted summaries" if s["kind"] == "wmerge" or wsm else
             "weights rescaled" if s["kind"] == "wscale" else
             "time series summary" if s["kind"] == "timeseries" else "weighted summary")
        cur = groups.get(g)
        if cur is None or statcorr.scenario_samples(s) < statcorr.scenario_samples(cur[0]):
            groups[g] = (s, probs)
    for g, (s, probs) in groups.items():
        small = shrink(s, fails_on(c_exe))
        key = statcorr.scenario_key(small)
        if key in reported:
            continue
        reported.add(key)
        p2 = statcorr.run_scenarios(c_exe, [small])[0][1] or probs
        chk.violation("%s: the real library's statistics differ from the exact sample statistics of the data: %s" % (g, p2[0]),
                      replay_text(small, p2, c_exe), True)
    if tv_bad and not chk.violations:
        fam, ops, msg = tv_bad[0]
        chk.violation("translation validation: the regenerated Lean definitions and the compiled library disagree (%d cases); "
                      "first: %s" % (len(tv_bad), msg),
                      "# statdrv operations\n" + statcorr.render(ops, False) + "# as rationals\n" + statcorr.render(ops, True), False)
    if not proved and not chk.violations and not known_reproduced:
        errs = "\n".join(l for l in getattr(chk, "build_error", "").splitlines() if "error" in l)[:3000]
        probs = "\n".join(getattr(chk, "audit_result", {}).get("problems", []))
        why = getattr(chk, "tgen_error", "")
        chk.violation("a theorem of Props/C17.lean (or the translation it rests on) no longer checks against the current sources",
                      "theorems: CimbaModel.Props.C17.*\n" + why + "\n" + errs + "\n" + probs, False)
    elif not proved:
        errs = [l for l in getattr(chk, "build_error", "").splitlines() if "error:" in l][:6]
        chk.log("proof obligations not discharged on this tree; first build errors:\n  " + "\n  ".join(errs))


def replay(chk, path):
    impl = vlib.build_impl("rel")
    try:
        info, _, _ = gen_stats.run(impl)
        chk.cov["generated_from"] = info
        chk.prove(extra_targets=["CimbaModel.Stats.Eval"])
    except c2lean.Untranslatable as ex:
        chk.log("translator cannot handle the current source: %s" % ex)
    c_exe = vlib.cc_harness("statdrv", impl, extra_flags=("-frounding-math",))
    scns = [json.loads(l) for l in open(path) if l.strip() and not l.startswith("#")]
    chk.cov["evaluations"] = len(scns)
    chk.cov["distinct_nontrivial"] = len({statcorr.scenario_key(s) for s in scns if statcorr.scenario_samples(s) >= 2})
    chk.cov["rule"] = "replay of the scenarios of one file against the real library (exact statistics, conditioning-scaled tolerance)"
    chk.cov["samples"] = scns[:3]
    chk.cov["trusted_base"] = TRUSTED
    for s, probs, _ in statcorr.run_scenarios(c_exe, scns):
        if probs:
            chk.violation("replay: the real library's statistics differ from the exact sample statistics: %s" % probs[0],
                          replay_text(s, probs, c_exe), True)
        else:
            chk.log("replay: the library's statistics agree with the exact statistics of %s" % json.dumps(s)[:200])
