"""C01 — events run exactly once, in (time, priority, FIFO) order; the clock is monotone.

Proof:  Props/C01.lean over CimbaModel/Event/Model.lean (abstract keyed priority queue + ordering function
        regenerated from src/cmb_event.c); the concrete queue refines the abstract one by C02.
Ties:   T-gen heap_order_check; T-corr harness/evdrv.c <-> Drivers/EvMain.lean on scripts whose ops are issued
        from outside the dispatcher and from inside running actions; Monitor.C01 = the model in follow mode.
"""
import collections

import c2lean
import evcorr
import gen_orders
import ordercheck
import vlib

TRUSTED = [
    "Lean 4.33 kernel; axioms propext, Classical.choice, Quot.sound only (audited per theorem on every run)",
    "tools/c2lean.py + clang's JSON AST (translation of heap_order_check)",
    "hand-written model CimbaModel/Event/Model.lean, tied to src/cmb_event.c by observable-log differential execution",
    "the concrete hashheap behind the event queue refines the abstract keyed priority queue (C02)",
    "times are integers below 2^53 (double arithmetic exact); NaN/inf times excluded (the code asserts)",
]


def run(chk):
    quick = chk.tier == "quick"
    impl = vlib.build_impl("hook")
    chk.cov["trusted_base"] = TRUSTED
    chk.assumptions += ["event times >= current time (release assert), reschedule/reprioritise/time/priority only on scheduled handles"]
    tgen_ok = True
    try:
        info, _ = gen_orders.run(impl)
        chk.cov["generated_from"] = [i for i in info if i["function"] == "heap_order_check"]
    except c2lean.Untranslatable as ex:
        tgen_ok = False
        chk.log("translator cannot handle the current source: %s" % ex)
    proved = tgen_ok and chk.prove(extra_targets=["evmain", "hhmain", "hhspec"])
    drivers_ok = proved or vlib.lake_build(["evmain", "hhmain", "hhspec"])[0]
    if not drivers_ok:
        chk.violation("model drivers do not build against the regenerated definitions", getattr(chk, "build_error", "")[-3000:], False)
        return
    c_exe = vlib.cc_harness("evdrv", impl)
    lean_exe = vlib.lean_exe("evmain")
    bad = []
    ncorp = 0
    for name, lines in evcorr.corpus():
        ncorp += 1
        d = evcorr.compare(c_exe, lean_exe, lines)
        if d is not None:
            bad.append((lines, d))
    total, size = (2400, 150) if quick else (60000, 600)
    stats, bad2 = evcorr.run_generated(chk.seed, total, size, c_exe, lean_exe)
    bad += bad2
    if not quick:
        san = vlib.build_impl("san")
        st3, bad3 = evcorr.run_generated(chk.seed + 31, 4800, 200, vlib.cc_harness("evdrv", san), lean_exe)
        stats += st3
        bad += bad3
    chk.cov["evaluations"] = len(stats) + ncorp
    chk.cov["distinct_nontrivial"] = len({s["sig"] for s in stats if s["ops"] >= 30})
    chk.cov["traces_validated_against_impl"] = len(stats) + ncorp - len(bad)
    chk.cov["rule"] = ("scripts over schedule/cancel/reschedule/reprioritise/pattern-find/count/cancel/clear/queries, issued from the "
                       "top level and from inside action bodies (8 actions), self-guarding ops (always valid); profiles ties/mutate/grow/"
                       "extreme/pattern/mixed/inaction: deliberate ties on time and (time, priority), zero increments, negative start, times "
                       "up to 2^53, priorities at INT64_MIN/MAX, pending counts crossing 8/16/.. ; non-trivial = at least 30 script lines; "
                       "distinct by content hash. Compared: the full observable log (dispatch order, clock and current-event inside actions, every query).")
    chk.cov["input_distribution"] = {"profiles": dict(collections.Counter(s["profile"] for s in stats)),
                                     "script_lines": sum(s["ops"] for s in stats), "corpus": ncorp}
    if stats:
        chk.cov["samples"] = [dict(stats[0])]
    reported = False
    for lines, d in bad:
        ok, msg = evcorr.monitor(lean_exe, lines, d["impl_out"], d["impl_rc"])
        if not ok:
            def pred(cand):
                (rc, out, err), _ = evcorr.run_pair(c_exe, lean_exe, cand)
                return not evcorr.monitor(lean_exe, cand, out, rc)[0]
            small = evcorr.shrink(pred, lines)
            (rc, out, err), _ = evcorr.run_pair(c_exe, lean_exe, small)
            ok2, msg2 = evcorr.monitor(lean_exe, small, out, rc)
            chk.violation("event kernel: the implementation's log is not a behaviour of the specified event queue (Monitor.C01): %s"
                          % (msg2 if not ok2 else msg), "\n".join(small if not ok2 else lines) + "\n# impl stderr: " +
                          err[-600:].replace("\n", "\n# "), True)
            reported = True
            break
    if bad and not reported:
        lines, d = bad[0]
        chk.violation("event-kernel correspondence (evdrv vs evmain) differs at log line %s: impl '%s' vs model '%s', but the "
                      "implementation's log is accepted by Monitor.C01 (handle numbering only)" % (d["index"], d["impl"], d["model"]),
                      "\n".join(lines), False)
    # ---- process level: the same kernel driven by the process layer (wake-ups of event waiters, timers, same-instant cascades):
    #      complete logs against the process-layer model, clock-monotonicity and "woken at the event's time" clauses on every log
    if proved and not chk.violations and drivers_ok:
        import simcheck
        ev = {k: chk.cov.get(k) for k in ("evaluations", "distinct_nontrivial", "traces_validated_against_impl", "rule", "input_distribution", "samples")}
        simcheck.run(chk, ["timers", "lifecycle", "evgrow", "mixed"], total_quick=3000, total_thorough=30000)
        chk.cov["evaluations"] += ev["evaluations"]
        chk.cov["distinct_nontrivial"] += ev["distinct_nontrivial"]
        chk.cov["traces_validated_against_impl"] += ev["traces_validated_against_impl"]
        chk.cov["rule"] = ev["rule"] + " Additionally, at the process level: " + chk.cov["rule"]
        chk.cov["input_distribution"] = {"event_scripts": ev["input_distribution"], "process_scenarios": chk.cov["input_distribution"]}
        chk.cov["samples"] = (ev["samples"] or []) + chk.cov.get("samples", [])
        chk.cov["trusted_base"] = TRUSTED + ["hand-written process-layer model CimbaModel/Sim (its event kernel is Event/Model.lean), tied by harness/simdrv.c"]
        return
    if not proved and not chk.violations:
        found = False
        if tgen_ok:
            pairs, _ = ordercheck.lean_disagreements("heap_order_check", "eventB")
            if pairs:
                r = ordercheck.replay_on_impl("event", pairs, impl)
                if r:
                    chk.violation("dispatch order: heap_order_check differs from the documented (time, priority, handle) order and the real "
                                  "queue dequeues a non-minimum: %s" % r[1], r[0], True)
                    found = True
        if not found:
            errs = "\n".join(l for l in getattr(chk, "build_error", "").splitlines() if "error" in l)[:3000]
            probs = "\n".join(getattr(chk, "audit_result", {}).get("problems", []))
            chk.violation("a theorem of Props/C01.lean (or the translation it rests on) no longer checks",
                          "theorems: CimbaModel.Props.C01.*\n" + errs + "\n" + probs, False)


def replay(chk, path):
    if any(l.startswith("proc ") for l in open(path)):
        import simcheck
        return simcheck.replay(chk, path)
    impl = vlib.build_impl("hook")
    gen_orders.run(impl)
    vlib.lake_build(["evmain"])
    c_exe = vlib.cc_harness("evdrv", impl)
    lean_exe = vlib.lean_exe("evmain")
    lines = [l.strip() for l in open(path) if l.strip() and not l.startswith("#")]
    chk.cov["evaluations"] = 1
    (rc, out, err), _ = evcorr.run_pair(c_exe, lean_exe, lines)
    ok, msg = evcorr.monitor(lean_exe, lines, out, rc)
    if not ok:
        chk.violation("replay: implementation's log rejected by Monitor.C01: %s" % msg, "\n".join(lines), True)
    else:
        chk.log("replay: implementation's log accepted by Monitor.C01")
