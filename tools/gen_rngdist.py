"""T-gen for property C16 -> lean/CimbaModel/Generated/RngDist.lean   (DESIGN.md §2.2, §4 C16)

Regenerated from VERIF_REPO's current source and from the build-time generated include files on every run:

  (a) the ziggurat tables of `cmi_random_exp_zig.inc` / `cmi_random_nor_zig.inc` (written into impl["dir"] by the codegen
      programs codegen/calc_exponential.c, calc_normal.c of the current tree) as EXACT values: every `double` is a dyadic
      rational; a table of doubles becomes a list of natural numerators over one common power of two; uint64_t / int64_t /
      uint8_t tables become lists of Nat / Int.  The decimal text of the include file is converted with Python's
      correctly rounded `float()`, which is what the C compiler does with the same text.
  (b) the integer / index logic of the samplers (tools/c2lean_dist.py), the same text twice:
      namespace `DistQ` (K := Rat, what Props/C16.lean proves) and `DistF` (K := Float, what the driver executes bit for
      bit against the library).
"""
import os
import re
from fractions import Fraction

import c2lean
import c2lean_dist
import c2lean_rng
import vlib

SRC = "src/cmb_random.c"
# translation order = call order (callees first)
TARGETS = ["cmb_random", "cmb_random_uniform", "cmb_random_triangular", "cmb_random_dice", "cmb_random_bernoulli",
           "cmb_random_binomial", "sums_to_one", "cmb_random_loaded_dice", "alias_secure", "cmb_random_alias_create",
           "cmb_random_alias_sample", "cmb_random_geometric", "cmb_random_std_beta", "cmb_random_PERT_mod", "cmb_random_std_gamma"]
# functions of which only the leading statements are translated (see c2lean_dist: PARTIAL functions)
PARTIAL = {"cmb_random_std_gamma"}
STRUCTS = ["cmb_random_alias"]
CONST_DOUBLES = ["sum_tolerance", "nor_zig_x_tail_start", "nor_zig_inv_tail_start", "exp_zig_x_tail_start"]
# functions outside the subset of which one do-while loop and the return after it are translated (see c2lean_dist: FRAGMENTS)
FRAGMENTS = {"cmi_random_nor_not_hot": "cmi_random_nor_not_hot_tail"}
# functions outside the subset of which the one statement updating a named local is translated (c2lean_dist.update_fragment)
UPDATES = {"cmi_random_exp_not_hot": ("x_offset", "cmi_random_exp_not_hot_tail_step")}

TABLES = {
    "exp": ("cmi_random_exp_zig.inc",
            ["cmi_random_exp_zig_max", "cmi_random_exp_zig_pdf_x", "cmi_random_exp_zig_pdf_y", "exp_zig_u_concavity",
             "exp_zig_alias", "exp_zig_u_prob", "exp_zig_x_tail_start"]),
    "nor": ("cmi_random_nor_zig.inc",
            ["cmi_random_nor_zig_max", "cmi_random_nor_zig_pdf_x", "cmi_random_nor_zig_pdf_y", "nor_zig_i_concavity",
             "nor_zig_i_convexity", "nor_zig_alias", "nor_zig_i_prob", "nor_zig_inflection", "nor_zig_x_tail_start",
             "nor_zig_inv_tail_start"]),
}
DECL = re.compile(r"(?:static\s+)?const\s+(double|uint8_t|uint64_t|int64_t)\s+(\w+)\s*(\[\s*(\d+)\s*\])?\s*=\s*(\{[^}]*\}|[^;]+);", re.S)


def parse_inc(path):
    """name -> (ctype, length or None, [python values])   doubles as float, integers as int"""
    text = re.sub(r"/\*.*?\*/", "", open(path).read(), flags=re.S)
    out = {}
    for m in DECL.finditer(text):
        ctype, name, _, ln, body = m.groups()
        items = [x.strip() for x in body.strip().strip("{}").split(",") if x.strip()]
        vals = []
        for it in items:
            mm = re.match(r"U?INT64_C\((-?0x[0-9a-fA-F]+|-?\d+)\)$", it)
            if mm:
                it = mm.group(1)
            if ctype == "double":
                vals.append(float(it))
            else:
                v = int(it, 0)
                if ctype == "int64_t" and v >= 2 ** 63:
                    v -= 2 ** 64
                vals.append(v)
        if ln is not None and int(ln) < len(vals):
            raise c2lean.Untranslatable("table %s: declared length %s, %d initialisers" % (name, ln, len(vals)))
        if ln is not None:
            vals += [0.0 if ctype == "double" else 0] * (int(ln) - len(vals))     # C zero-fills the rest
        out[name] = (ctype, int(ln) if ln else None, vals)
    return out


def dyadic_table(vals):
    """floats -> (numerators, E) with value_i = num_i / 2^E exactly"""
    frs = [Fraction(v) for v in vals]
    E = 0
    for fr in frs:
        d = fr.denominator
        if d & (d - 1):
            raise c2lean.Untranslatable("non-dyadic double?")
        E = max(E, d.bit_length() - 1)
    nums = [int(fr * 2 ** E) for fr in frs]
    return nums, E


def lean_list(xs, per=8, typ=None):
    rows = [", ".join(str(x) for x in xs[i:i + per]) for i in range(0, len(xs), per)]
    return "[" + ",\n   ".join(rows) + "]"


def tables_text(impl):
    out, meta = [], {}
    for short, (fname, names) in TABLES.items():
        path = os.path.join(impl["dir"], fname)
        if not os.path.exists(path):
            raise c2lean.Untranslatable("generated table file %s missing from the build" % fname)
        t = parse_inc(path)
        for nm in names:
            if nm not in t:
                raise c2lean.Untranslatable("table %s not found in %s" % (nm, fname))
            ctype, ln, vals = t[nm]
            if ctype == "double":
                nums, E = dyadic_table(vals)
                if any(x < 0 for x in nums) and ln is not None:
                    raise c2lean.Untranslatable("negative entry in %s" % nm)
                if ln is None:
                    out.append("/-- %s:%s = %r exactly -/\ndef %s_num : Int := %d\ndef %s_exp : Nat := %d\n" % (
                        fname, nm, vals[0], nm, nums[0], nm, E))
                else:
                    out.append("/-- %s:%s[%d]; entry i is `%s_num[i] / 2^%s_exp` exactly -/\ndef %s_num : List Nat :=\n  %s\ndef %s_exp : Nat := %d\n" % (
                        fname, nm, ln, nm, nm, nm, lean_list(nums, 4), nm, E))
            elif ln is None:
                out.append("/-- %s:%s -/\ndef %s : %s := %d\n" % (fname, nm, nm, "Int" if ctype == "int64_t" else "Nat", vals[0]))
            else:
                out.append("/-- %s:%s[%d] -/\ndef %s : List %s :=\n  %s\n" % (
                    fname, nm, ln, nm, "Int" if ctype == "int64_t" else "Nat",
                    lean_list(vals, 16 if ctype == "uint8_t" else 4)))
            meta[nm] = {"ctype": ctype, "len": ln}
    return "\n".join(out), meta


def functions_text(impl):
    incs = [os.path.join(vlib.REPO, "include"), os.path.join(vlib.REPO, "src"), impl["dir"]]
    tu = c2lean_rng.clang_tu(os.path.join(vlib.REPO, SRC), incs)
    repo = os.path.realpath(vlib.REPO)
    keep = lambda f: bool(f) and (os.path.realpath(f).startswith(repo + os.sep) or
                                  os.path.realpath(f).startswith(os.path.realpath(impl["dir"]) + os.sep))
    inv = c2lean_rng.inventory(tu, keep)
    consts = {}
    for nm in CONST_DOUBLES:
        es = [e for e in inv if e["name"] == nm and e["scope"] == "file"]
        if not es:
            continue                       # not referenced any more: the translator will complain if it is
        e = es[0]
        if e["writers"]:
            raise c2lean.Untranslatable("file-scope %s is written by %s: it is not a constant" % (nm, e["writers"]))
        init = [c for c in e["node"].get("inner", []) if isinstance(c, dict) and c.get("kind") == "FloatingLiteral"]
        if c2lean.norm_type(e["ctype"]) != "double" or not init:
            raise c2lean.Untranslatable("file-scope %s is not a double with a literal initialiser" % nm)
        consts[nm] = Fraction(float(init[0]["value"]))
    tr = c2lean_dist.DistTranslator(tu, consts)
    fns = {d["name"]: d for d in c2lean_rng.functions_with_bodies(tu)}
    body, info = [], []
    for s in STRUCTS:
        body.append("/-- struct %s of include/cmb_random.h -/\n%s" % (s, tr.struct_decl(s)))
    for nm, v in consts.items():
        body.append("/-- %s (or an include file generated at build time): static double %s, never written -/\ndef %s : K := %s\n" % (SRC, nm, nm, tr.klit(v)))
    for name in TARGETS:
        if name not in fns:
            raise c2lean.Untranslatable("function %s with a body not found in %s" % (name, SRC))
        text, fi = tr.function(fns[name], partial=name in PARTIAL)
        pre = ("  documented preconditions (release asserts): " + "; ".join(p for p in fi.pre if p)) if fi.pre else ""
        ext = ("  abstract inputs: " + "; ".join("%s = %s" % e for e in fi.ext + fi.ext_nat)) if fi.ext else ""
        body.append("/-- %s (AST %s)%s%s -/\n%s" % (name, c2lean.ast_hash(fns[name]), pre, ext, text))
        info.append({"function": name, "ast": c2lean.ast_hash(fns[name]), "preconditions": fi.pre, "draws": fi.draws,
                     "abstract_libm": fi.libm, "abstract_inputs": [e[1] for e in fi.ext], "statics_as_parameters": [s[0] for s in fi.statics],
                     "fuel": fi.fuel})
    for name, stem in FRAGMENTS.items():
        if name not in fns:
            raise c2lean.Untranslatable("function %s with a body not found in %s" % (name, SRC))
        text, fis = tr.do_while_fragment(fns[name], stem)
        body.append("/-- %s (AST %s): the do-while loop of the tail branch — `%s_iter` is ONE iteration (body, then the loop condition: "
                    "true = go round again), `%s_result` the value returned after the loop -/\n%s" % (
                        name, c2lean.ast_hash(fns[name]), stem, stem, text))
        info.append({"function": name + " (do-while fragment)", "ast": c2lean.ast_hash(fns[name]), "fragments": fis})
    for name, (var, lean_name) in UPDATES.items():
        if name not in fns:
            raise c2lean.Untranslatable("function %s with a body not found in %s" % (name, SRC))
        text, fi = tr.update_fragment(fns[name], var, lean_name)
        body.append("/-- %s (AST %s): the one statement that updates the local `%s` (the tail offset of the exponential ziggurat), as a "
                    "function of its value, and its initial value -/\n%s" % (name, c2lean.ast_hash(fns[name]), var, text))
        info.append({"function": name + " (update of %s)" % var, "ast": c2lean.ast_hash(fns[name]), "fragments": [fi]})
    return "\n".join(body), info, {k: str(v) for k, v in consts.items()}


def generate(impl):
    """Returns (lean_text, info). Raises c2lean.Untranslatable."""
    tabs, tmeta = tables_text(impl)
    body, finfo, consts = functions_text(impl)
    out = ["/- GENERATED by tools/gen_rngdist.py from %s, include/cmb_random.h and the ziggurat tables built by codegen/ of the" % SRC,
           "   current source tree, on every run. Do not edit. -/",
           "import CimbaModel.Rng.DistBase", "", "set_option linter.unusedVariables false", "set_option maxRecDepth 100000", "",
           "namespace CimbaModel.Generated.ZigTables", "", tabs, "end CimbaModel.Generated.ZigTables", ""]
    for ns, k in (("DistQ", "Rat"), ("DistF", "Float")):
        out += ["namespace CimbaModel.Generated.%s" % ns, "open CimbaModel.Rng.Dist", "",
                "/-- `double` in this instantiation -/", "abbrev K := %s" % k, "", body, "end CimbaModel.Generated.%s" % ns, ""]
    return "\n".join(out), {"functions": finfo, "tables": tmeta, "constants": consts}


def run(impl):
    text, info = generate(impl)
    changed = vlib.write_if_changed(os.path.join(vlib.GEN, "RngDist.lean"), text)
    return info, changed


if __name__ == "__main__":
    impl = vlib.build_impl("rel")
    text, info = generate(impl)
    print(text)
