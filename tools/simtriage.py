import sys, vlib, simcorr, gen_sim, collections
prof=sys.argv[1]; seed=int(sys.argv[2]) if len(sys.argv)>2 else 1; nshow=int(sys.argv[3]) if len(sys.argv)>3 else 2
variant=sys.argv[4] if len(sys.argv)>4 else 'hook'
impl=vlib.build_impl(variant)
c=vlib.cc_harness('simdrv',impl); l=vlib.lean_exe('simmain')
stats,bad=simcorr.run_generated(seed, 600, [prof], c, l)
print(prof, len(stats), 'bad', len(bad))
shown=0
seen=set()
for lines,d in bad:
    small=simcorr.shrink(lambda cand: simcorr.compare(c,l,cand) is not None, lines, budget=150)
    key="\n".join(small)
    if key in seen: continue
    seen.add(key)
    d2=simcorr.compare(c,l,small)
    print('-----'); print("\n".join(small))
    a,b=d2['impl_out'],d2['model_out']
    print('  impl rc',d2['impl_rc'], d2['impl_err'][-300:].strip())
    for i in range(max(len(a),len(b))):
        x=a[i] if i<len(a) else '<>'; y=b[i] if i<len(b) else '<>'
        if x.startswith('H ') and x==y: continue
        print(('   ' if x==y else ' !!')+x+('' if x==y else '    ||    '+y))
    shown+=1
    if shown>=nshow: break
