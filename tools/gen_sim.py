"""Scenario generator for the process-layer correspondence (C04-C09, C11-C14, C10).

Scenarios are built from the idioms the documentation recommends (timeout armed before a blocking call, acquire-hold-release
loops with immediate re-acquire, producers/consumers, interrupts / stops / preemptions aimed at blocked processes) with small
integer durations so that several causes fall on the same simulated instant. Every command is self-guarding in both
drivers, so every generated scenario is a valid program.

Pattern cancel (`upcancel` = cmb_event_pattern_cancel(user_action, ANY, ANY)): the library cancels the matching events in the
order of its heap array, the model in the order of its abstract pending list (the header leaves the order unspecified). The
order is observable only through the order in which waiters (`waite`) of DIFFERENT cancelled events with EQUAL priority are
resumed. Scenarios that contain `upcancel` therefore follow one of two disciplines (`pmode`):
  "prio"  - all processes have pairwise different priorities and there is no `prio` command: waiters of different events
            are resumed in priority order, whatever the order of cancellation;
  "one"   - at most one awaited user event at any time: `waite` only on variable 8, and variable 8 is only (re)written by
            the pair `ucancel 8` / `usched 8 ...` (no yield in between), variable 9 holds events nobody waits for.
In both, the set of wake-ups, their times, priorities and the block of handles they occupy do not depend on the order.

The timer API applied to another process (`tclearo q` = cmb_process_timers_clear(&procs[q]), `taddo q d sig` =
cmb_process_timer_add(&procs[q], d, sig), handle discarded; both skipped unless q is started and unfinished): offered wherever
`tadd` / `tclear` are (profiles timers / mixed / lifecycle), and concentrated in the profile `timerso`, whose targets arm timers
of their own and THEN suspend themselves in a wait (acquire, pool acquire, buffer get, wait for a process / an event, condition
wait, hold), so that their awaits lists hold a non-timer entry in front of the timer entries when another process clears them;
afterwards several processes block again, so that the awaitable tags that were freed are handed out again.
"""
import random

SIGS = [-2, -5, -4, -7, 3, 11]          # interrupt / timer / resume signals (never 0 = SUCCESS)
PROFILES = ["resource", "pool", "buffer", "oq", "pq", "cond", "lifecycle", "timers", "mixed", "crowd", "record", "poolprio", "condcrowd", "condfwd", "evgrow", "prioq", "record2", "pqreprio", "poolleft", "longrec", "timerso", "coincide", "qdrain"]


def gen_scenario(rng, profile=None, size=None, exclude=frozenset()):
    profile = profile or rng.choice(PROFILES)
    np_ = rng.randint(2, 5) if profile != "crowd" else rng.randint(9, 14)
    ncmd = size or rng.randint(3, 12)
    nres = 1 if profile in ("resource", "crowd") else rng.randint(0, 2)
    if profile in ("resource", "crowd", "lifecycle", "mixed", "record", "cond"):
        nres = max(nres, 1)
    pools = [rng.choice([1, 2, 3, 5, 8, 12]) for _ in range(rng.randint(1, 2))] if profile in ("pool", "mixed", "record", "cond", "lifecycle") else []
    bufs = [rng.choice([1, 2, 5, 10, "U"]) for _ in range(rng.randint(1, 2))] if profile in ("buffer", "mixed", "record", "cond") else []
    oqs = [rng.choice([1, 2, 3, "U"]) for _ in range(1)] if profile in ("oq", "mixed", "record", "cond") else []
    pqs = [rng.choice([1, 2, 4, "U"]) for _ in range(1)] if profile in ("pq", "mixed", "record") else []
    nconds = rng.randint(1, 2) if profile in ("cond",) or (profile == "mixed" and rng.random() < 0.3) else 0
    out = []
    out += ["res"] * nres
    out += ["pool %s" % c for c in pools]
    out += ["buf %s" % c for c in bufs]
    out += ["oq %s" % c for c in oqs]
    out += ["pq %s" % c for c in pqs]
    out += ["cond"] * nconds
    subs = []
    if nconds:
        for c in range(nconds):
            for _ in range(rng.randint(0, 2)):
                k = rng.choice([k for k, n in ((0, nres), (1, len(pools)), (2, len(bufs)), (3, len(oqs))) if n])
                n = {0: nres, 1: len(pools), 2: len(bufs), 3: len(oqs)}[k]
                subs.append("sub %d %d %d %d" % (c, k, rng.randrange(n), rng.randint(0, 1)))
    out += subs
    # pattern cancel of user events: see the module docstring
    pmode = rng.choice([None, "prio", "one"]) if profile in ("timers", "lifecycle", "mixed") else None

    def uvar():
        return rng.randrange(8, 10)

    def usched_cmds():
        if pmode == "one":
            if rng.random() < 0.5:
                return ["usched 9 %d %d" % (dur(), prio())]
            return ["ucancel 8", "usched 8 %d %d" % (dur(), prio())]
        return ["usched %d %d %d" % (uvar(), dur(), prio())]

    def dur():
        return rng.choice([0, 0, 1, 1, 1, 2, 2, 3, 4, 5])

    def other(me):
        return rng.randrange(np_)

    def prio():
        return rng.choice([0, 0, 1, 1, 2, 3, -1, 5]) if profile != "crowd" else rng.choice([0, 1, 1, 2])

    def blocking(me):
        """one blocking call appropriate for the profile, as command text"""
        ch = []
        if nres:
            ch += ["acq %d" % rng.randrange(nres)] * 3 + ["pre %d" % rng.randrange(nres)]
        if pools:
            p = rng.randrange(len(pools))
            cap = pools[p]
            ch += ["pacq %d %d" % (p, rng.randint(1, cap))] * 3 + ["ppre %d %d" % (p, rng.randint(1, cap))]
        if bufs:
            b = rng.randrange(len(bufs))
            big = [18446744073709551613, 18446744073709551615, 18446744073709551610] if profile == "buffer" and rng.random() < 0.25 else []
            ch += ["bget %d %d" % (b, rng.choice([0, 1, 2, 3, 7, 15] + big))] * 2 + ["bput %d %d" % (b, rng.choice([1, 2, 3, 7, 15] + big))] * 2
        if oqs:
            ch += ["oget 0"] * 2 + ["oput 0 %d" % rng.choice([0, 1, 2, 2, 9])] * 2
        if pqs:
            ch += ["kget 0"] * 2 + ["kput 0 %d %d %d" % (rng.choice([0, 1, 2, 9]), rng.choice([0, 0, 1, 5, -3]), rng.randrange(4, 8))] * 2
        if nconds:
            c = rng.randrange(nconds)
            kinds = [(0, rng.randrange(4), 0)]
            if nres:
                kinds.append((1, rng.randrange(nres), 0))
            if pools:
                p = rng.randrange(len(pools))
                kinds.append((2, p, rng.randint(1, pools[p])))
            if bufs:
                kinds.append((3, rng.randrange(len(bufs)), rng.randint(1, 3)))
            if oqs:
                kinds.append((4, 0, rng.randint(1, 2)))
            k = rng.choice(kinds)
            ch += ["cwait %d %d %d %d" % ((c,) + k)] * 3
        ch += ["hold %d" % dur()] * 2 + ["waitp %d" % other(me)]
        if profile in ("timers", "lifecycle", "mixed"):
            ch += ["yield", "waite %d" % (8 if pmode == "one" else uvar())]
            if pmode:
                ch += ["waite %d" % (8 if pmode == "one" else uvar())] * 2
        return rng.choice(ch)

    def nonblocking(me):
        ch = ["hold %d" % dur()] * 3
        if nres:
            ch += ["rel %d" % rng.randrange(nres)] * 3
        if pools:
            p = rng.randrange(len(pools))
            ch += ["prel %d %d" % (p, rng.randint(1, pools[p]))] * 3
        if profile in ("lifecycle", "mixed", "timers", "resource", "pool", "crowd", "cond", "buffer", "oq", "pq"):
            ch += ["intr %d %d %d" % (other(me), rng.choice(SIGS), prio())] * 2
            ch += ["resume %d %d" % (other(me), rng.choice(SIGS))]
        if profile in ("lifecycle", "mixed", "resource", "pool", "cond") and "stop" not in exclude:
            ch += ["stop %d %d" % (other(me), rng.randint(1, 9))]
            if "stop-self" not in exclude and rng.random() < 0.3:
                ch += ["stop %d %d" % (me, rng.randint(1, 9))]
        if profile in ("lifecycle", "mixed"):
            ch += ["start %d" % other(me), "exit %d" % rng.randint(1, 9)]
        if profile in ("resource", "crowd", "pool", "mixed", "lifecycle", "cond") and pmode != "prio":
            ch += ["prio %d %d" % (other(me), prio())] * 2
        if profile in ("timers", "mixed", "lifecycle"):
            v = rng.randrange(4)
            ch += ["tadd %d %d %d" % (v, dur(), rng.choice(SIGS)), "tset %d %d %d" % (v, dur(), rng.choice(SIGS)),
                   "tcancel %d" % v, "tclear", usched_cmds(), "ucancel %d" % uvar()]
            if pmode:
                ch += [usched_cmds(), usched_cmds(), "upcancel", "upcancel"]
            ch += ["tclearo %d" % other(me)] * 2 + ["taddo %d %d %d" % (other(me), dur(), rng.choice(SIGS))] * 2
        if pqs:
            v = rng.randrange(4, 8)
            ch += ["kcancel 0 %d" % v, "kreprio 0 %d %d" % (v, rng.choice([0, 2, 7, -3])), "kpos 0 %d" % v]
        if nconds:
            c = rng.randrange(nconds)
            ch += ["csig %d" % c] * 3 + ["flag %d %d" % (rng.randrange(4), rng.choice([0, 1]))] * 3
            ch += ["ccancel %d %d" % (c, other(me)), "cremove %d %d" % (c, other(me))]
        if profile in ("record", "mixed"):
            kinds = [(0, nres), (1, len(pools)), (2, len(bufs)), (3, len(oqs)), (4, len(pqs))]
            k, n = rng.choice([x for x in kinds if x[1]])
            ch += ["rstart %d %d" % (k, rng.randrange(n))] * 2 + ["rstop %d %d" % (k, rng.randrange(n))]
        return rng.choice(ch)

    if profile == "condcrowd":
        # many waiters on one condition, a signaller that raises flags and signals; in about half of the scenarios the
        # condition also observes a resource and some waiters wait for that resource to be free, so that one release
        # (a forwarded signal) has to wake several waiters standing behind each other
        nw = rng.randint(6, 12)
        obs = rng.random() < 0.5
        out = ["res", "cond", "sub 0 0 0 0"] if obs else ["cond"]

        def pred():
            return "cwait 0 1 0 0" if obs and rng.random() < 0.5 else "cwait 0 0 %d 0" % rng.randrange(4)
        for p in range(nw):
            cmds = [pred()]
            if rng.random() < 0.3:
                cmds = ["tadd 0 %d -5" % rng.randint(1, 6)] + cmds
            if rng.random() < 0.4:
                cmds.append(pred())
            out.append("proc %d 1 %d" % (rng.randint(0, 12), len(cmds)))
            out += cmds
        sig = ["acq 0"] if obs else []
        for _ in range(rng.randint(3, 7)):
            sig.append("hold %d" % rng.randint(1, 3))
            for _ in range(rng.randint(1, 2)):
                sig.append("flag %d %d" % (rng.randrange(4), rng.choice([0, 1, 1])))
            if obs and rng.random() < 0.6:
                sig += ["rel 0"] + (["acq 0"] if rng.random() < 0.6 else [])
            else:
                sig.append("csig 0")
            if rng.random() < 0.2:
                sig.append("ccancel 0 %d" % rng.randrange(nw))
        sig += ["flag 0 1", "flag 1 1", "flag 2 1", "flag 3 1", "hold 1", "csig 0"]
        if obs:
            sig += ["rel 0"]
        out.append("proc %d 1 %d" % (rng.randint(0, 12), len(sig)))
        out += sig
        return out, {"profile": profile, "procs": nw + 1, "lines": len(out)}
    if profile == "prioq":
        # a long holder, several waiters arriving at distinct times with few distinct priorities, priority changes of
        # waiting processes (ties with others on purpose), then the resource passes down the queue: service order is visible
        nw = rng.randint(3, 9)
        use_pool = rng.random() < 0.3
        out = ["pool 1"] if use_pool else ["res"]
        acq, rel = ("pacq 0 1", "prel 0 1") if use_pool else ("acq 0", "rel 0")
        out += ["proc 9 1 3", acq, "hold %d" % (nw + 6), rel]
        for w in range(nw):
            out += ["proc %d 1 4" % rng.randint(0, 2), "hold %d" % (w + 1 if rng.random() < 0.8 else rng.randint(1, nw)), acq, "hold 1", rel]
        ch = []
        tnow = 0
        for _ in range(rng.randint(1, 5)):
            d = rng.randint(1, 3)
            ch.append("hold %d" % d)
            ch.append("prio %d %d" % (rng.randint(1, nw), rng.randint(0, 2)))
        out += ["proc 5 1 %d" % len(ch)] + ch
        return out, {"profile": profile, "procs": nw + 2, "lines": len(out)}
    if profile == "record2":
        # recording toggled on/off/on by one process at times 0, 10, 20, ...; the others change the state of the recorded
        # objects with calls that do not block, each at its own instants, so that the true trajectory is determined
        out = ["res", "pool 50", "buf U", "oq U", "pq U"]
        tog = []
        objs_ = [(0, 0), (1, 0), (2, 0), (3, 0), (4, 0)]
        for rnd in range(rng.randint(2, 4)):
            for (k, i) in objs_:
                if rng.random() < 0.8:
                    tog.append("%s %d %d" % ("rstart" if rnd % 2 == 0 else "rstop", k, i))
            tog.append("hold 10")
        out += ["proc 9 1 %d" % len(tog)] + tog
        for j in range(rng.randint(1, 4)):
            cmds = ["hold %d" % (j + 1)]
            held = 0
            for _ in range(rng.randint(2, 6)):
                r = rng.random()
                if r < 0.25:
                    cmds.append("bput 0 %d" % rng.randint(1, 4))
                elif r < 0.4:
                    cmds += ["bput 0 2", "bget 0 1"]
                elif r < 0.6:
                    cmds.append("oput 0 %d" % rng.randint(1, 9))
                elif r < 0.7:
                    cmds += ["oput 0 3", "oget 0"]
                elif r < 0.85:
                    cmds += ["pacq 1 %d" % rng.randint(1, 3)]
                    held = 1
                else:
                    cmds += ["kput 0 %d %d %d" % (rng.randint(1, 9), rng.randint(0, 3), 4 + j)]
                cmds.append("hold 10")
            if j == 0:
                cmds += ["acq 0", "hold 10", "rel 0"]
            if held and rng.random() < 0.5:
                cmds.append("prel 1 1")
            out += ["proc %d 1 %d" % (rng.randint(0, 3), len(cmds))] + cmds
        return out, {"profile": profile, "procs": 2, "lines": len(out)}
    if profile == "coincide":
        # same-instant coincidences, systematically: a waiter arms a timer d, enters a blocking call and blocks again afterwards;
        # an actor that runs earlier in that instant (higher priority) causes, at exactly t = d, what the waiter waits for - or
        # stops / interrupts / resumes it - in the normal and in the abnormal way (exit vs stop, release vs end while holding,
        # signal vs cancel); a bystander makes the later blocking calls observable (a stale wake-up cuts them short)
        d = rng.randint(1, 3)
        out = ["res", "pool 3", "buf 2", "oq 1", "cond"]
        if rng.random() < 0.3:
            out.append("sub 0 0 0 0")
        what = rng.choice(["waitp", "acq", "pacq", "bget", "oget", "oput", "cwait", "waite", "hold"])
        sig = rng.choice([-5, -5, 3, 11, -7])
        wprio, aprio = rng.randint(0, 4), rng.randint(5, 9)
        call = {"waitp": "waitp 2", "acq": "acq 0", "pacq": "pacq 0 2", "bget": "bget 0 1", "oget": "oget 0", "oput": "oput 0 5",
                "cwait": "cwait 0 0 1 0", "waite": "waite 8", "hold": "hold %d" % (d + rng.randint(0, 2))}[what]
        waiter = ["tadd 0 %d %d" % (d, sig), call, "hold 2", rng.choice(["hold 1", "acq 0", "waitp 2", "bget 0 1", "cwait 0 0 0 0"]), "hold 1"]
        if what == "oput":
            waiter = ["oput 0 4"] + waiter            # fill the queue first so that the put blocks
        if rng.random() < 0.3:
            waiter = waiter[:1] + ["tadd 1 %d %d" % (d, rng.choice([-5, 3]))] + waiter[1:]
        cause = {"waitp": ["stop 2 7", "stop 2 7", "resume 2 -7"], "acq": ["rel 0", "exit 3", "stop 0 1"],
                 "pacq": ["prel 0 2", "prel 0 1", "exit 3"], "bget": ["bput 0 1", "bput 0 2"], "oget": ["oput 0 9"],
                 "oput": ["oget 0"], "cwait": ["flag 1 1", "csig 0", "ccancel 0 0", "cremove 0 0"],
                 "waite": ["ucancel 8", "upcancel"], "hold": ["intr 0 -2 %d" % rng.randint(0, 9), "resume 0 -7", "stop 0 4"]}[what]
        actor = []
        if what == "acq":
            actor += ["acq 0"]
        if what == "pacq":
            actor += ["pacq 0 3"]
        if what == "waite":
            actor += ["usched 8 %d 0" % (d + rng.randint(0, 3))]
        actor += ["hold %d" % d]
        actor += [rng.choice(cause)]
        if what == "cwait":
            actor += ["csig 0"]
        if rng.random() < 0.5:
            actor += [rng.choice(["stop 0 5", "intr 0 -2 %d" % rng.randint(0, 9), "resume 0 -7", "prio 0 %d" % rng.randint(0, 9), "tclearo 0",
                                  "csig 0", "rel 0", "hold 0"])]
        actor += ["hold 3", "rel 0", "prel 0 3", "hold 5"]
        third = ["hold %d" % (d + rng.choice([0, 0, 1])), rng.choice(["exit 2", "hold 4", "acq 0", "oget 0", "bput 0 1", "stop 0 6", "stop 1 6"]), "hold 2"]
        procs = [(wprio, waiter), (aprio, actor), (rng.randint(0, 9), third)]
        if rng.random() < 0.4:
            procs.append((rng.randint(0, 9), ["hold %d" % rng.randint(0, d), rng.choice(["acq 0", "pacq 0 1", "bget 0 1", "oget 0", "waitp 0", "cwait 0 0 1 0"]), "hold 1", "rel 0"]))
        for pr, c in procs:
            out += ["proc %d 1 %d" % (pr, len(c))] + c
        return out, {"profile": profile, "procs": len(procs), "lines": len(out)}
    if profile == "qdrain":
        # several producers blocked on a small full queue / buffer (or consumers on an empty one) and one process that gets
        # (puts) several times in a row without yielding: grants of one instant overtaken by further state changes
        kind = rng.choice(["oq", "oq", "pq", "buf"])
        cap = rng.randint(1, 3)
        out = ["%s %d" % (kind, cap)]
        put = {"oq": "oput 0 %d", "pq": "kput 0 %d " + "%d %d" % (rng.randint(0, 3), 4), "buf": "bput 0 %d"}[kind]
        get = {"oq": "oget 0", "pq": "kget 0", "buf": "bget 0 1"}[kind]
        procs = []
        side = rng.choice(["putters", "putters", "getters"])
        n = rng.randint(2, 5)
        if side == "putters":
            procs.append((rng.randint(0, 3), [put % (10 + j) if kind != "buf" else "bput 0 1" for j in range(cap)] + ["hold 9"]))
            for j in range(n):
                procs.append((rng.randint(0, 5), ["hold %d" % rng.randint(0, 1), (put % (20 + j)) if kind != "buf" else "bput 0 %d" % rng.randint(1, 2), "hold 1"]))
            drain = ["hold 2"] + [get] * rng.randint(2, n + 1) + ["hold 1"] + [get] * rng.randint(0, 2)
            procs.append((rng.randint(0, 9), drain))
            if rng.random() < 0.4:
                procs.append((rng.randint(0, 9), ["hold 2", get, get]))
        else:
            for j in range(n):
                procs.append((rng.randint(0, 5), ["hold %d" % rng.randint(0, 1), get, "hold 1"]))
            fill = ["hold 2"] + [(put % (30 + j)) if kind != "buf" else "bput 0 1" for j in range(rng.randint(2, n + 1))] + ["hold 1"]
            procs.append((rng.randint(0, 9), fill))
        if rng.random() < 0.3:
            procs.append((rng.randint(6, 9), ["hold 2", rng.choice(["stop 1 3", "intr 1 -2 5", "intr 2 -2 0", "prio 1 %d" % rng.randint(0, 9)])]))
        for pr, c in procs:
            out += ["proc %d 1 %d" % (pr, len(c))] + c
        return out, {"profile": profile, "procs": len(procs), "lines": len(out)}
    if profile == "longrec":
        # one recorded object driven through many changes by one process: histories that cross the growth thresholds of the
        # history arrays (1024 samples), values that repeat (a sample equal to the running mean), changes in the same instant
        kind = rng.choice(["buf", "oq", "res", "pool"])
        k = rng.choice([3, 10, 40, 40, 120]) if rng.random() < 0.9 else rng.choice([1030, 1100, 1300])
        head = {"buf": "buf 5", "oq": "oq 4", "res": "res", "pool": "pool 6"}[kind]
        code = {"buf": 2, "oq": 3, "res": 0, "pool": 1}[kind]
        up, down = {"buf": ("bput 0 %d", "bget 0 %d"), "oq": ("oput 0 %d", "oget 0"), "res": ("acq 0", "rel 0"),
                    "pool": ("pacq 0 %d", "prel 0 %d")}[kind]
        cmds = []
        if rng.random() < 0.5:
            cmds += [up % 1 if "%" in up else up]          # recording starts on a busy object
        cmds += ["rstart %d 0" % code]
        level = 1 if len(cmds) == 2 else 0
        for _ in range(k):
            n_ = rng.randint(1, 2) if kind in ("buf", "pool") else 1
            if level == 0 or (level < 3 and kind != "res" and rng.random() < 0.5):
                cmds.append(up % n_ if "%" in up else up)
                level += n_
            else:
                n_ = min(n_, level)
                cmds.append(down % n_ if "%" in down else down)
                level -= n_
            if rng.random() < 0.7:
                cmds.append("hold %d" % rng.choice([1, 1, 2, 3]))
        if rng.random() < 0.7:
            cmds += ["hold 2", "rstop %d 0" % code]
        out = [head, "proc %d 1 %d" % (rng.randint(0, 3), len(cmds))] + cmds
        return out, {"profile": profile, "procs": 1, "lines": len(out)}
    if profile == "timerso":
        # targets: timers armed first, then a wait that registers a non-timer awaitable; controllers clear / add timers of the
        # suspended targets, then everybody blocks again (tags are reused), targets clear their own timers, priorities change
        cap = rng.choice([2, 3, 5])
        out = ["res", "res", "pool %d" % cap, "buf %d" % rng.choice([1, 3]), "oq 2", "cond"]
        nt = rng.randint(1, 4)
        nc = rng.randint(1, 2)
        np_ = 1 + nt + nc
        tdur = lambda: rng.choice([1, 2, 2, 3, 4, 5, 6, 8])
        procs = []
        # the holder: takes everything so that the targets' calls block, lets go later, raises the flags at the end
        hcmds = ["usched 8 %d %d" % (rng.randint(2, 9), rng.randint(0, 3)), "acq 0", "pacq 0 %d" % cap]
        if rng.random() < 0.7:
            hcmds.append("acq 1")
        hcmds.append("hold %d" % rng.randint(3, 9))
        rels = ["rel 0", "prel 0 %d" % cap, "rel 1", "bput 0 1", "flag 1 1", "csig 0", "oput 0 5"]
        rng.shuffle(rels)
        for x in rels:
            hcmds.append(x)
            if rng.random() < 0.3:
                hcmds.append("hold %d" % rng.randint(0, 2))
        hcmds += ["hold 2", "flag 2 1", "flag 3 1", "csig 0", "bput 0 3"]
        procs.append((rng.randint(6, 9), hcmds))

        def wait_call(me):
            return rng.choice(["acq 0", "acq 0", "acq 1", "pacq 0 %d" % rng.randint(1, cap), "bget 0 %d" % rng.randint(1, 2),
                               "waitp 0", "waitp %d" % rng.randrange(np_), "waite 8", "cwait 0 0 %d 0" % rng.randint(1, 3),
                               "cwait 0 1 0 0", "hold %d" % tdur(), "oget 0", "yield"])
        for j in range(nt):
            me = 1 + j
            cmds = []
            if rng.random() < 0.3:
                cmds.append("hold %d" % rng.randint(0, 1))
            for _ in range(rng.randint(1, 3)):
                for v in range(rng.choice([1, 2, 2, 3])):
                    cmds.append("tadd %d %d %d" % (v, tdur(), rng.choice([-5, -5, -7, 11])))
                cmds.append(wait_call(me))
                r = rng.random()
                if r < 0.3:
                    cmds.append("tclear")
                elif r < 0.45:
                    cmds.append("tcancel %d" % rng.randrange(3))
                elif r < 0.6:
                    cmds.append("tset 0 %d -5" % tdur())
                if rng.random() < 0.4:
                    cmds.append(rng.choice(["rel 0", "rel 1", "prel 0 1", "hold 1"]))
            procs.append((rng.randint(2, 5), cmds))
        for j in range(nc):
            me = 1 + nt + j
            cmds = ["hold %d" % rng.randint(1, 2)]
            for _ in range(rng.randint(2, 6)):
                r = rng.random()
                tgt = rng.randint(1, nt) if rng.random() < 0.85 else rng.randrange(np_)
                if r < 0.45:
                    cmds.append("tclearo %d" % tgt)
                elif r < 0.65:
                    cmds.append("taddo %d %d %d" % (tgt, rng.choice([0, 1, 1, 2, 3]), rng.choice(SIGS)))
                elif r < 0.72:
                    cmds.append(rng.choice(["prio %d %d" % (tgt, rng.randint(0, 9)), "intr %d %d %d" % (tgt, rng.choice(SIGS), rng.randint(0, 5)),
                                            "resume %d %d" % (tgt, rng.choice(SIGS)), "stop %d 4" % tgt]))
                else:
                    # block again: the freed tags are handed out to new registrations
                    if rng.random() < 0.5:
                        cmds.append("tadd 0 %d %d" % (tdur(), rng.choice([-5, 3])))
                    cmds.append(rng.choice(["hold %d" % rng.randint(0, 2), "hold 1", "acq 1", "waitp %d" % rng.randint(1, nt), "pacq 0 1",
                                            "cwait 0 0 2 0", "bget 0 1", "waite 8"]))
                    if rng.random() < 0.3:
                        cmds.append(rng.choice(["tclear", "rel 1", "prel 0 1"]))
            procs.append((rng.randint(0, 3), cmds))
        for pr, c in procs:
            out += ["proc %d 1 %d" % (pr, len(c))] + c
        return out, {"profile": profile, "procs": len(procs), "lines": len(out)}
    if profile == "poolleft":
        # multi-step pool acquisitions that are served in instalments, with further waiters behind them, and releases that
        # leave something over; everybody parks for ever afterwards (a get from an empty buffer) so that whatever is wrong
        # at the end stays visible: a waiter blocked although units are available, units that nobody holds
        cap = rng.randint(5, 12)
        out = ["pool %d" % cap, "buf 1"]
        h = rng.randint(cap // 2, cap - 1)                      # held by the first holder
        rel = [rng.randint(1, h)]
        if rel[0] < h and rng.random() < 0.5:
            rel.append(rng.randint(1, h - rel[0]))
        cmds = ["pacq 0 %d" % h]
        for r_ in rel:
            cmds += ["hold %d" % rng.randint(1, 3), "prel 0 %d" % r_]
        cmds += ["bget 0 1"]
        procs = [(rng.randint(0, 9), cmds)]
        free = cap - h
        nbig = rng.randint(1, 2)
        for _ in range(nbig):
            want = rng.randint(free + 1, cap)
            procs.append((rng.randint(0, 9), ["hold %d" % rng.randint(0, 1), "%s 0 %d" % (rng.choice(["pacq", "pacq", "ppre"]), want), "bget 0 1"]))
        for _ in range(rng.randint(1, 3)):
            c2 = ["hold %d" % rng.randint(0, 2), "pacq 0 %d" % rng.randint(1, 2)]
            if rng.random() < 0.3:
                c2.insert(1, "tadd 0 %d -5" % rng.randint(1, 4))
            procs.append((rng.randint(0, 9), c2 + ["bget 0 1"]))
        if rng.random() < 0.3:
            procs.append((rng.randint(0, 9), ["hold %d" % rng.randint(1, 3), rng.choice(["intr 1 -7 5", "stop 1 3", "prio 2 %d" % rng.randint(0, 9)]), "bget 0 1"]))
        for pr, c in procs:
            out += ["proc %d 1 %d" % (pr, len(c))] + c
        return out, {"profile": profile, "procs": len(procs), "lines": len(out)}
    if profile == "pqreprio":
        # a priority queue with very few objects: reprioritise / position / cancel by handle at every population from 0 to 3,
        # then put objects whose priorities fall between the old and the new value, and drain
        out = ["pq %s" % rng.choice([3, 4, "U"])]
        cmds = []
        live = []            # variables holding handles of objects believed queued
        for _ in range(rng.randint(4, 14)):
            r = rng.random()
            free = [v for v in range(4, 8) if v not in live]
            if (r < 0.35 or not live) and free and len(live) < 3:
                v = rng.choice(free)
                cmds.append("kput 0 %d %d %d" % (rng.randint(1, 9), rng.choice([0, 1, 3, 5, 8, -2]), v))
                live.append(v)
            elif r < 0.65 and live:
                cmds.append("kreprio 0 %d %d" % (rng.choice(live), rng.choice([0, 2, 4, 7, 9, -3])))
            elif r < 0.8 and live:
                cmds.append("kpos 0 %d" % rng.choice(live))
            elif r < 0.9 and live:
                v = rng.choice(live)
                cmds.append("kcancel 0 %d" % v)
                live.remove(v)
            else:
                cmds.append("kget 0")
                live = live[1:] if rng.random() < 0.5 else live      # which one left is not tracked: stale handles are skipped by the driver
        cmds += ["kpos 0 %d" % v for v in range(4, 8)] + ["kget 0"] * 3
        out += ["proc %d 1 %d" % (rng.randint(0, 3), len(cmds))] + cmds
        if rng.random() < 0.4:
            c2 = ["hold %d" % rng.randint(0, 1), "kget 0", "hold 1", "kget 0"]
            out += ["proc %d 1 %d" % (rng.randint(0, 3), len(c2))] + c2
        return out, {"profile": profile, "procs": 2, "lines": len(out)}
    if profile == "evgrow":
        # many processes wait for one user event; a filler arms k timers so that the event queue is at a growth threshold
        # when the event is executed or cancelled and its waiters are woken
        nw = rng.randint(2, 12)
        k = rng.randint(0, 40)
        how = rng.choice(["exec", "cancel", "cancel", "pcancel", "pcancel"])
        filler = ["usched 9 2 %d" % rng.randint(0, 3), "hold 1"] + ["tadd 0 50 -5"] * k
        if how == "pcancel" and rng.random() < 0.5:
            filler = ["usched 8 %d %d" % (rng.randint(1, 4), rng.randint(0, 3))] + filler      # a second match, nobody waits for it
        filler += (["hold 5"] if how == "exec" else ["ucancel 9", "hold 1"] if how == "cancel" else ["upcancel", "hold 1"]) + ["hold 5"]
        out = ["res", "proc %d 1 %d" % (rng.randint(0, 3), len(filler))] + filler
        for _ in range(nw):
            out += ["proc %d 1 2" % rng.randint(0, 3), "waite 9", "hold 1"]
        return out, {"profile": profile, "procs": nw + 1, "lines": len(out)}
    if profile == "condfwd":
        # a condition observing a resource / pool / buffer / queue guard; state changes reach its waiters only through forwarded
        # signals: several condition waiters, most with a predicate on the observed object (so that one release / put / get
        # makes the predicates of several waiters, standing behind each other in the condition's list, true at once)
        chain = rng.random() < 0.3          # a second condition observing the first one: the signal has to travel on
        out = ["res", "pool 4", "buf 5", "oq 3", "cond"] + (["cond"] if chain else [])
        kind, idx, which = rng.choice([(0, 0, 0), (0, 0, 0), (1, 0, 0), (2, 0, 0), (2, 0, 1), (3, 0, 0), (3, 0, 1)])
        out.append("sub 0 %d %d %d" % (kind, idx, which))
        if chain:
            out.append("sub 1 5 0 0")
        if rng.random() < 0.3:
            out.append("sub 0 %d %d %d" % rng.choice([(0, 0, 0), (1, 0, 0), (2, 0, 0), (3, 0, 0)]))
        on_obj = {0: [(1, 0, 0)], 1: [(2, 0, 1), (2, 0, 2), (2, 0, 4)], 2: [(3, 0, 1), (3, 0, 2)], 3: [(4, 0, 1), (4, 0, 2)]}[kind]
        nproc = rng.randint(2, 5)
        procs = []
        for _ in range(rng.randint(1, 5)):
            r = rng.random()
            if r < 0.6:
                pr_ = rng.choice(on_obj)
            elif r < 0.85:
                pr_ = (0, rng.randrange(2), 0)
            else:
                pr_ = rng.choice([(1, 0, 0), (2, 0, 2), (3, 0, 1), (4, 0, 1)])
            cmds = ["hold %d" % rng.randint(0, 1), "cwait 0 %d %d %d" % pr_, "hold 1"]
            if rng.random() < 0.2:
                cmds = ["tadd 0 %d -5" % rng.randint(1, 4)] + cmds
            if rng.random() < 0.3:
                cmds += ["cwait 0 %d %d %d" % rng.choice(on_obj)]
            procs.append((rng.randint(0, 5), cmds))
        if chain:
            if rng.random() < 0.5:
                procs = [pc for pc in procs if rng.random() < 0.3]      # often nobody (satisfied) waits on the first condition
            for _ in range(rng.randint(1, 3)):
                pr_ = rng.choice(on_obj) if rng.random() < 0.7 else (0, rng.randrange(2), 0)
                procs.append((rng.randint(0, 5), ["hold %d" % rng.randint(0, 1), "cwait 1 %d %d %d" % pr_, "hold 1"]))
        # the actor: changes state so that the observed guard is signalled, after raising the flag
        actor = ["acq 0", "pacq 0 3", "hold %d" % rng.randint(1, 3), "flag %d 1" % rng.randrange(2), "flag %d 1" % rng.randrange(2)]
        actor += [rng.choice(["rel 0", "bput 0 2", "oput 0 7", "bget 0 1", "oget 0", "prel 0 2"])]
        actor += ["hold 2", "rel 0", "prel 0 1", "bput 0 1", "oput 0 1"]
        if rng.random() < 0.5:
            actor += ["hold 1", "oput 0 2", "bput 0 3", "hold 1", "oget 0", "bget 0 2", "prel 0 3"]
        procs.append((rng.randint(0, 5), actor))
        # direct waiters on the observed object, so that the guard's own front waiter is served by the same signal
        for _ in range(nproc - 1):
            procs.append((rng.randint(0, 5), ["hold %d" % rng.randint(0, 2), rng.choice(["acq 0", "bget 0 1", "oget 0", "bput 0 9", "acq 0", "pacq 0 2"]),
                                              "hold 1", "rel 0"]))
        rng.shuffle(procs)
        for pr, cmds in procs:
            out.append("proc %d 1 %d" % (pr, len(cmds)))
            out += cmds
        return out, {"profile": profile, "procs": len(procs), "lines": len(out)}
    if profile == "poolprio":
        # preempting pool acquisitions that have to wait, while priorities of waiters and holders change under them
        cap = rng.choice([4, 6, 10])
        # half of the scenarios also have plain resources, held together with pool units (the holder's list of holdings then mixes
        # entries with and without a reprioritise method)
        with_res = rng.random() < 0.5
        out = (["res", "res"] if with_res else []) + ["pool %d" % cap]
        np_ = rng.randint(3, 6)
        for p in range(np_):
            cmds = []
            for _ in range(rng.randint(3, 8)):
                r = rng.random()
                if with_res and r < 0.12:
                    cmds.append(rng.choice(["acq 0", "acq 1", "rel 0", "rel 1"]))
                elif r < 0.3:
                    cmds.append("%s 0 %d" % (rng.choice(["pacq", "ppre", "ppre"]), rng.randint(1, cap)))
                elif r < 0.5:
                    cmds.append("hold %d" % dur())
                elif r < 0.75:
                    cmds.append("prio %d %d" % (rng.randrange(np_), rng.randint(0, 9)))
                elif r < 0.9:
                    cmds.append("prel 0 %d" % rng.randint(1, cap))
                else:
                    cmds.append(rng.choice(["intr %d %d %d" % (rng.randrange(np_), rng.choice(SIGS), rng.randint(0, 9)),
                                            "tadd 0 %d -5" % dur(), "stop %d 1" % rng.randrange(np_)]))
            out.append("proc %d 1 %d" % (rng.randint(0, 9), len(cmds)))
            out += cmds
        return out, {"profile": profile, "procs": np_, "lines": len(out), "pmode": pmode}
    distinct = rng.sample([-1, 0, 1, 2, 3, 4, 5, 6], np_) if pmode == "prio" else None
    for p in range(np_):
        cmds = []
        if profile == "record" and p == 0:
            for k, n in ((0, nres), (1, len(pools)), (2, len(bufs)), (3, len(oqs)), (4, len(pqs))):
                for i in range(n):
                    cmds.append("rstart %d %d" % (k, i))
        if profile in ("timers", "lifecycle", "mixed") and rng.random() < 0.5:
            if pmode == "one":
                cmds += ["ucancel 8", "usched 8 %d %d" % (dur() + 1, prio())]
            else:
                cmds.append("usched %d %d %d" % (uvar(), dur() + 1, prio()))
        n = ncmd if profile != "crowd" else rng.randint(2, 4)
        while len(cmds) < n:
            r = rng.random()
            if r < 0.30:
                # timeout idiom: arm a timer, block, cancel the timer
                v = rng.randrange(4)
                cmds.append("tadd %d %d %d" % (v, dur(), -5))
                cmds.append(blocking(p))
                cmds.append("tcancel %d" % v)
            elif r < 0.62:
                cmds.append(blocking(p))
            else:
                x = nonblocking(p)
                cmds += x if isinstance(x, list) else [x]
        auto = 0 if (profile in ("lifecycle",) and p > 0 and rng.random() < 0.25) else 1
        out.append("proc %d %d %d" % (distinct[p] if distinct else prio(), auto, len(cmds)))
        out += cmds
    return out, {"profile": profile, "procs": np_, "lines": len(out)}
