"""Scenario generator for the process-layer correspondence (C04-C09, C11-C14, C10).

Scenarios are built from the idioms the documentation recommends (timeout armed before a blocking call, acquire-hold-release
loops with immediate re-acquire, producers/consumers, interrupts / stops / preemptions aimed at blocked processes) with small
integer durations so that several causes fall on the same simulated instant. Every command is self-guarding in both
drivers, so every generated scenario is a valid program.
"""
import random

SIGS = [-2, -5, -4, -7, 3, 11]          # interrupt / timer / resume signals (never 0 = SUCCESS)
PROFILES = ["resource", "pool", "buffer", "oq", "pq", "cond", "lifecycle", "timers", "mixed", "crowd", "record", "poolprio"]


def gen_scenario(rng, profile=None, size=None, exclude=frozenset()):
    profile = profile or rng.choice(PROFILES)
    np_ = rng.randint(2, 5) if profile != "crowd" else rng.randint(9, 14)
    ncmd = size or rng.randint(3, 12)
    nres = 1 if profile in ("resource", "crowd") else rng.randint(0, 2)
    if profile in ("resource", "crowd", "lifecycle", "mixed", "record", "cond"):
        nres = max(nres, 1)
    pools = [rng.choice([1, 2, 3, 5, 8, 12]) for _ in range(rng.randint(1, 2))] if profile in ("pool", "mixed", "record", "cond", "lifecycle") else []
    bufs = [rng.choice([1, 2, 5, 10, "U"]) for _ in range(rng.randint(1, 2))] if profile in ("buffer", "mixed", "record", "cond") else []
    oqs = [rng.choice([1, 2, 3, "U"]) for _ in range(1)] if profile in ("oq", "mixed", "record", "cond") else []
    pqs = [rng.choice([1, 2, 4, "U"]) for _ in range(1)] if profile in ("pq", "mixed", "record") else []
    nconds = rng.randint(1, 2) if profile in ("cond",) or (profile == "mixed" and rng.random() < 0.3) else 0
    out = []
    out += ["res"] * nres
    out += ["pool %s" % c for c in pools]
    out += ["buf %s" % c for c in bufs]
    out += ["oq %s" % c for c in oqs]
    out += ["pq %s" % c for c in pqs]
    out += ["cond"] * nconds
    subs = []
    if nconds and "cond-observers" not in exclude:
        for c in range(nconds):
            for _ in range(rng.randint(0, 2)):
                k = rng.choice([k for k, n in ((0, nres), (1, len(pools)), (2, len(bufs)), (3, len(oqs))) if n])
                n = {0: nres, 1: len(pools), 2: len(bufs), 3: len(oqs)}[k]
                subs.append("sub %d %d %d %d" % (c, k, rng.randrange(n), rng.randint(0, 1)))
    out += subs

    def dur():
        return rng.choice([0, 0, 1, 1, 1, 2, 2, 3, 4, 5])

    def other(me):
        return rng.randrange(np_)

    def prio():
        return rng.choice([0, 0, 1, 1, 2, 3, -1, 5]) if profile != "crowd" else rng.choice([0, 1, 1, 2])

    def blocking(me):
        """one blocking call appropriate for the profile, as command text"""
        ch = []
        if nres:
            ch += ["acq %d" % rng.randrange(nres)] * 3 + ["pre %d" % rng.randrange(nres)]
        if pools:
            p = rng.randrange(len(pools))
            cap = pools[p]
            ch += ["pacq %d %d" % (p, rng.randint(1, cap))] * 3 + ["ppre %d %d" % (p, rng.randint(1, cap))]
        if bufs:
            b = rng.randrange(len(bufs))
            ch += ["bget %d %d" % (b, rng.choice([0, 1, 2, 3, 7, 15]))] * 2 + ["bput %d %d" % (b, rng.choice([1, 2, 3, 7, 15]))] * 2
        if oqs:
            ch += ["oget 0"] * 2 + ["oput 0 %d" % rng.choice([0, 1, 2, 2, 9])] * 2
        if pqs:
            ch += ["kget 0"] * 2 + ["kput 0 %d %d %d" % (rng.choice([0, 1, 2, 9]), rng.choice([0, 0, 1, 5, -3]), rng.randrange(4, 8))] * 2
        if nconds:
            c = rng.randrange(nconds)
            kinds = [(0, rng.randrange(4), 0)]
            if nres:
                kinds.append((1, rng.randrange(nres), 0))
            if pools:
                p = rng.randrange(len(pools))
                kinds.append((2, p, rng.randint(1, pools[p])))
            if bufs:
                kinds.append((3, rng.randrange(len(bufs)), rng.randint(1, 3)))
            if oqs:
                kinds.append((4, 0, rng.randint(1, 2)))
            k = rng.choice(kinds)
            ch += ["cwait %d %d %d %d" % ((c,) + k)] * 3
        ch += ["hold %d" % dur()] * 2 + ["waitp %d" % other(me)]
        if profile in ("timers", "lifecycle", "mixed"):
            ch += ["yield", "waite %d" % rng.randrange(8, 10)]
        return rng.choice(ch)

    def nonblocking(me):
        ch = ["hold %d" % dur()] * 3
        if nres:
            ch += ["rel %d" % rng.randrange(nres)] * 3
        if pools:
            p = rng.randrange(len(pools))
            ch += ["prel %d %d" % (p, rng.randint(1, pools[p]))] * 3
        if profile in ("lifecycle", "mixed", "timers", "resource", "pool", "crowd", "cond", "buffer", "oq", "pq"):
            ch += ["intr %d %d %d" % (other(me), rng.choice(SIGS), prio())] * 2
            ch += ["resume %d %d" % (other(me), rng.choice(SIGS))]
        if profile in ("lifecycle", "mixed", "resource", "pool", "cond") and "stop" not in exclude:
            ch += ["stop %d %d" % (other(me), rng.randint(1, 9))]
            if "stop-self" not in exclude and rng.random() < 0.3:
                ch += ["stop %d %d" % (me, rng.randint(1, 9))]
        if profile in ("lifecycle", "mixed"):
            ch += ["start %d" % other(me), "exit %d" % rng.randint(1, 9)]
        if profile in ("resource", "crowd", "pool", "mixed", "lifecycle", "cond"):
            ch += ["prio %d %d" % (other(me), prio())] * 2
        if profile in ("timers", "mixed", "lifecycle"):
            v = rng.randrange(4)
            ch += ["tadd %d %d %d" % (v, dur(), rng.choice(SIGS)), "tset %d %d %d" % (v, dur(), rng.choice(SIGS)),
                   "tcancel %d" % v, "tclear", "usched %d %d %d" % (rng.randrange(8, 10), dur(), prio()),
                   "ucancel %d" % rng.randrange(8, 10)]
        if pqs:
            v = rng.randrange(4, 8)
            ch += ["kcancel 0 %d" % v, "kreprio 0 %d %d" % (v, rng.choice([0, 2, 7, -3])), "kpos 0 %d" % v]
        if nconds:
            c = rng.randrange(nconds)
            ch += ["csig %d" % c] * 3 + ["flag %d %d" % (rng.randrange(4), rng.choice([0, 1]))] * 3
            ch += ["ccancel %d %d" % (c, other(me)), "cremove %d %d" % (c, other(me))]
        if profile in ("record", "mixed"):
            kinds = [(0, nres), (1, len(pools)), (2, len(bufs)), (3, len(oqs)), (4, len(pqs))]
            k, n = rng.choice([x for x in kinds if x[1]])
            ch += ["rstart %d %d" % (k, rng.randrange(n))] * 2 + ["rstop %d %d" % (k, rng.randrange(n))]
        return rng.choice(ch)

    if profile == "poolprio":
        # preempting pool acquisitions that have to wait, while priorities of waiters and holders change under them
        cap = rng.choice([4, 6, 10])
        out = ["pool %d" % cap]
        np_ = rng.randint(3, 6)
        for p in range(np_):
            cmds = []
            for _ in range(rng.randint(3, 8)):
                r = rng.random()
                if r < 0.3:
                    cmds.append("%s 0 %d" % (rng.choice(["pacq", "ppre", "ppre"]), rng.randint(1, cap)))
                elif r < 0.5:
                    cmds.append("hold %d" % dur())
                elif r < 0.75:
                    cmds.append("prio %d %d" % (rng.randrange(np_), rng.randint(0, 9)))
                elif r < 0.9:
                    cmds.append("prel 0 %d" % rng.randint(1, cap))
                else:
                    cmds.append(rng.choice(["intr %d %d %d" % (rng.randrange(np_), rng.choice(SIGS), rng.randint(0, 9)),
                                            "tadd 0 %d -5" % dur(), "stop %d 1" % rng.randrange(np_)]))
            out.append("proc %d 1 %d" % (rng.randint(0, 9), len(cmds)))
            out += cmds
        return out, {"profile": profile, "procs": np_, "lines": len(out)}
    for p in range(np_):
        cmds = []
        if profile == "record" and p == 0:
            for k, n in ((0, nres), (1, len(pools)), (2, len(bufs)), (3, len(oqs)), (4, len(pqs))):
                for i in range(n):
                    cmds.append("rstart %d %d" % (k, i))
        if profile in ("timers", "lifecycle", "mixed") and rng.random() < 0.5:
            cmds.append("usched %d %d %d" % (rng.randrange(8, 10), dur() + 1, prio()))
        n = ncmd if profile != "crowd" else rng.randint(2, 4)
        while len(cmds) < n:
            r = rng.random()
            if r < 0.30:
                # timeout idiom: arm a timer, block, cancel the timer
                v = rng.randrange(4)
                cmds.append("tadd %d %d %d" % (v, dur(), -5))
                cmds.append(blocking(p))
                cmds.append("tcancel %d" % v)
            elif r < 0.62:
                cmds.append(blocking(p))
            else:
                cmds.append(nonblocking(p))
        auto = 0 if (profile in ("lifecycle",) and p > 0 and rng.random() < 0.25) else 1
        out.append("proc %d %d %d" % (prio(), auto, len(cmds)))
        out += cmds
    return out, {"profile": profile, "procs": np_, "lines": len(out)}
