"""Resolve merge conflicts in lean/lakefile.toml by keeping every [[lean_exe]] entry of both sides (entries are append-only)."""
import re
p = 'lean/lakefile.toml'
s = open(p).read()
s = re.sub(r'<<<<<<< [^\n]*\n', '', s)
s = re.sub(r'=======\n', '\n', s)
s = re.sub(r'>>>>>>> [^\n]*\n', '', s)
# normalise: collect exe entries
head = s.split('[[lean_exe]]')[0].rstrip() + '\n'
entries = re.findall(r'name = "([^"]+)"\s*\nroot = "([^"]+)"', s[len(head) - 1:])
seen, out = set(), [head]
for n, r in entries:
    if n in seen or n in ("cimba_model",):
        continue
    seen.add(n)
    out.append('\n[[lean_exe]]\nname = "%s"\nroot = "%s"\n' % (n, r))
open(p, 'w').write("".join(out))
print(sorted(seen))
