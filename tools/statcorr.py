"""C17 correspondence machinery (used by tools/props/C17.py).

Part (i)  translation validation of lean/CimbaModel/Generated/Stats.lean: the generated definitions are evaluated at K = ℚ
          (lean/CimbaModel/Stats/Eval.lean, `lake env lean --run`) on operation scripts that harness/statdrv.c runs on the
          real library.  Inputs are built so that every IEEE operation inside the library call is exact (the harness reports
          FE_INEXACT per call): then the double result and the rational result must be EQUAL.  Accessor calls that are
          inexact (sqrt, most divisions) are compared under 1e-11 relative: same inputs, one call, no accumulated error.
          `_dom` must be false exactly where the real call aborts or raises FE_INVALID / FE_DIVBYZERO.

Part (ii) "up to rounding" (TEST evidence, not proof): scenarios (sequences, every split + merge in both directions and into
          every target, chained merges, weighted sequences, zero weights, unit weights, rescaled weights) are run on the real
          library and compared with the exact sample statistics computed here with `fractions`, under a conditioning-scaled
          tolerance.  The formulas in `exact_stats` are the textbook definitions of Stats/Summary.lean / Weighted.lean.

Scenario = JSON object (one per line in corpus/stats/*.txt and in replay files):
  {"kind":"seq","xs":[..]}                                   summarise xs
  {"kind":"merge","parts":[[..],[..],..],"target":"new|a|b","order":"ab|ba","then":[..]}
                                                              summarise each part, fold-merge left to right, add `then`
  {"kind":"wseq","xws":[[x,w],..]}                            weighted
  {"kind":"wmerge","parts":[[[x,w],..],..],"target":..,"order":..,"then":[[x,w],..]}
  {"kind":"wscale","xws":[[x,w],..],"c":10.0}                 the same data with weights w and c*w: identical statistics
  {"kind":"wunit","xs":[..]}                                  weights 1: identical to the unweighted summary
  {"kind":"wzero","xws":[[x,w],..]}                           zero-weight samples interspersed: bitwise identical without them
  {"kind":"bigmerge","a":[..],"b":[..],"ka":33,"kb":32,"order":..,"target":..,"weighted":bool}
                                                              summarise a and b, double them ka / kb times by merge(s,s,s), merge
  {"kind":"selfmerge","xs":[..],"weighted":bool}              merge(s, s, s): target and both sources are one object
  {"kind":"dataset","xs":[..]}                                through cmb_dataset_add / cmb_dataset_summarize (a user)
  {"kind":"timeseries","xts":[[x,t],..],"tend":T}             through cmb_timeseries_add / _finalize / _summarize (a user; non-empty)
"""
import hashlib
import json
import math
import os
import random
from fractions import Fraction

import vlib

EPS = 2.0 ** -52
STAT_NAMES = ["min", "max", "mean", "variance", "stddev", "skewness", "kurtosis"]


# --------------------------------------------------------------------------
# rendering operations for the two drivers
# --------------------------------------------------------------------------

def qstr(x):
    f = Fraction(x)
    return str(f.numerator) if f.denominator == 1 else "%d/%d" % (f.numerator, f.denominator)


def render(ops, lean):
    out = []
    for op in ops:
        parts = [op[0]]
        for a in op[1:]:
            if isinstance(a, float):
                parts.append(qstr(a) if lean else a.hex())
            else:
                parts.append(str(a))
        out.append(" ".join(parts))
    return "\n".join(out) + "\n"


def parse_c_double(tok):
    t = tok.lower()
    if "nan" in t:
        return float("nan")
    if "inf" in t:
        return float("-inf") if t.startswith("-") else float("inf")
    return float.fromhex(tok)


def run_c(c_exe, ops):
    rc, o, e = vlib.run_driver(c_exe, render(ops, False), timeout=600)
    return rc, o.splitlines(), e


def run_lean(script_text):
    p = os.path.join(vlib.BUILD, "stateval_%d_%d.txt" % (os.getpid(), random.getrandbits(40)))
    with open(p, "w") as f:
        f.write(script_text)
    try:
        with vlib.locked("lake"):
            rc, out = vlib.sh(["lake", "env", "lean", "--run", os.path.join("CimbaModel", "Stats", "Eval.lean"), p],
                              cwd=vlib.LEAN, timeout=1800)
    finally:
        os.unlink(p)
    return rc, out.splitlines()


# --------------------------------------------------------------------------
# Part (i): translation validation
# --------------------------------------------------------------------------

def _ri(rng, lo, hi):
    return float(rng.randint(lo, hi))


def tv_cases(seed, n_cases):
    """List of (family, ops).  All numbers are small integers / dyadics chosen so that the library's arithmetic is exact
    in most cases (the harness tells us for each call)."""
    rng = random.Random(seed * 7919 + 17)
    cases = []
    fams = ["dseq", "dmerge", "dset_add", "dset_merge", "dacc", "wseq", "wset_add", "wset_merge", "wacc", "wmerge", "uninit", "dbig"]
    for ci in range(n_cases):
        fam = fams[ci % len(fams)]
        ops = []
        if fam == "dseq":
            # reachable states: y_k = m1 + k * delta  makes d / n exact
            ops.append(("dinit", 0))
            m1, n = 0.0, 0
            for _ in range(rng.randint(0, 7)):
                n += 1
                delta = _ri(rng, -6, 6) * rng.choice([1.0, 0.5, 0.25, 2.0])
                y = m1 + n * delta
                ops.append(("dadd", 0, y))
                m1 = m1 + delta
            ops += [("dget", 0), ("dstat", 0)]
        elif fam == "dmerge":
            means = []
            for slot in (0, 1):
                ops.append(("dinit", slot))
                m1, n = 0.0, 0
                shift = _ri(rng, -8, 8)
                for _ in range(rng.randint(0, 4)):
                    n += 1
                    delta = _ri(rng, -4, 4)
                    if n == 1:
                        delta += shift
                    ops.append(("dadd", slot, m1 + n * delta))
                    m1 += delta
                means.append((m1, n))
            t = rng.choice([0, 1, 2])
            a, b = rng.choice([(0, 1), (1, 0)])
            ops += [("dmerge", t, a, b), ("dget", t), ("dstat", t)]
            if rng.random() < 0.5:
                ops += [("dadd", t, _ri(rng, -5, 5)), ("dget", t)]
        elif fam == "dset_add":
            n = rng.randint(0, 9)
            m1 = _ri(rng, -9, 9)
            delta = _ri(rng, -7, 7) * rng.choice([1.0, 0.5])
            ops.append(("dset", 0, n, _ri(rng, -20, 0), _ri(rng, 0, 20), m1, _ri(rng, 0, 40), _ri(rng, -40, 40), _ri(rng, 0, 90)))
            ops += [("dadd", 0, m1 + (n + 1) * delta), ("dget", 0)]
        elif fam == "dset_merge":
            n1, n2 = rng.randint(0, 6), rng.randint(0, 6)
            m1 = _ri(rng, -9, 9)
            k = _ri(rng, -5, 5)
            m2 = m1 + (n1 + n2) * k
            ops.append(("dset", 0, n1, _ri(rng, -20, 0), _ri(rng, 0, 20), m1, _ri(rng, 0, 40), _ri(rng, -40, 40), _ri(rng, 0, 90)))
            ops.append(("dset", 1, n2, _ri(rng, -20, 0), _ri(rng, 0, 20), m2, _ri(rng, 0, 40), _ri(rng, -40, 40), _ri(rng, 0, 90)))
            t = rng.choice([0, 1, 2])
            ops += [("dmerge", t, 0, 1), ("dget", t)]
        elif fam == "dacc":
            n = rng.choice([0, 1, 2, 3, 4, 4, 5, 6, 9, 17])
            m2 = rng.choice([0.0, 1.0, 2.0, 4.0, 8.0, 0.5, float(max(n - 1, 1)) * _ri(rng, 1, 9)])
            ops.append(("dset", 0, n, -3.0, 7.0, _ri(rng, -5, 5), m2, _ri(rng, -30, 30), _ri(rng, 0, 64)))
            ops.append(("dstat", 0))
        elif fam == "wseq":
            ops.append(("winit", 0))
            m1, W = 0.0, 0.0
            # the unit of the weights: scaling by a power of two keeps every operation exact (d/(s*W) = (d/W)/s)
            unit = rng.choice([1.0, 1.0, 2.0 ** -60, 2.0 ** -200, 2.0 ** 60, 2.0 ** -53])
            for _ in range(rng.randint(0, 6)):
                w = rng.choice([0.0, 1.0, 2.0, 0.5, 4.0, 3.0])
                if w == 0.0:
                    ops.append(("wadd", 0, _ri(rng, -9, 9), 0.0))
                    continue
                delta = _ri(rng, -4, 4)
                x = m1 + (W + w) * delta if W > 0 else _ri(rng, -9, 9)
                ops.append(("wadd", 0, x, w * unit))
                m1 = m1 + w * delta if W > 0 else x
                W += w
            ops += [("wget", 0), ("wstat", 0)]
        elif fam == "wset_add":
            n = rng.randint(0, 6)
            W = rng.choice([1.0, 2.0, 3.0, 4.0, 6.0, 0.5]) if n > 0 else 0.0
            w = rng.choice([0.0, 1.0, 2.0, 0.5, 5.0])
            m1 = _ri(rng, -9, 9)
            delta = _ri(rng, -5, 5)
            ops.append(("wset", 0, n, _ri(rng, -20, 0), _ri(rng, 0, 20), m1, _ri(rng, 0, 40), _ri(rng, -40, 40), _ri(rng, 0, 90), W))
            ops += [("wadd", 0, m1 + (W + w) * delta, w), ("wget", 0)]
        elif fam == "wset_merge":
            n1, n2 = rng.randint(0, 5), rng.randint(0, 5)
            W1 = rng.choice([1.0, 2.0, 3.0, 0.5]) if n1 else 0.0
            W2 = rng.choice([1.0, 2.0, 5.0, 0.25]) if n2 else 0.0
            m1 = _ri(rng, -9, 9)
            m2 = m1 + (W1 + W2) * _ri(rng, -5, 5)
            ops.append(("wset", 0, n1, _ri(rng, -20, 0), _ri(rng, 0, 20), m1, _ri(rng, 0, 40), _ri(rng, -40, 40), _ri(rng, 0, 90), W1))
            ops.append(("wset", 1, n2, _ri(rng, -20, 0), _ri(rng, 0, 20), m2, _ri(rng, 0, 40), _ri(rng, -40, 40), _ri(rng, 0, 90), W2))
            t = rng.choice([0, 1, 2])
            ops += [("wmerge", t, 0, 1), ("wget", t)]
        elif fam == "wacc":
            n = rng.choice([0, 1, 2, 3, 4, 4, 5, 8])
            W = rng.choice([1.0, 2.0, 4.0, 8.0, float(n), 0.5]) if n else 0.0
            ops.append(("wset", 0, n, -3.0, 7.0, _ri(rng, -5, 5), rng.choice([0.0, 1.0, 2.0, 4.0, 6.0, 12.0]), _ri(rng, -30, 30),
                        _ri(rng, 0, 64), W))
            ops.append(("wstat", 0))
        elif fam == "wmerge":
            for slot in (0, 1):
                ops.append(("winit", slot))
                for _ in range(rng.randint(0, 3)):
                    ops.append(("wadd", slot, _ri(rng, -8, 8), rng.choice([0.0, 1.0, 2.0, 4.0])))
            t = rng.choice([0, 1, 2])
            a, b = rng.choice([(0, 1), (1, 0)])
            ops += [("wmerge", t, a, b), ("wget", t), ("wstat", t)]
        elif fam == "dbig":
            # counts of the order 2^32 .. 2^62 by repeated self-merge; values chosen so that the final merge is exact:
            # equal sizes (n a power of two times la+lb) and means differing by a multiple of la+lb
            la, lb = rng.choice([(1, 1), (2, 2), (1, 3), (3, 1), (2, 6), (4, 4)])
            k = rng.choice([5, 30, 31, 32, 33, 40, 58])
            base = _ri(rng, -4, 4)
            for slot, ln, shift in ((0, la, 0.0), (1, lb, (la + lb) * _ri(rng, -3, 3))):
                ops.append(("dinit", slot))
                m1, n = 0.0, 0
                for _ in range(ln):
                    n += 1
                    delta = _ri(rng, -3, 3) + ((base + shift) if n == 1 else 0.0)
                    ops.append(("dadd", slot, m1 + n * delta))
                    m1 += delta
                for _ in range(k):
                    ops.append(("dmerge", slot, slot, slot))
            t = rng.choice([0, 1, 2])
            a, b = rng.choice([(0, 1), (1, 0)])
            ops += [("dmerge", t, a, b), ("dget", t), ("dstat", t)]
        else:  # uninit: calls on a summary that was never initialised must be rejected by both
            ops += [rng.choice([("dadd", 3, 1.0), ("wadd", 3, 1.0, 1.0), ("dinit", 0)]), ("dinit", 1), ("dadd", 1, 2.0), ("dget", 1)]
        cases.append((fam, ops))
    return cases


def _close(c, l, tol=1e-11):
    """single accessor call on identical inputs of magnitude O(1..100): a few ulps, possibly after cancellation"""
    if math.isnan(c) or math.isinf(c):
        return False
    return abs(Fraction(c) - l) <= Fraction(tol) * max(abs(l), 1)


def tv_compare(cases, c_exe):
    """Run all cases on both sides.  Returns dict(stats) and list of mismatches (family, ops, message)."""
    script_c, script_l = [], []
    for i, (fam, ops) in enumerate(cases):
        full = [("case", i)] + ops
        script_c += full
        script_l.append(render(full, True))
    rc, c_lines, c_err = run_c(c_exe, script_c)
    rcl, l_lines = run_lean("".join(script_l))
    res = {"cases": len(cases), "ops": 0, "exact_state_compares": 0, "exact_cases": 0, "near_stat_compares": 0,
           "exact_stat_compares": 0, "dom_false_ops": 0, "aborts": 0, "inexact_cases": 0, "families": {}}
    bad = []
    if rcl != 0 or len(l_lines) != len(c_lines) or rc != 0:
        bad.append(("driver", [], "drivers disagree on the number of result lines (C rc=%d %d lines, Lean rc=%d %d lines): %s | %s"
                    % (rc, len(c_lines), rcl, len(l_lines), c_err[-300:], "\n".join(l_lines[-3:]))))
        return res, bad
    pos = 0
    for i, (fam, ops) in enumerate(cases):
        pos += 1  # case line
        exact, alive, case_ok = True, True, True
        for op in ops:
            cl, ll = c_lines[pos], l_lines[pos]
            pos += 1
            if not alive:
                continue
            res["ops"] += 1
            ct, lt = cl.split(), ll.split()
            msg = None
            if lt[0] == "ok":
                dom = lt[2] == "dom=1"
                if ct[0] == "abort":
                    res["aborts"] += 1
                    if dom:
                        msg = "library aborts but the generated _dom holds"
                    alive = False
                else:
                    fe = int(ct[2].split("=")[1])
                    if not dom:
                        res["dom_false_ops"] += 1
                        if not (fe & 6):
                            msg = "generated _dom is false but the library call neither aborts nor raises FE_INVALID/FE_DIVBYZERO"
                        alive = False
                    else:
                        if fe & 6:
                            msg = "generated _dom holds but the library call raises FE_INVALID/FE_DIVBYZERO (fe=%d)" % fe
                        if ct[1] != lt[1]:
                            msg = "return value %s vs model %s" % (ct[1], lt[1])
                        if fe & 1:
                            exact = False
            elif lt[0] in ("D", "W"):
                if ct[0] != lt[0]:
                    msg = "line kinds differ"
                elif exact:
                    if ct[1] != lt[1]:
                        msg = "count %s vs model %s" % (ct[1], lt[1])
                    for k in range(2, len(lt)):
                        cv = parse_c_double(ct[k])
                        if math.isnan(cv) or math.isinf(cv) or Fraction(cv) != Fraction(lt[k]):
                            msg = "field #%d: library %s vs model %s (all arithmetic was exact)" % (k, ct[k], lt[k])
                            break
                    res["exact_state_compares"] += 1
            elif lt[0] == "S":
                if ct[1] != lt[1]:
                    msg = "count %s vs model %s" % (ct[1], lt[1])
                for k in range(2, len(lt)):
                    cvs, cfe = ct[k].rsplit(":", 1)
                    lvs, ldom = lt[k].rsplit(":", 1)
                    cv, fe = parse_c_double(cvs), int(cfe)
                    if ldom == "0":
                        if not (fe & 6) and not math.isnan(cv):
                            msg = "%s: _dom false but the library returns %s without FE_INVALID/FE_DIVBYZERO" % (STAT_NAMES[k - 2], cvs)
                        continue
                    if fe & 6:
                        msg = "%s: _dom holds but the library raises fe=%d (%s)" % (STAT_NAMES[k - 2], fe, cvs)
                        continue
                    if not exact:
                        continue
                    lv = Fraction(lvs)
                    if not (fe & 1) and STAT_NAMES[k - 2] not in ("stddev", "skewness"):
                        res["exact_stat_compares"] += 1
                        if math.isnan(cv) or Fraction(cv) != lv:
                            msg = "%s: library %s vs model %s (exact call)" % (STAT_NAMES[k - 2], cvs, lvs)
                    else:
                        res["near_stat_compares"] += 1
                        if not _close(cv, lv):
                            msg = "%s: library %s (%r) vs model %.17g" % (STAT_NAMES[k - 2], cvs, cv, float(lv))
            if msg:
                bad.append((fam, ops, "op '%s': %s   [C: %s | Lean: %s]" % (" ".join(map(str, op)), msg, cl, ll[:200])))
                case_ok = False
                alive = False
        if exact:
            res["exact_cases"] += 1
        else:
            res["inexact_cases"] += 1
        f = res["families"].setdefault(fam, {"cases": 0, "exact": 0})
        f["cases"] += 1
        f["exact"] += 1 if exact else 0
    return res, bad


# --------------------------------------------------------------------------
# Part (ii): exact statistics and scenarios
# --------------------------------------------------------------------------

def exact_stats(xws, count=None):
    """Textbook statistics of weighted samples [(x, w)] with w >= 0 (unweighted: w = 1), exactly.
    `count`: the number of samples when it is not the number of pairs (data given with multiplicities: x repeated w times).
    Returns dict with Fractions for count/min/max/mean/variance, floats for skewness/kurtosis/stddev (None = undefined, i.e. 0/0),
    plus conditioning data."""
    eff = [(Fraction(x), Fraction(w)) for x, w in xws if w != 0]
    n = len(eff) if count is None else (count if eff else 0)
    r = {"count": n}
    if n == 0:
        r.update(min=None, max=None, mean=None, variance=Fraction(0), stddev=0.0, skewness=0.0, kurtosis=0.0, scale=0.0, kappa=1.0)
        return r
    W = sum(w for _, w in eff)
    mu = sum(w * x for x, w in eff) / W
    M = {k: sum(w * (x - mu) ** k for x, w in eff) for k in (2, 3, 4)}
    r["min"] = min(x for x, _ in eff)
    r["max"] = max(x for x, _ in eff)
    r["mean"] = mu
    nn = Fraction(n)
    r["variance"] = (nn / (nn - 1)) * (M[2] / W) if n >= 2 else Fraction(0)
    r["stddev"] = math.sqrt(r["variance"]) if n >= 2 else 0.0
    c2, c3, c4 = M[2] / W, M[3] / W, M[4] / W
    if n >= 3:
        r["skewness"] = None if c2 == 0 else math.sqrt(n * (n - 1.0)) / (n - 2.0) * (float(c3) / float(c2) ** 1.5 if float(c2) > 0 else _big_ratio(c3, c2))
    else:
        r["skewness"] = 0.0
    if n >= 4:
        r["kurtosis"] = None if c2 == 0 else float((nn - 1) / ((nn - 2) * (nn - 3)) * ((nn + 1) * (c4 / c2 ** 2 - 3) + 6))
    else:
        r["kurtosis"] = 0.0
    scale = float(max(abs(x) for x, _ in eff))
    sd = math.sqrt(c2) if c2 > 0 else 0.0
    if sd == 0.0 and c2 > 0:
        sd = float(Fraction(c2).numerator) ** 0.5 / float(Fraction(c2).denominator) ** 0.5
    r["scale"] = scale
    r["kappa"] = (scale / sd) if sd > 0 else float("inf")
    wmax = max(w for _, w in eff)
    wmin = min(w for _, w in eff)
    r["wratio"] = float(wmax / wmin)
    return r


def _big_ratio(c3, c2):
    # c2 underflows as a float: compute the ratio through logarithms of the exact rationals
    s = 1.0 if c3 >= 0 else -1.0
    if c3 == 0:
        return 0.0
    l3 = math.log(abs(c3.numerator)) - math.log(c3.denominator)
    l2 = math.log(c2.numerator) - math.log(c2.denominator)
    return s * math.exp(l3 - 1.5 * l2)


def tolerances(ex, nops):
    """Conditioning-scaled tolerances for a summary built by `nops` add/merge steps."""
    n = max(ex["count"], 1)
    kappa = max(ex["kappa"], 1.0)
    base = (nops + 4) * EPS
    return {
        "mean_abs": 8 * base * ex["scale"] * max(1.0, math.log2(max(ex.get("wratio", 1.0), 1.0)) + 1.0),
        "var_rel": 32 * base * kappa,
        "skew_abs": 256 * base * kappa,
        "kurt_abs": 2048 * base * kappa * (6.0 if n < 8 else 1.0),
    }


def judge_stats(got, ex, nops, label=""):
    """got: dict from a C 'S' line.  Returns (problems, skipped_ill_conditioned)."""
    probs, skipped = [], 0
    if got["count"] != ex["count"]:
        probs.append("%scount %d, exact %d" % (label, got["count"], ex["count"]))
        return probs, skipped
    if ex["count"] == 0:
        return probs, skipped
    for k in ("min", "max"):
        if math.isnan(got[k]) or Fraction(got[k]) != ex[k]:
            probs.append("%s%s %r, exact %r" % (label, k, got[k], float(ex[k])))
    tol = tolerances(ex, nops)
    m = got["mean"]
    if math.isnan(m) or math.isinf(m) or abs(Fraction(m) - ex["mean"]) > Fraction(tol["mean_abs"]) + Fraction(abs(float(ex["mean"]))) * Fraction(4 * EPS):
        probs.append("%smean %r, exact %.17g (tolerance %.3g)" % (label, m, float(ex["mean"]), tol["mean_abs"]))
    if ex["kappa"] == float("inf"):
        # constant data: the second central sum is exactly 0; the variance must be exactly 0, skewness/kurtosis are 0/0
        if got["variance"] != 0.0:
            probs.append("%svariance %r of constant data, exact 0" % (label, got["variance"]))
        if ex["count"] >= 3 and not math.isnan(got["skewness"]):
            probs.append("%sskewness %r of constant data (undefined, 0/0)" % (label, got["skewness"]))
        if ex["count"] >= 4 and not math.isnan(got["kurtosis"]):
            probs.append("%skurtosis %r of constant data (undefined, 0/0)" % (label, got["kurtosis"]))
        return probs, skipped
    if tol["var_rel"] > 0.05:
        return probs, 1
    v = got["variance"]
    ev = float(ex["variance"])
    if math.isnan(v) or abs(v - ev) > tol["var_rel"] * abs(ev) + 1e-300:
        probs.append("%svariance %r, exact %.17g (relative tolerance %.3g)" % (label, v, ev, tol["var_rel"]))
    sdv = got["stddev"]
    if math.isnan(sdv) or abs(sdv - ex["stddev"]) > tol["var_rel"] * abs(ex["stddev"]) + 1e-300:
        probs.append("%sstddev %r, exact %.17g" % (label, sdv, ex["stddev"]))
    if tol["skew_abs"] <= 0.05:
        s, es = got["skewness"], ex["skewness"]
        if math.isnan(s) or abs(s - es) > tol["skew_abs"] * (1.0 + abs(es)):
            probs.append("%sskewness %r, exact %.17g (tolerance %.3g)" % (label, s, es, tol["skew_abs"] * (1.0 + abs(es))))
    else:
        skipped = 1
    if tol["kurt_abs"] <= 0.05:
        k, ek = got["kurtosis"], ex["kurtosis"]
        if math.isnan(k) or abs(k - ek) > tol["kurt_abs"] * (1.0 + abs(ek)):
            probs.append("%skurtosis %r, exact %.17g (tolerance %.3g)" % (label, k, ek, tol["kurt_abs"] * (1.0 + abs(ek))))
    else:
        skipped = 1
    return probs, skipped


def parse_S(line):
    t = line.split()
    if not t or t[0] != "S":
        return None
    r = {"count": int(t[1])}
    for name, tok in zip(STAT_NAMES, t[2:]):
        r[name] = parse_c_double(tok.rsplit(":", 1)[0])
    return r


def scenario_ops(scn):
    """-> (ops, checks) where checks = list of (index of the S line among outputs, expected xws list, nops, label)
    plus special equalities: ('same', i, j, bitwise?)"""
    kind = scn["kind"]
    ops, checks = [], []

    def emit(op):
        ops.append(op)
        return len(ops) - 1

    if kind == "seq":
        xs = [float(x) for x in scn["xs"]]
        emit(("dinit", 0))
        for x in xs:
            emit(("dadd", 0, x))
        checks.append(("stats", emit(("dstat", 0)), [(x, 1.0) for x in xs], len(xs), ""))
    elif kind == "merge":
        parts = [[float(x) for x in p] for p in scn["parts"]]
        for i, p in enumerate(parts):
            emit(("dinit", i))
            for x in p:
                emit(("dadd", i, x))
        acc, accdata = 0, list(parts[0])
        for i in range(1, len(parts)):
            a, b = (acc, i) if scn.get("order", "ab") == "ab" else (i, acc)
            tgt = {"new": 7 - (i % 2), "a": a, "b": b}[scn.get("target", "new")]
            emit(("dmerge", tgt, a, b))
            acc = tgt
            accdata = accdata + parts[i]
            checks.append(("stats", emit(("dstat", acc)), [(x, 1.0) for x in accdata], len(accdata) + i, "after merge %d: " % i))
        for x in scn.get("then", []):
            emit(("dadd", acc, float(x)))
            accdata = accdata + [float(x)]
        if scn.get("then"):
            checks.append(("stats", emit(("dstat", acc)), [(x, 1.0) for x in accdata], len(accdata) + len(parts), "after merge and adds: "))
    elif kind == "wseq":
        xws = [(float(x), float(w)) for x, w in scn["xws"]]
        emit(("winit", 0))
        for x, w in xws:
            emit(("wadd", 0, x, w))
        checks.append(("stats", emit(("wstat", 0)), xws, len(xws), ""))
    elif kind == "wmerge":
        parts = [[(float(x), float(w)) for x, w in p] for p in scn["parts"]]
        for i, p in enumerate(parts):
            emit(("winit", i))
            for x, w in p:
                emit(("wadd", i, x, w))
        acc, accdata = 0, list(parts[0])
        for i in range(1, len(parts)):
            a, b = (acc, i) if scn.get("order", "ab") == "ab" else (i, acc)
            tgt = {"new": 7 - (i % 2), "a": a, "b": b}[scn.get("target", "new")]
            emit(("wmerge", tgt, a, b))
            acc = tgt
            accdata = accdata + parts[i]
            checks.append(("stats", emit(("wstat", acc)), list(accdata), len(accdata) + i, "after merge %d: " % i))
        for x, w in scn.get("then", []):
            emit(("wadd", acc, float(x), float(w)))
            accdata = accdata + [(float(x), float(w))]
        if scn.get("then"):
            checks.append(("stats", emit(("wstat", acc)), list(accdata), len(accdata) + len(parts), "after merge and adds: "))
    elif kind == "wscale":
        xws = [(float(x), float(w)) for x, w in scn["xws"]]
        c = float(scn["c"])
        emit(("winit", 0))
        for x, w in xws:
            emit(("wadd", 0, x, w))
        i0 = emit(("wstat", 0))
        emit(("winit", 1))
        for x, w in xws:
            emit(("wadd", 1, x, c * w))
        i1 = emit(("wstat", 1))
        checks.append(("stats", i0, xws, len(xws), "weights w: "))
        checks.append(("stats", i1, xws, len(xws), "weights %g*w: " % c))
        checks.append(("close", i0, i1, xws, len(xws)))
    elif kind == "wunit":
        xs = [float(x) for x in scn["xs"]]
        emit(("dinit", 0))
        emit(("winit", 0))
        for x in xs:
            emit(("dadd", 0, x))
            emit(("wadd", 0, x, 1.0))
        i0 = emit(("dstat", 0))
        i1 = emit(("wstat", 0))
        checks.append(("stats", i1, [(x, 1.0) for x in xs], len(xs), "weighted, unit weights: "))
        checks.append(("close", i0, i1, [(x, 1.0) for x in xs], len(xs)))
    elif kind == "wzero":
        xws = [(float(x), float(w)) for x, w in scn["xws"]]
        emit(("winit", 0))
        emit(("winit", 1))
        for x, w in xws:
            emit(("wadd", 0, x, w))
            if w != 0.0:
                emit(("wadd", 1, x, w))
        i0 = emit(("wget", 0))
        i1 = emit(("wget", 1))
        checks.append(("bitwise", i0, i1))
        checks.append(("stats", emit(("wstat", 0)), xws, len(xws), ""))
    elif kind == "bigmerge":
        # billions of samples without adding them: merge(s, s, s) is the summary of the data taken twice, so ka self-merges
        # give the summary of `a` repeated 2^ka times.  Then A and B are merged: counts (and their product) cross 2^32 / 2^64.
        wt = bool(scn.get("weighted"))
        pre = "w" if wt else "d"
        parts = []
        for slot, (key, kk) in enumerate((("a", "ka"), ("b", "kb"))):
            data = [(float(e[0]), float(e[1])) for e in scn[key]] if wt else [(float(x), 1.0) for x in scn[key]]
            emit((pre + "init", slot))
            for x, w in data:
                emit(("wadd", slot, x, w) if wt else ("dadd", slot, x))
            for _ in range(int(scn[kk])):
                emit((pre + "merge", slot, slot, slot))
            parts.append((data, int(scn[kk])))
        a, b = (0, 1) if scn.get("order", "ab") == "ab" else (1, 0)
        tgt = {"new": 7, "a": a, "b": b}[scn.get("target", "new")]
        emit((pre + "merge", tgt, a, b))
        xws = [(x, w * 2 ** k) for data, k in parts for x, w in data]
        cnt = sum(len([1 for _, w in data if w != 0]) * 2 ** k for data, k in parts)
        nops = sum(len(data) + k for data, k in parts) + 1
        checks.append(("stats", emit((pre + "stat", tgt)), xws, nops,
                       "merge of the data repeated 2^%d and 2^%d times (%d samples): " % (parts[0][1], parts[1][1], cnt), cnt))
    elif kind == "selfmerge":
        # one object as target and as both sources: the summary of the data taken twice
        xs = [float(x) for x in scn["xs"]]
        if scn.get("weighted"):
            emit(("winit", 0))
            for x in xs:
                emit(("wadd", 0, x, 2.0))
            emit(("wmerge", 0, 0, 0))
            checks.append(("stats", emit(("wstat", 0)), [(x, 2.0) for x in xs + xs], 2 * len(xs) + 1, "merged with itself: "))
        else:
            emit(("dinit", 0))
            for x in xs:
                emit(("dadd", 0, x))
            emit(("dmerge", 0, 0, 0))
            checks.append(("stats", emit(("dstat", 0)), [(x, 1.0) for x in xs + xs], 2 * len(xs) + 1, "merged with itself: "))
    elif kind == "dataset":
        xs = [float(x) for x in scn["xs"]]
        emit(("xnew",))
        for x in xs:
            emit(("xadd", x))
        emit(("xsum", 0))
        checks.append(("stats", emit(("dstat", 0)), [(x, 1.0) for x in xs], len(xs), "cmb_dataset_summarize: "))
    elif kind == "timeseries":
        xts = [(float(x), float(t)) for x, t in scn["xts"]]
        tend = float(scn["tend"])
        emit(("tnew",))
        for x, t in xts:
            emit(("tadd", x, t))
        emit(("tfin", tend))
        emit(("tsum", 0))
        # each value is held until the next time stamp (the same IEEE subtraction as the library performs)
        xws = [(xts[i][0], (xts[i + 1][1] if i + 1 < len(xts) else tend) - xts[i][1]) for i in range(len(xts))]
        checks.append(("stats", emit(("wstat", 0)), xws, len(xws), "cmb_timeseries_summarize: "))
    else:
        raise ValueError("unknown scenario kind %s" % kind)
    return ops, checks


def judge_scenario(scn, out_lines):
    """out_lines: the C driver's result lines for scenario_ops(scn)[0].  Returns (problems, skipped)."""
    ops, checks = scenario_ops(scn)
    probs, skipped = [], 0
    if len(out_lines) != len(ops):
        return ["the driver stopped after %d of %d operations" % (len(out_lines), len(ops))], 0
    for i, l in enumerate(out_lines):
        if l.startswith("abort"):
            probs.append("the library aborted in '%s'" % " ".join(map(str, ops[i])))
    if probs:
        return probs, 0
    for chk in checks:
        if chk[0] == "stats":
            _, idx, xws, nops, label = chk[:5]
            got = parse_S(out_lines[idx])
            p, s = judge_stats(got, exact_stats(xws, chk[5] if len(chk) > 5 else None), nops, label)
            probs += p
            skipped += s
        elif chk[0] == "close":
            _, i0, i1, xws, nops = chk
            a, b = parse_S(out_lines[i0]), parse_S(out_lines[i1])
            ex = exact_stats(xws)
            if ex["count"] == 0 or ex["kappa"] == float("inf"):
                continue
            tol = tolerances(ex, nops)
            if a["count"] != b["count"]:
                probs.append("counts differ: %d vs %d" % (a["count"], b["count"]))
            for name, t in (("variance", tol["var_rel"]), ("skewness", tol["skew_abs"]), ("kurtosis", tol["kurt_abs"])):
                if t > 0.05:
                    continue
                x, y = a[name], b[name]
                if math.isnan(x) or math.isnan(y) or abs(x - y) > 2 * t * (1.0 + max(abs(x), abs(y))):
                    probs.append("%s differs between the two summaries of the same data: %r vs %r" % (name, x, y))
        elif chk[0] == "bitwise":
            _, i0, i1 = chk
            if out_lines[i0] != out_lines[i1]:
                probs.append("zero-weight samples changed the summary: '%s' vs '%s'" % (out_lines[i0], out_lines[i1]))
    return probs, skipped


# ---- generators -----------------------------------------------------------

def gen_values(rng, fam, n):
    if fam == "small_int":
        return [float(rng.randint(-9, 9)) for _ in range(n)]
    if fam == "uniform":
        return [rng.uniform(-1, 1) for _ in range(n)]
    if fam == "normal":
        return [rng.gauss(3.0, 2.0) for _ in range(n)]
    if fam == "lognormal":
        return [math.exp(rng.gauss(0.0, 1.0)) for _ in range(n)]
    if fam == "constant":
        c = rng.choice([0.0, 1.0, -2.5, 0.1, 1e9, 1e-7, 123456.789])
        return [c] * n
    if fam == "offset":
        off = rng.choice([1e9, -1e9, 1e6, 1e12])
        return [off + rng.uniform(0, 1) * rng.choice([1.0, 10.0]) for _ in range(n)]
    if fam == "huge":
        return [rng.uniform(-1, 1) * 1e70 for _ in range(n)]
    if fam == "tiny":
        return [rng.uniform(-1, 1) * 1e-70 for _ in range(n)]
    if fam == "mixed":
        return [rng.uniform(-1, 1) * 10.0 ** rng.randint(-5, 5) for _ in range(n)]
    if fam == "two_point":
        a, b = rng.uniform(-5, 5), rng.uniform(-5, 5)
        return [rng.choice([a, b]) for _ in range(n)]
    if fam == "sorted":
        return sorted(rng.uniform(0, 100) for _ in range(n))
    raise ValueError(fam)


VALUE_FAMS = ["small_int", "uniform", "normal", "lognormal", "constant", "offset", "huge", "tiny", "mixed", "two_point", "sorted"]


TINY_UNITS = [2.0 ** -60, 2.0 ** -200, 2.0 ** -53, 2.0 ** -80]


def gen_weights(rng, n, zero_ok=True, unit=None):
    """`unit`: all weights are multiplied by this power of two (exactly): weights that are tiny (or huge) in ABSOLUTE terms.
    By default one sequence in six gets such a unit: nothing in the property depends on the unit of the weights."""
    if unit is None:
        unit = rng.choice(TINY_UNITS + [2.0 ** 60]) if rng.random() < 1.0 / 6 else 1.0
    return [w * unit for w in _gen_weights(rng, n, zero_ok)]


def _gen_weights(rng, n, zero_ok=True):
    mode = rng.choice(["unit", "int", "uniform", "dyadic", "durations", "wide"])
    ws = []
    for _ in range(n):
        if mode == "unit":
            w = 1.0
        elif mode == "int":
            w = float(rng.randint(1, 5))
        elif mode == "uniform":
            w = rng.uniform(0.01, 3.0)
        elif mode == "dyadic":
            w = rng.choice([0.25, 0.5, 1.0, 2.0, 4.0])
        elif mode == "durations":
            w = rng.expovariate(1.0) + 1e-3
        else:
            w = 10.0 ** rng.uniform(-3, 3)
        if zero_ok and rng.random() < 0.12:
            w = 0.0
        ws.append(w)
    return ws


def gen_length(rng, quick):
    r = rng.random()
    if r < 0.45:
        return rng.randint(0, 4)
    if r < 0.85:
        return rng.randint(5, 24)
    return rng.randint(25, 120 if quick else 600)


def gen_scenarios(seed, total, quick=True, exclude=()):
    """exclude: predicates (scenario -> bool) of known-finding triggers"""
    rng = random.Random(seed * 1000003 + 5)
    out = []
    kinds = ["seq", "merge_all_splits", "seq", "merge", "merge3", "wseq", "seq", "wmerge", "wscale", "wunit", "wzero", "merge_empty", "wseq", "dataset", "timeseries", "selfmerge", "bigmerge"]
    while len(out) < total:
        kind = kinds[len(out) % len(kinds)] if rng.random() < 0.8 else rng.choice(kinds)
        fam = rng.choice(VALUE_FAMS)
        n = gen_length(rng, quick)
        xs = gen_values(rng, fam, n)
        # weights / times in a tiny or huge UNIT only together with values of moderate magnitude: 2^-200 * (1e-70)^4 or
        # (1e70 * 2^200)^3 leave the range of a double, which is a matter of range, not of the property
        unit = 1.0 if fam in ("huge", "tiny") else None
        new = []
        if kind == "seq":
            new.append({"kind": "seq", "xs": xs})
        elif kind == "merge_all_splits":
            xs = xs[:12]
            for k in range(len(xs) + 1):
                new.append({"kind": "merge", "parts": [xs[:k], xs[k:]], "target": rng.choice(["new", "a", "b"]),
                            "order": rng.choice(["ab", "ba"]), "then": []})
        elif kind == "merge":
            k = rng.randint(0, len(xs))
            new.append({"kind": "merge", "parts": [xs[:k], xs[k:]], "target": rng.choice(["new", "a", "b"]),
                        "order": rng.choice(["ab", "ba"]), "then": gen_values(rng, fam, rng.randint(0, 2))})
        elif kind == "merge3":
            k1 = rng.randint(0, len(xs))
            k2 = rng.randint(k1, len(xs))
            new.append({"kind": "merge", "parts": [xs[:k1], xs[k1:k2], xs[k2:]], "target": rng.choice(["new", "a", "b"]),
                        "order": rng.choice(["ab", "ba"]), "then": gen_values(rng, fam, rng.randint(0, 1))})
        elif kind == "merge_empty":
            parts = [[], []] if rng.random() < 0.5 else rng.choice([[[], xs[:3]], [xs[:3], []], [[], [], xs[:2]]])
            new.append({"kind": "merge", "parts": parts, "target": rng.choice(["new", "a", "b"]),
                        "order": rng.choice(["ab", "ba"]), "then": gen_values(rng, rng.choice(["small_int", "normal"]), rng.randint(0, 4))})
            wparts = [[[x, 1.5] for x in p] for p in parts]
            new.append({"kind": "wmerge", "parts": wparts, "target": rng.choice(["new", "a", "b"]),
                        "order": rng.choice(["ab", "ba"]), "then": [[x, 2.0] for x in gen_values(rng, "small_int", rng.randint(0, 3))]})
        elif kind == "wseq":
            new.append({"kind": "wseq", "xws": [list(p) for p in zip(xs, gen_weights(rng, len(xs), unit=unit))]})
        elif kind == "wmerge":
            xws = [list(p) for p in zip(xs, gen_weights(rng, len(xs), unit=unit))]
            k = rng.randint(0, len(xws))
            new.append({"kind": "wmerge", "parts": [xws[:k], xws[k:]], "target": rng.choice(["new", "a", "b"]),
                        "order": rng.choice(["ab", "ba"]), "then": []})
        elif kind == "wscale":
            xws = [list(p) for p in zip(xs, gen_weights(rng, len(xs), unit=unit))]
            wmax = max([w for _, w in xws] + [0.0])
            if wmax and wmax < 1e-12:
                c = rng.choice([2.0 ** 60, 2.0 ** 52, 10.0])          # tiny weights: back to ordinary magnitude
            elif wmax > 1e12:
                c = rng.choice([2.0 ** -60, 0.1])
            elif unit == 1.0:
                c = rng.choice([10.0, 0.1, 2.0, 1000.0, 3.0, 1e-6, 0.5])
            else:
                c = rng.choice([10.0, 0.1, 2.0, 1000.0, 3.0, 1e-6, 0.5, 2.0 ** -60, 2.0 ** -200, 2.0 ** -53])
            new.append({"kind": "wscale", "xws": xws, "c": c})
        elif kind == "wunit":
            new.append({"kind": "wunit", "xs": xs})
        elif kind == "wzero":
            ws = gen_weights(rng, len(xs), unit=unit)
            for i in range(len(ws)):
                if rng.random() < 0.3:
                    ws[i] = 0.0
            new.append({"kind": "wzero", "xws": [list(p) for p in zip(xs, ws)]})
        elif kind == "selfmerge":
            new.append({"kind": "selfmerge", "xs": xs[:40], "weighted": rng.random() < 0.5})
        elif kind == "bigmerge":
            # values of moderate magnitude: with 2^60 copies of 1e70 the sums of 4th powers leave the range of a double
            vf = fam if fam not in ("huge", "tiny") else rng.choice(["normal", "small_int", "uniform"])
            a = gen_values(rng, vf, rng.randint(1, 5))
            b = gen_values(rng, vf, rng.randint(1, 5))
            la, lb = len(a), len(b)
            mode = rng.choice(["around32", "around32", "product64", "lopsided", "small"])
            if mode == "around32":        # each count close to 2^32: the product of the counts is close to 2^64
                ka, kb = rng.randint(29, 34), rng.randint(29, 34)
            elif mode == "product64":     # ka + kb around 64 whatever the individual sizes
                ka = rng.randint(20, 44)
                kb = max(0, 64 - ka + rng.randint(-3, 3))
            elif mode == "lopsided":      # one count close to 2^63, the other one small
                ka, kb = rng.choice([(rng.randint(58, 60), rng.randint(0, 8)), (rng.randint(0, 8), rng.randint(58, 60))])
            else:
                ka, kb = rng.randint(0, 12), rng.randint(0, 12)
            while la * 2 ** ka + lb * 2 ** kb >= 2 ** 63:      # the merged count itself stays below 2^63
                if ka >= kb:
                    ka -= 1
                else:
                    kb -= 1
            wt = rng.random() < 0.3
            if wt:
                a = [list(p) for p in zip(a, gen_weights(rng, la, zero_ok=False, unit=1.0))]
                b = [list(p) for p in zip(b, gen_weights(rng, lb, zero_ok=False, unit=1.0))]
            new.append({"kind": "bigmerge", "a": a, "b": b, "ka": ka, "kb": kb, "order": rng.choice(["ab", "ba"]),
                        "target": rng.choice(["new", "a", "b"]), "weighted": wt})
        elif kind == "dataset":
            new.append({"kind": "dataset", "xs": xs})
        elif kind == "timeseries":
            xs = xs or [1.0]
            t, xts = 0.0, []
            for x in xs:
                xts.append([x, t])
                t += rng.choice([0.0, 1.0, 0.5, rng.expovariate(1.0), rng.uniform(0, 3)])
            tend = t + rng.choice([0.0, 1.0, rng.uniform(0, 2)])
            # the time unit: the same history recorded in a unit 2^60 (2^200) times larger has time stamps 2^-60 times smaller
            tu = 1.0 if unit == 1.0 else rng.choice([1.0, 1.0, 1.0, 2.0 ** -60, 2.0 ** -200, 2.0 ** 40])
            new.append({"kind": "timeseries", "xts": [[x, tt * tu] for x, tt in xts], "tend": tend * tu})
        for s in new:
            s["fam"] = fam
            if any(pred(s) for pred in exclude):
                continue
            out.append(s)
    return out[:total] if total else out


def scenario_key(scn):
    return hashlib.sha256(json.dumps({k: v for k, v in scn.items() if k != "fam"}, sort_keys=True).encode()).hexdigest()[:16]


def scenario_samples(scn):
    """number of samples of non-zero weight involved (for the non-triviality rule)"""
    k = scn["kind"]
    if k in ("seq", "wunit", "dataset", "selfmerge"):
        return len(scn["xs"])
    if k == "timeseries":
        return len(scn["xts"])
    if k == "bigmerge":
        return len(scn["a"]) + len(scn["b"])
    if k == "merge":
        return sum(len(p) for p in scn["parts"]) + len(scn.get("then", []))
    if k in ("wseq", "wscale", "wzero"):
        return sum(1 for _, w in scn["xws"] if w != 0)
    if k == "wmerge":
        return sum(1 for p in scn["parts"] for _, w in p if w != 0) + sum(1 for _, w in scn.get("then", []) if w != 0)
    return 0


def run_scenarios(c_exe, scns):
    """Runs all scenarios in one driver process (case-separated).  Returns list of (scn, problems, skipped)."""
    all_ops, spans = [], []
    for i, s in enumerate(scns):
        ops, _ = scenario_ops(s)
        all_ops.append(("case", i))
        spans.append((len(all_ops), len(ops)))
        all_ops += ops
    rc, lines, err = run_c(c_exe, all_ops)
    res = []
    for s, (start, n) in zip(scns, spans):
        probs, skipped = judge_scenario(s, lines[start:start + n])
        res.append((s, probs, skipped))
    return res


def load_corpus():
    d = os.path.join(vlib.VERIF, "corpus", "stats")
    out = []
    if os.path.isdir(d):
        for f in sorted(os.listdir(d)):
            for line in open(os.path.join(d, f)):
                line = line.strip()
                if line and not line.startswith("#"):
                    out.append((f, json.loads(line)))
    return out
