#!/usr/bin/env python3
"""Confirm a seeded change independently: it applies, the library builds, the existing tests pass with it, and its
demonstration fails with the change and passes without it. Works in a scratch worktree of /repo (removed afterwards).

usage: tools/seedconfirm.py <id> [--full]      (--full also runs the 5-minute `random` test)
"""
import json
import os
import subprocess
import sys
import tempfile

VERIF = os.path.dirname(os.path.dirname(os.path.abspath(__file__)))


def sh(cmd, cwd, timeout=3600):
    p = subprocess.run(cmd, cwd=cwd, shell=isinstance(cmd, str), stdout=subprocess.PIPE, stderr=subprocess.STDOUT, timeout=timeout)
    return p.returncode, p.stdout.decode("utf-8", "replace")


def build_demo(wt, d):
    demo = os.path.join(d, "demo.c")
    if not os.path.exists(demo):
        return None
    exe = os.path.join(wt, "demo_bin")
    lib = [f for f in os.listdir(os.path.join(wt, "_build", "src")) if f.startswith("libcimba.so")]
    cmd = ["gcc", "-std=c17", "-D_POSIX_C_SOURCE=200809L", "-w", "-I", "include", "-I", "src", "-I", "_build/codegen", "-I", "_build/src",
           demo, "-o", exe, "-L", "_build/src", "-lcimba", "-lm", "-lpthread", "-Wl,-rpath," + os.path.join(wt, "_build", "src")]
    rc, out = sh(cmd, wt)
    if rc != 0:
        raise RuntimeError("demo does not build: " + out[-800:])
    return exe


def main():
    sid = sys.argv[1]
    full = "--full" in sys.argv
    d = os.path.join(VERIF, "seeded", sid)
    wt = tempfile.mkdtemp(prefix="confirm-%s-" % sid, dir="/tmp")
    os.rmdir(wt)
    subprocess.check_call(["git", "-C", "/repo", "worktree", "add", "-q", "--detach", wt, "HEAD"])
    res = {"id": sid}
    try:
        rc, out = sh("meson setup _build >/dev/null 2>&1 && meson compile -C _build 2>&1 | tail -3", wt)
        res["build_clean"] = rc == 0
        exe = build_demo(wt, d)
        rc, out = sh([exe], wt, timeout=600)
        res["demo_without_change"] = {"exit": rc, "tail": out[-300:]}
        subprocess.check_call(["git", "-C", wt, "apply", os.path.join(d, "patch.diff")])
        rc, out = sh("meson compile -C _build 2>&1 | tail -5", wt)
        res["build_with_change"] = rc == 0
        touched = open(os.path.join(d, "patch.diff")).read()
        tests = subprocess.check_output(["meson", "test", "-C", "_build", "--list"], cwd=wt).decode().split()
        import re as _re
        names = sorted({m.group(1) for t in tests for m in [_re.match(r"^(?:cimba:)?([a-z]+)$", t.strip())] if m and
                        m.group(1) in ("buffer", "cimba", "condition", "coroutine", "data", "event", "hashheap", "logger", "mempool",
                                       "objectqueue", "priorityqueue", "process", "random", "resource", "resourcepool")})
        if not full and "cmb_random" not in touched and "codegen" not in touched:
            names = [n for n in names if n != "random"]
        rc, out = sh(["meson", "test", "-C", "_build", "--no-rebuild"] + names, wt, timeout=3600)
        ok = [l for l in out.splitlines() if l.startswith("Ok:") or l.startswith("Fail:") or l.startswith("Timeout:")]
        res["tests_with_change"] = {"exit": rc, "ran": names, "summary": " ".join(" ".join(x.split()) for x in ok)}
        exe = build_demo(wt, d)
        rc, out = sh([exe], wt, timeout=600)
        res["demo_with_change"] = {"exit": rc, "tail": out[-300:]}
        res["confirmed"] = bool(res["build_with_change"] and res["tests_with_change"]["exit"] == 0 and
                                res["demo_without_change"]["exit"] == 0 and res["demo_with_change"]["exit"] != 0)
    except Exception as ex:
        res["error"] = str(ex)[-600:]
        res["confirmed"] = False
    finally:
        subprocess.call(["git", "-C", "/repo", "worktree", "remove", "--force", wt])
    json.dump(res, open(os.path.join(d, "confirm.json"), "w"), indent=1)
    print(sid, "CONFIRMED" if res["confirmed"] else "NOT CONFIRMED", json.dumps({k: v for k, v in res.items() if k not in ("id",)})[:600])


if __name__ == "__main__":
    main()
