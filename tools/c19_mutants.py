"""Development aid for C19 (not a registered check): applies realistic mutants to a scratch git worktree of the repository
(never /repo), runs ./check C19 on each and prints which part reported it.  usage: python3 tools/c19_mutants.py <scratch-repo>"""
import os
import re
import subprocess
import sys

HERE = os.path.dirname(os.path.dirname(os.path.abspath(__file__)))

MUTANTS = [
    ("bound-gt", "src/cimba.c", "if (idx >= cmg_total_trials) {", "if (idx > cmg_total_trials) {"),
    ("split-fetch", "src/cimba.c",
     "const uint64_t idx = __atomic_fetch_add(&cmg_next_trial_idx, 1, __ATOMIC_SEQ_CST);",
     "const uint64_t idx = cmg_next_trial_idx;\n        cmg_next_trial_idx = idx + 1;"),
    ("join-skips-last", "src/cimba.c",
     "for (uint64_t ui = 0u; ui < ncores; ui++) {\n        pthread_join(threads[ui], NULL);",
     "for (uint64_t ui = 0u; ui + 1u < ncores; ui++) {\n        pthread_join(threads[ui], NULL);"),
    ("elem-addr", "src/cimba.c", "+ (idx * cmg_trial_struct_sz);", "+ (idx * sizeof(void *));"),
    ("fetch-add-2", "src/cimba.c", "__atomic_fetch_add(&cmg_next_trial_idx, 1,", "__atomic_fetch_add(&cmg_next_trial_idx, 2,"),
    ("new-plain-static", "src/cmb_event.c", "static CMB_THREAD_LOCAL double sim_time = 0.0;",
     "static CMB_THREAD_LOCAL double sim_time = 0.0;\nstatic uint64_t cmi_events_scheduled_total = 0u;"),
    ("drop-thread-local", "src/cmb_event.c", "static CMB_THREAD_LOCAL double sim_time = 0.0;", "static double sim_time = 0.0;"),
    ("no-flip-reset", "src/cmb_random.c", "    flip_bits = 0u;\n    flip_bitpos = 0u;\n    splitmix_initialize(seed);", "    splitmix_initialize(seed);"),
    ("no-counter-reset", "src/cimba.c", "    cmg_next_trial_idx = 0u;\n    cmg_experiment_arr", "    cmg_experiment_arr"),
    ("early-return-same-seed", "src/cmb_random.c", "    initial_seed = seed;\n", "    if (seed == initial_seed) {\n        return;\n    }\n    initial_seed = seed;\n"),
    ("gamma-key-epsilon", "src/cmb_random.c", "    if (shape != a_prev) {", "    if (fabs(shape - a_prev) > 2.220446049250313e-16) {"),
    ("no-seed-store", "src/cmb_random.c", "    splitmix_initialize(seed);\n", "    splitmix_state ^= seed;\n"),
    # harmless rewrites: must stay green
    ("HARMLESS-not-lt", "src/cimba.c", "if (idx >= cmg_total_trials) {", "if (!(idx < cmg_total_trials)) {"),
    ("HARMLESS-relaxed-order", "src/cimba.c", "1, __ATOMIC_SEQ_CST);", "1, __ATOMIC_RELAXED);"),
    ("HARMLESS-addr-commuted", "src/cimba.c", "+ (idx * cmg_trial_struct_sz);", "+ (cmg_trial_struct_sz * idx);"),
]


def main():
    repo = sys.argv[1]
    only = sys.argv[2:] or None
    assert os.path.realpath(repo) != "/repo"
    for name, f, old, new in MUTANTS:
        if only and name not in only:
            continue
        p = os.path.join(repo, f)
        src = open(p).read()
        if old not in src:
            print("%-24s SKIPPED (pattern not found)" % name)
            continue
        open(p, "w").write(src.replace(old, new, 1))
        try:
            env = dict(os.environ, VERIF_REPO=repo)
            r = subprocess.run([os.path.join(HERE, "check"), "C19"], env=env, stdout=subprocess.PIPE, stderr=subprocess.STDOUT, cwd=HERE)
            out = r.stdout.decode()
            vio = [l for l in out.splitlines() if l.startswith("VIOLATION")]
            why = [l.split("^", 1)[1].strip()[:230] for l in out.splitlines() if "  ^" in l]
            done = [l for l in out.splitlines() if "done:" in l]
            print("%-24s exit=%d %s" % (name, r.returncode, done[-1].split("done:")[1].strip() if done else ""))
            for v, w in zip(vio, why):
                print("    %s\n      %s" % (v.split("replay=")[1], w))
        finally:
            open(p, "w").write(src)


if __name__ == "__main__":
    main()
