"""Scenario generation and comparison for property C15 (harness/rngdrv.c, Drivers/RngMain.lean).

A scenario file is a list of runs (separated by `run` lines), each a list of operations of the line protocol of
harness/rngdrv.c, preceded by a directive comment

    #! kind=seedalone mode=seq|conc|main    every run contains `mark`; the output after `mark` must be IDENTICAL in all
                                            runs (same seed, same calls; different histories / threads)
    #! kind=spec                            integer-only; the implementation's output must equal the documented
                                            generator's (rngmain spec)
    #! kind=threads                         every run on its own thread: the output of every run must be the same when
                                            the threads run all at once (conc) as when they run one after the other (seq)
    #! kind=corr mode=seq|conc              integer-only; implementation vs. the regenerated Lean model, every line

`mode`: seq = every run on its own fresh thread, one after the other; conc = all runs at once on their own threads;
main = all runs after each other on the main thread (state carries over: earlier runs are history of later ones);
ctx = every run starts with `ctx main|thread|worker|mainafter|threadafter` (harness/rngdrv.c): main thread before any
experiment, plain pthread, trial inside cimba_run_experiment on the library's worker threads, main thread / new pthread
after an experiment.
"""
import hashlib
import os
import random
import re

import vlib

CORPUS = os.path.join(vlib.VERIF, "corpus", "rng")
M64 = 2 ** 64
SPECIAL_SEEDS = [0, 1, M64 - 1, 42, 0x0000DEAD5EED0000, 2 ** 63, 2 ** 32]

# (name, parameter generator) — parameters stay away from the triggers of the separately recorded sampler defects
# (C16: std_gamma shape < 1/3, geometric p = 1, loaded_dice with probabilities summing to less than 1)
DISTS = [
    ("random", lambda r: []), ("uniform", lambda r: [-2.5, 7.25]), ("triangular", lambda r: [1.0, 2.0, 5.0]),
    ("std_normal", lambda r: []), ("normal", lambda r: [r.choice([0.0, 10.0]), r.choice([1.0, 2.5])]),
    ("lognormal", lambda r: [0.5, 0.75]), ("logistic", lambda r: [1.0, 2.0]), ("cauchy", lambda r: [0.0, 1.5]),
    ("std_exponential", lambda r: []), ("exponential", lambda r: [r.choice([1.0, 3.5])]),
    ("erlang", lambda r: [r.choice([2, 5]), 1.5]), ("hypoexponential", lambda r: [1.0, 2.0, 0.5]),
    ("hyperexponential", lambda r: [1.0, 2.0, 4.0, 0.25, 0.25, 0.5]),
    ("std_gamma", lambda r: [r.choice([0.5, 1.0, 2.5, 7.0])]), ("gamma", lambda r: [r.choice([0.5, 2.5, 3.0]), 2.0]),
    ("std_beta", lambda r: [r.choice([0.8, 2.0]), r.choice([1.5, 3.0])]), ("beta", lambda r: [2.0, 3.0, -1.0, 4.0]),
    ("PERT", lambda r: [1.0, 2.0, 6.0]), ("PERT_mod", lambda r: [1.0, 2.0, 6.0, r.choice([2.0, 4.0])]),
    ("weibull", lambda r: [1.5, 2.0]), ("pareto", lambda r: [1.16, 1.0]), ("chisquared", lambda r: [r.choice([1.0, 3.0, 8.0])]),
    ("F_dist", lambda r: [3.0, 5.0]), ("std_t_dist", lambda r: [r.choice([1.0, 4.0])]), ("t_dist", lambda r: [1.0, 2.0, 5.0]),
    ("rayleigh", lambda r: [2.0]), ("flip", lambda r: []), ("bernoulli", lambda r: [r.choice([0.25, 0.5])]),
    ("geometric", lambda r: [r.choice([0.125, 0.3, 0.75])]), ("binomial", lambda r: [r.choice([3, 10]), 0.4]),
    ("negative_binomial", lambda r: [3, r.choice([0.3, 0.6])]), ("pascal", lambda r: [2, 0.5]),
    ("poisson", lambda r: [r.choice([0.5, 4.0])]), ("dice", lambda r: [1, 6]),
    ("loaded_dice", lambda r: [0.25, 0.25, 0.5]), ("alias", lambda r: [0.125, 0.375, 0.5]),
]
MEMO_DISTS = {"std_gamma", "gamma", "std_beta", "beta", "PERT", "PERT_mod", "chisquared", "F_dist", "std_t_dist", "t_dist",
              "geometric", "negative_binomial", "pascal"}


# Samplers that reach a memoising function (std_gamma: a_prev/c/d; geometric: prev/denom), with the positions of the
# parameters that end up as the memo key.  `near_op` perturbs those by a few 1e-10 (different doubles less than 1e-9
# apart — a sensitivity sweep with a tiny step, or a parameter computed along two floating-point routes): a cache that is
# keyed on anything but the exact argument shows up as a dependence on the history.
NEAR = [
    ("std_gamma", [2.5], [0]), ("std_gamma", [0.75], [0]), ("std_gamma", [1.21], [0]), ("gamma", [3.0, 2.0], [0]),
    ("gamma", [1.5, 2.0], [0]), ("chisquared", [5.0], [0]), ("chisquared", [3.0], [0]),
    ("std_beta", [2.0, 3.0], [0, 1]), ("std_beta", [1.2, 1.7], [0, 1]), ("beta", [2.0, 3.0, -1.0, 4.0], [0, 1]),
    ("PERT", [1.0, 2.0, 6.0], [1]), ("PERT_mod", [1.0, 2.0, 6.0, 4.0], [3]), ("F_dist", [3.0, 5.0], [0, 1]),
    ("std_t_dist", [4.0], [0]), ("std_t_dist", [2.5], [0]), ("t_dist", [1.0, 2.0, 5.0], [2]),
    ("geometric", [0.3], [0]), ("negative_binomial", [3, 0.6], [1]), ("pascal", [2, 0.5], [1]),
]
# additive differences, and ("ulp", k): the k-th neighbouring double (nextafter) — a tolerance of DBL_EPSILON in a cache test
# only bites for adjacent doubles (1.21 vs 1.1 * 1.1)
NEAR_DELTAS = [0.0, 4e-10, -4e-10, 7e-10, 2e-10, -9e-10, 1.5e-9, ("ulp", 1), ("ulp", -1), ("ulp", 1), ("ulp", -1), ("ulp", 2)]
# memoised samplers at a BOUNDARY of their parameter range, where a prologue may take a different path (geometric: p = 1,
# `log(1 - p)` is log 0): (name, interior parameters, boundary parameters)
BOUNDARY = [("geometric", [0.3], [1.0]), ("geometric", [0.75], [1.0]), ("negative_binomial", [3, 0.6], [3, 1.0]),
            ("pascal", [2, 0.5], [2, 1.0])]


def ulp_step(v, k):
    import struct
    b = struct.unpack("<q", struct.pack("<d", float(v)))[0]
    return struct.unpack("<d", struct.pack("<q", b + k if v > 0 else b - k))[0]


def perturb(v, d):
    return ulp_step(v, d[1]) if isinstance(d, tuple) else v + d


# which `dist` operations reach a memoising function directly, as (name, parameters from the memo key x)
MEMO_OPS = {
    "cmb_random_std_gamma": [("std_gamma", lambda x: [x]), ("gamma", lambda x: [x, 2.0]), ("chisquared", lambda x: [2.0 * x]),
                             ("std_beta", lambda x: [x, 3.0])],
    "cmb_random_geometric": [("geometric", lambda x: [x]), ("negative_binomial", lambda x: [3, x]), ("pascal", lambda x: [2, x])],
}


def near_op(r, entry=None, delta=None, n=None):
    name, base, idx = entry or r.choice(NEAR)
    ps = list(base)
    for i in idx:
        ps[i] = perturb(ps[i], r.choice(NEAR_DELTAS) if delta is None else delta)
    return "dist %s %d %s" % (name, n if n is not None else r.choice([1, 2, 5]), " ".join(fmt(p) for p in ps))


def fmt(x):
    return str(x) if isinstance(x, int) else repr(float(x))


def dist_op(r, n=None, name=None):
    nm, pg = r.choice(DISTS) if name is None else [d for d in DISTS if d[0] == name][0]
    return "dist %s %d %s" % (nm, n if n is not None else r.choice([1, 2, 3, 7]), " ".join(fmt(p) for p in pg(r)))


def int_op(r, big=False):
    k = r.random()
    if k < 0.30:
        return "raw %d" % r.choice([1, 2, 3, 5, 17])
    if k < 0.60:
        return "flip %d" % r.choice([1, 2, 3, 7, 31, 63, 64, 65, 100, 130])
    if k < 0.70:
        return "u53 %d" % r.choice([1, 2, 4])
    if k < 0.78:
        return "curseed"
    if k < 0.84:
        return "term"
    if k < 0.92:
        return "rawd %d" % (r.choice([1000, 20000, 100000]) if big else r.choice([10, 100, 1000]))
    return "flipd %d" % (r.choice([1000, 50000]) if big else r.choice([10, 65, 200]))


def seed_value(r):
    k = r.random()
    if k < 0.3:
        return r.choice(SPECIAL_SEEDS)
    if k < 0.5:
        return r.randrange(0, 1000)
    return r.getrandbits(64)


# ---- scenarios ---------------------------------------------------------------------------------

class Scenario:
    def __init__(self, kind, mode, runs, note=""):
        self.kind, self.mode, self.runs, self.note = kind, mode, runs, note

    def text(self, comment=True):
        out = []
        if comment:
            out.append("#! kind=%s mode=%s" % (self.kind, self.mode))
            if self.note:
                out += ["# " + l for l in self.note.splitlines()]
        for run in self.runs:
            out.append("run")
            out += run
        return "\n".join(out) + "\n"

    def sig(self):
        return hashlib.sha256(self.text(False).encode() + self.mode.encode()).hexdigest()[:16]


def parse(text):
    kind, mode, runs = "seedalone", "seq", []
    for l in text.splitlines():
        l = l.strip()
        m = re.match(r"#!\s*kind=(\w+)(?:\s+mode=(\w+))?", l)
        if m:
            kind, mode = m.group(1), m.group(2) or "seq"
            continue
        if not l or l.startswith("#"):
            continue
        if l == "run":
            runs.append([])
        else:
            if not runs:
                runs.append([])
            runs[-1].append(l)
    return Scenario(kind, mode, runs)


def gen_history(r, allow_dist=True):
    """What a thread did before seeding: earlier trials (with their own seeds), partially consumed bit caches, cached
    parameters of the memoising samplers."""
    h = []
    for _ in range(r.choice([0, 1, 1, 2, 3, 5, 8])):
        k = r.random()
        if k < 0.15:
            h.append("seed %d" % seed_value(r))
        elif k < 0.55 or not allow_dist:
            h.append(int_op(r))
        else:
            h.append(dist_op(r))
    return h


def gen_seedalone(r):
    seed = seed_value(r)
    calls = []
    for _ in range(r.choice([1, 2, 3, 4, 6])):
        calls.append(dist_op(r) if r.random() < 0.5 else int_op(r))
    if r.random() < 0.6:
        calls.insert(r.randrange(len(calls) + 1), "flip %d" % r.choice([1, 5, 10, 64, 70]))
    if r.random() < 0.4:
        # a memoising sampler called with the SAME and with a DIFFERENT parameter than the history may have used
        calls.append(dist_op(r, name=r.choice(["std_gamma", "geometric", "chisquared", "std_beta"])))
    near = r.choice(NEAR) if r.random() < 0.35 else None
    if near:
        # the same memoising sampler before and after seeding, its key a hair (< 1e-9) off
        calls.insert(r.randrange(len(calls) + 1), near_op(r, near, delta=r.choice(NEAR_DELTAS)))
    bnd = r.choice(BOUNDARY) if r.random() < 0.15 else None
    if bnd:
        # a memoised sampler at the boundary of its parameter range after the thread used an interior value (and the reverse)
        flipd = r.random() < 0.3
        calls.insert(r.randrange(len(calls) + 1), "dist %s %d %s" % (bnd[0], r.choice([3, 5]), " ".join(fmt(x) for x in bnd[1 if flipd else 2])))
    nh = r.choice([1, 2, 3])
    runs = [["seed %d" % seed, "mark"] + calls]
    for _ in range(nh):
        h = gen_history(r)
        if near:
            h.insert(r.randrange(len(h) + 1), near_op(r, near))
        if bnd:
            h.append("dist %s 1 %s" % (bnd[0], " ".join(fmt(x) for x in bnd[r.choice([1, 1, 2])])))
        if r.random() < 0.5:
            h.append("flip %d" % r.choice([1, 3, 17, 63, 65]))       # leave a partially consumed bit cache
        if r.random() < 0.3:
            h.append(dist_op(r, name=r.choice(["std_gamma", "geometric", "chisquared", "std_beta"])))
        runs.append(h + ["seed %d" % seed, "mark"] + calls)
    mode = r.choice(["seq", "seq", "conc", "conc", "main"])
    return Scenario("seedalone", mode, runs)


# Samplers at parameters whose RESULTS reach the subnormal range (the parameters themselves are normal numbers and nothing
# raises FE_INVALID / FE_DIVBYZERO, which cimba_run_experiment makes trap): a thread that flushes subnormals to zero or treats
# them as zero returns other values, and its rejection loops draw a different number of raw words.
SUBNORMAL_OPS = [
    "distd weibull 40000 0.01 1.0", "distd lognormal 3000 -725.0 10.0", "distd uniform 2000 0.0 1e-308", "dist uniform 4 0.0 1e-308",
    "distd exponential 3000 3e-308", "distd normal 3000 0.0 3e-308", "distd rayleigh 3000 3e-308", "dist lognormal 6 -725.0 10.0",
    "distd erlang 2000 2 3e-308", "distd gamma 2000 2.5 2e-308", "distd triangular 2000 0.0 1e-308 2e-308",
]
CTX_SAFE_DISTS = ["random", "uniform", "triangular", "std_normal", "normal", "lognormal", "logistic", "std_exponential", "exponential",
                  "erlang", "hypoexponential", "hyperexponential", "std_gamma", "gamma", "weibull", "rayleigh", "bernoulli",
                  "binomial", "poisson", "dice", "loaded_dice", "alias", "flip", "chisquared", "std_beta", "PERT"]


def gen_fpctx(r):
    """Which thread makes the calls: the same seed and calls on the main thread before any experiment, on a plain pthread,
    in trials run by cimba_run_experiment's worker threads, on the main thread and on a new pthread after the experiment.
    Compared bit-exactly after `mark`, including the value-affecting bits of the thread's MXCSR and the next raw words."""
    seed = seed_value(r)
    calls = ["fpenv"]
    for _ in range(r.choice([2, 3, 4])):
        k = r.random()
        calls.append(r.choice(SUBNORMAL_OPS) if k < 0.6 else (dist_op(r, name=r.choice(CTX_SAFE_DISTS)) if k < 0.85 else int_op(r)))
    calls += ["raw 2", "fpenv"]
    runs = []
    for where in ["main", "thread", "worker", "worker", "worker", "mainafter", "threadafter"]:
        h = [op for op in gen_history(r, allow_dist=False) if r.random() < 0.5]
        runs.append(["ctx " + where] + h + ["seed %d" % seed, "mark"] + calls)
    return Scenario("seedalone", "ctx", runs)


def gen_corr(r, big=False):
    runs = []
    for _ in range(r.choice([1, 2, 3, 4])):
        ops = []
        for _ in range(r.choice([2, 4, 8, 16, 30])):
            if r.random() < 0.2:
                ops.append("seed %d" % seed_value(r))
            else:
                ops.append(int_op(r, big))
        runs.append(ops)
    return Scenario("corr", r.choice(["seq", "seq", "conc"]), runs)


def gen_threads(r, storm=False):
    """Several threads at once, each seeding itself (repeatedly, if `storm`) and drawing; what one thread gets must not
    depend on the others."""
    runs = []
    for _ in range(r.choice([2, 3, 4, 8, 16]) if not storm else r.choice([8, 16])):
        ops = []
        if storm:
            for _ in range(r.choice([100, 300])):
                ops += ["seed %d" % r.getrandbits(64), r.choice(["raw 1", "flip 3", "raw 2", "dist std_gamma 1 2.5", "dist geometric 1 0.3"])]
        else:
            ops.append("seed %d" % seed_value(r))
            for _ in range(r.choice([3, 6, 12, 25])):
                k = r.random()
                ops.append("seed %d" % seed_value(r) if k < 0.1 else (dist_op(r) if k < 0.5 else int_op(r, big=True)))
        runs.append(ops)
    return Scenario("threads", "conc", runs)


def spec_scenarios(r, n_random):
    seeds = list(SPECIAL_SEEDS) + [r.getrandbits(64) for _ in range(n_random)]
    return [Scenario("spec", "seq", [["seed %d" % s, "raw 40", "u53 4", "rawd %d" % r.choice([1000, 30000]), "raw 3"]]) for s in seeds]


def nontrivial(sc):
    """seedalone: some history is non-empty AND the compared section draws through a cache (flip / memoising sampler) or a
    history used one; corr: a reseed after at least one draw, or a cache refill (more than 64 flips); spec: always."""
    if sc.kind == "spec":
        return True
    if sc.kind == "threads":
        return len(sc.runs) >= 2 and all(len(run) >= 4 for run in sc.runs)
    if sc.kind == "corr":
        for run in sc.runs:
            drew = False
            for op in run:
                w = op.split()
                if w[0] in ("raw", "rawd", "flip", "flipd", "u53"):
                    if w[0].startswith("flip") and int(w[1]) > 64:
                        return True
                    drew = True
                if w[0] == "seed" and drew:
                    return True
        return False
    if sc.mode == "ctx":
        return any(op.startswith("distd") or op.startswith("dist") for op in sc.runs[0])
    hist = any(run.index("mark") > 1 for run in sc.runs if "mark" in run)
    cached = any(op.startswith("flip") or (op.startswith("dist") and op.split()[1] in MEMO_DISTS | {"flip"})
                 for run in sc.runs for op in run)
    return hist and cached


# ---- execution -----------------------------------------------------------------------------------

def split_runs(out):
    runs = []
    for l in out.splitlines():
        if re.match(r"run \d+$", l):
            runs.append([])
        elif runs:
            runs[-1].append(l)
    return runs


def run_c(c_exe, sc, timeout=300):
    rc, o, e = vlib.run_driver(c_exe, sc.text(False), timeout=timeout, args=[sc.mode])
    return rc, split_runs(o), e


def run_lean(sc, spec=False, timeout=300):
    rc, o, e = vlib.run_driver(vlib.lean_exe("rngmain"), sc.text(False), timeout=timeout, args=["spec"] if spec else (["main"] if sc.mode == "main" else []))
    return rc, split_runs(o), e


def after_mark(lines):
    return lines[lines.index("mark") + 1:] if "mark" in lines else None


def judge_seedalone(c_exe, sc):
    """None if every run prints the same lines after `mark`; else a description of the first difference."""
    rc, runs, err = run_c(c_exe, sc)
    if rc != 0 or len(runs) != len(sc.runs):
        return "implementation stopped: rc=%d, %d of %d runs; %s" % (rc, len(runs), len(sc.runs), err[-500:])
    ref = after_mark(runs[0])
    for i, lines in enumerate(runs[1:], 1):
        am = after_mark(lines)
        if am is None or ref is None:
            return "run %d printed no mark" % i
        d = vlib.first_diff(ref, am)
        if d is not None:
            op = sc.runs[0][sc.runs[0].index("mark") + 1 + d] if d < len(ref) else "?"
            where = sc.mode
            if sc.mode == "ctx":
                where = "%s vs %s" % (sc.runs[0][0], sc.runs[i][0])
            return ("after the same seed, `%s` returned different values in run 0 and run %d (%s): '%s' vs '%s'" %
                    (op, i, where, ref[d] if d < len(ref) else "<nothing>", am[d] if d < len(am) else "<nothing>"))
    return None


def judge_thread_identity(c_exe, sc):
    """Which thread makes the calls: run 0 (seed; mark; calls — no history) on the main thread of the process and on a
    freshly created thread must print the same."""
    a = run_c(c_exe, Scenario(sc.kind, "main", sc.runs[:1]))
    b = run_c(c_exe, Scenario(sc.kind, "seq", sc.runs[:1]))
    if a[0] != 0 or b[0] != 0 or a[1] != b[1]:
        d = vlib.first_diff(a[1][0] if a[1] else [], b[1][0] if b[1] else [])
        return "the main thread and a new thread draw different values from the same seed at operation %s" % d
    return None


def judge_threads(c_exe, sc):
    """None if every run prints the same when all threads run at once as when they run one after the other."""
    one = Scenario(sc.kind, "seq", sc.runs)
    two = Scenario(sc.kind, "conc", sc.runs)
    rc1, a, e1 = run_c(c_exe, one)
    rc2, b, e2 = run_c(c_exe, two)
    if rc1 != 0 or rc2 != 0 or len(a) != len(b) or len(a) != len(sc.runs):
        return "implementation stopped: rc=%d/%d %s %s" % (rc1, rc2, e1[-300:], e2[-300:])
    for i, (x, y) in enumerate(zip(a, b)):
        d = vlib.first_diff(x, y)
        if d is not None:
            return ("thread %d, operation %d `%s` (after `%s`): alone '%s' vs with %d other threads running '%s'" %
                    (i, d, sc.runs[i][d] if d < len(sc.runs[i]) else "?", sc.runs[i][d - 1] if 0 < d <= len(sc.runs[i]) else "",
                     (x[d] if d < len(x) else "<nothing>")[:120], len(sc.runs) - 1, (y[d] if d < len(y) else "<nothing>")[:120]))
    return None


def judge_against_lean(c_exe, sc, spec=False):
    """None if the implementation prints exactly what the Lean side prints (model or documented generator)."""
    rc1, a, e1 = run_c(c_exe, sc)
    rc2, b, e2 = run_lean(sc, spec)
    if rc1 != 0 or rc2 != 0 or len(a) != len(b):
        return "driver failed: impl rc=%d (%s) lean rc=%d (%s)" % (rc1, e1[-300:], rc2, e2[-300:])
    for i, (x, y) in enumerate(zip(a, b)):
        d = vlib.first_diff(x, y)
        if d is not None:
            op = sc.runs[i][d] if d < len(sc.runs[i]) else "?"
            return "run %d op '%s': impl '%s' vs %s '%s'" % (i, op, (x[d] if d < len(x) else "<nothing>")[:200],
                                                            "documented generator" if spec else "model",
                                                            (y[d] if d < len(y) else "<nothing>")[:200])
    return None


def shrink(sc, still_fails, budget=150):
    """Greedy reduction of a failing scenario: drop runs (keeping run 0), drop operations, lower counts."""
    cur = sc
    tries = 0

    def attempt(runs):
        nonlocal cur, tries
        tries += 1
        cand = Scenario(cur.kind, cur.mode, runs, cur.note)
        if all(("mark" in r and any(o.startswith("seed") for o in r[:r.index("mark")])) for r in runs) and still_fails(cand):
            cur = cand
            return True
        return False
    changed = True
    while changed and tries < budget:
        changed = False
        for i in range(len(cur.runs) - 1, 0, -1):
            if len(cur.runs) > 2 and attempt(cur.runs[:i] + cur.runs[i + 1:]):
                changed = True
                break
        # operations of the compared section are shared by all runs: remove the same one everywhere
        calls = cur.runs[0][cur.runs[0].index("mark") + 1:]
        for j in range(len(calls) - 1, -1, -1):
            if len(calls) > 1:
                new = []
                for r in cur.runs:
                    m = r.index("mark")
                    new.append(r[:m + 1] + [o for k, o in enumerate(r[m + 1:]) if k != j])
                if attempt(new):
                    changed = True
                    break
        for i in range(1, len(cur.runs)):
            m = cur.runs[i].index("mark")
            for j in range(m - 2, -1, -1):
                if attempt(cur.runs[:i] + [cur.runs[i][:j] + cur.runs[i][j + 1:]] + cur.runs[i + 1:]):
                    changed = True
                    break
        # lower counts
        for i in range(len(cur.runs)):
            for j, o in enumerate(cur.runs[i]):
                w = o.split()
                if w[0] in ("flip", "raw", "flipd", "rawd", "u53") and int(w[1]) > 1 and i > 0 and j < cur.runs[i].index("mark"):
                    for n in (1, int(w[1]) // 2):
                        if n < int(w[1]) and attempt(cur.runs[:i] + [cur.runs[i][:j] + ["%s %d" % (w[0], n)] + cur.runs[i][j + 1:]] + cur.runs[i + 1:]):
                            changed = True
                            break
    return cur


MEMO_BASES = {"cmb_random_geometric": [0.125, 0.3, 0.75]}
MEMO_BASES_DEFAULT = [2.5, 1.0, 1.21, 3.0, 7.0, 0.5]
# the documented domain of the memo key (keys outside it are not inputs of the property)
MEMO_VALID = {"cmb_random_geometric": lambda p: 0.0 < p <= 1.0, "cmb_random_std_gamma": lambda a: a > 0.34}
LEAN_FN = {"sqrt": "Float.sqrt", "log": "Float.log", "fabs": "Float.abs", "exp": "Float.exp", "floor": "Float.floor",
           "ceil": "Float.ceil", "log2": "Float.log2", "log10": "Float.log10", "cbrt": "Float.cbrt"}


def lean_memo_disagreements(memo_meta, limit=80):
    """When a memo theorem of Props/C15.lean fails: evaluate the REGENERATED memo prologues in Lean with IEEE doubles
    (FloatOps Float: literals by value, libm functions by name) on a grid of keys — equal, one ulp apart, a few 1e-10
    apart, 1e-6 apart, far apart — and list the pairs (x, y) for which the step lemma of the theorem is false:
        prologue x (prologue y init)  differs (bit patterns) from  prologue x init.
    Returns {function: [(x, y), ...]} with exact doubles, and the Lean output."""
    import struct
    gen = open(os.path.join(vlib.GEN, "Rng.lean")).read()
    lits = sorted(set(re.findall(r'o\.lit "([^"]*)"', gen)))
    fns = sorted(set(re.findall(r'o\.fn "([^"]*)"', gen)))

    def lean_float(v):
        return "(Float.ofBits %d)" % struct.unpack("<Q", struct.pack("<d", float(v)))[0]
    text = ["import CimbaModel.Generated.Rng", "open CimbaModel.Generated CimbaModel.Rng", "",
            "def litF : String → Float"] + ['  | "%s" => %s' % (l, lean_float(l)) for l in lits] + ["  | _ => 0.0 / 0.0", "",
            "def fnF : String → Float → Float"] + ['  | "%s" => %s' % (f, LEAN_FN[f]) for f in fns if f in LEAN_FN] + ["  | _ => fun _ => 0.0 / 0.0", "",
            "def ieee : FloatOps Float := { lit := litF, add := (· + ·), sub := (· - ·), mul := (· * ·), div := (· / ·), neg := fun a => -a, fn := fnF, "
            "ne := fun a b => a != b, eq := fun a b => a == b, lt := fun a b => decide (a < b), le := fun a b => decide (a ≤ b), "
            "gt := fun a b => decide (a > b), ge := fun a b => decide (a ≥ b) }", ""]
    wanted = []
    for m in memo_meta:
        if len(m["params"]) != 1:
            continue
        f = m["function"]
        keys = []
        # the literals the prologue itself compares against are the boundaries of its paths: keys at and next to them first
        body = gen[gen.index("def %s_prologue" % f):]
        body = body[:body.index("\n\n")] if "\n\n" in body else body
        for l in dict.fromkeys(re.findall(r'o\.lit "([^"]*)"', body)):
            try:
                v = float(l)
            except ValueError:
                continue
            keys += [v, ulp_step(v, -1) if v else v, ulp_step(v, 1) if v else v]
        for b in MEMO_BASES.get(f, MEMO_BASES_DEFAULT):
            keys += [b, b + 4e-10, b - 4e-10, b + 9e-10, ulp_step(b, 1), ulp_step(b, -1), b + 1e-6]
        valid = MEMO_VALID.get(f, lambda x: x > 0.34)
        keys = [k for k in dict.fromkeys(keys) if valid(k)]
        wanted.append(f)
        same = " && ".join("a.%s.toBits == b.%s.toBits" % (n, n) for n in m["statics"])
        text += ["def keys_%s : List Float := [%s]" % (f, ", ".join(lean_float(k) for k in keys)),
                 "def same_%s (a b : %s_Memo Float) : Bool := %s" % (f, f, same),
                 "#eval (keys_%s.flatMap fun x => (keys_%s.filter fun y => !same_%s (%s_prologue ieee x (%s_prologue ieee y (%s_Memo.init ieee))) "
                 "(%s_prologue ieee x (%s_Memo.init ieee))).map fun y => (\"%s\", x.toBits, y.toBits)).take %d" % (
                     f, f, f, f, f, f, f, f, f, limit), ""]
    if not wanted:
        return {}, ""
    rc, out = vlib.lean_run_file("\n".join(text) + "\n")
    res = {}
    for m in re.finditer(r'\("(\w+)", (\d+), (\d+)\)', out):
        x = struct.unpack("<d", struct.pack("<Q", int(m.group(2))))[0]
        y = struct.unpack("<d", struct.pack("<Q", int(m.group(3))))[0]
        res.setdefault(m.group(1), []).append((x, y))
    for f in res:                                   # a spread over the keys x: at most 3 partners each, 12 pairs
        per, pick = {}, []
        for x, y in res[f]:
            if per.get(x, 0) < 3:
                per[x] = per.get(x, 0) + 1
                pick.append((x, y))
        res[f] = pick[:12]
    return res, out


def memo_scenarios(fname, pairs, seed=42):
    """Seed-alone scenarios steered at a memo: for each (x, y) the memoising function `fname` is called with key y before
    seeding and with key x after seeding (run 1), against a thread that only seeds and calls it with x (run 0)."""
    ops = MEMO_OPS.get(fname)
    if ops is None:
        short = fname.replace("cmb_random_", "")
        ops = [(short, lambda x: [x])] if any(d[0] == short for d in DISTS) else []
    out = []
    for x, y in pairs:
        for name, mk in ops:
            call = "dist %s 5 %s" % (name, " ".join(fmt(p) for p in mk(x)))
            hist = "dist %s 1 %s" % (name, " ".join(fmt(p) for p in mk(y)))
            for mode in ("seq", "main"):
                out.append(Scenario("seedalone", mode, [["seed %d" % seed, "mark", call], [hist, "seed %d" % seed, "mark", call]]))
    return out


def corpus():
    out = []
    if os.path.isdir(CORPUS):
        for f in sorted(os.listdir(CORPUS)):
            if f.endswith(".txt"):
                out.append((f, parse(open(os.path.join(CORPUS, f)).read())))
    return out
