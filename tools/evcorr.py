"""Observable-log correspondence between the real event kernel (harness/evdrv.c) and the Lean model (evmain),
and Monitor.C01 (evmain --monitor: the model in follow mode judging the implementation's log)."""
import hashlib
import os
import random
import tempfile

import gen_ev
import vlib

CORPUS = os.path.join(vlib.VERIF, "corpus", "ev")


def run_pair(c_exe, lean_exe, lines):
    txt = "\n".join(lines) + "\n"
    rc1, o1, e1 = vlib.run_driver(c_exe, txt, timeout=120)
    rc2, o2, e2 = vlib.run_driver(lean_exe, txt, timeout=120)
    return (rc1, o1.splitlines(), e1), (rc2, o2.splitlines(), e2)


def compare(c_exe, lean_exe, lines):
    (rc1, a, e1), (rc2, b, e2) = run_pair(c_exe, lean_exe, lines)
    d = vlib.first_diff(a, b)
    if d is None and rc1 == 0 and rc2 == 0:
        return None
    return {"index": d, "impl": a[d] if d is not None and d < len(a) else "<none> rc=%d" % rc1,
            "model": b[d] if d is not None and d < len(b) else "<none> rc=%d" % rc2,
            "impl_rc": rc1, "impl_err": e1[-3000:], "impl_out": a}


def monitor(lean_exe, lines, impl_out, impl_rc=0):
    """Monitor.C01 on the implementation's log. Returns (ok, message)."""
    if impl_rc != 0:
        return False, "implementation terminated abnormally (rc=%d) after %d log lines" % (impl_rc, len(impl_out))
    with tempfile.NamedTemporaryFile("w", suffix=".log", dir=vlib.BUILD, delete=False) as f:
        f.write("\n".join(impl_out) + "\n")
        path = f.name
    try:
        rc, o, e = vlib.run_driver(lean_exe, "\n".join(lines) + "\n", args=["--monitor", path])
    finally:
        os.unlink(path)
    o = o.strip()
    return o.startswith("ok"), o


def parse(lines):
    """script -> (start, {act: [ops]}, [main ops])"""
    start, acts, main, i = "start 0", {}, [], 0
    while i < len(lines):
        w = lines[i].split()
        if w[0] == "start":
            start = lines[i]
            i += 1
        elif w[0] == "act":
            n = int(w[2])
            acts[int(w[1])] = lines[i + 1:i + 1 + n]
            i += 1 + n
        elif w[0] == "main":
            n = int(w[1])
            main = lines[i + 1:i + 1 + n]
            i += 1 + n
        else:
            i += 1
    return start, acts, main


def unparse(start, acts, main):
    out = [start]
    for a in sorted(acts):
        out.append("act %d %d" % (a, len(acts[a])))
        out += acts[a]
    out.append("main %d" % len(main))
    out += main
    return out


def shrink(pred, lines, budget=250):
    """Greedy shrinking of a script while pred(script) stays true."""
    start, acts, main = parse(lines)
    tries = [0]

    def ok(s, a, m):
        tries[0] += 1
        return pred(unparse(s, a, m))

    def shrink_list(get, put):
        cur = get()
        chunk = max(1, len(cur) // 2)
        while chunk >= 1 and tries[0] < budget:
            i, reduced = 0, False
            while i < len(cur) and tries[0] < budget:
                cand = cur[:i] + cur[i + chunk:]
                put(cand)
                if ok(start, acts, main_ref[0]):
                    cur = cand
                    reduced = True
                else:
                    put(cur)
                    i += chunk
            if not reduced:
                chunk //= 2
        put(cur)

    main_ref = [main]
    shrink_list(lambda: main_ref[0], lambda v: main_ref.__setitem__(0, v))
    for a in sorted(acts):
        shrink_list(lambda a=a: acts[a], lambda v, a=a: acts.__setitem__(a, v))
    if tries[0] < budget and start != "start 0" and ok("start 0", acts, main_ref[0]):
        start = "start 0"
    return unparse(start, acts, main_ref[0])


def corpus():
    out = []
    if os.path.isdir(CORPUS):
        for f in sorted(os.listdir(CORPUS)):
            if f.endswith(".txt"):
                out.append((f, [l.strip() for l in open(os.path.join(CORPUS, f)) if l.strip() and not l.startswith("#")]))
    return out


def worker(args):
    seed, n, size, c_exe, lean_exe = args
    rng = random.Random(seed)
    stats, bad = [], []
    for _ in range(n):
        lines, st = gen_ev.gen_script(rng, rng.choice([20, 60, size]))
        d = compare(c_exe, lean_exe, lines)
        st["sig"] = hashlib.sha256("\n".join(lines).encode()).hexdigest()[:16]
        stats.append(st)
        if d is not None:
            bad.append((lines, d))
            if len(bad) >= 2:
                break
        else:
            pass
    return stats, bad


def run_generated(seed, total, size, c_exe, lean_exe):
    import multiprocessing
    per = max(1, total // vlib.NPROC)
    jobs = [(seed * 7919 + w, per, size, c_exe, lean_exe) for w in range(vlib.NPROC)]
    with multiprocessing.Pool(vlib.NPROC) as pool:
        res = pool.map(worker, jobs)
    return [s for r in res for s in r[0]], [b for r in res for b in r[1]]
