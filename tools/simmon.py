"""Property monitors over process-layer logs (C04-C09, C11-C14).

These are *search tools*: when the model/implementation correspondence breaks they decide, from the implementation's
own log, whether a property clause is visibly violated (a confirmed failing input) or not (no-failing-input-found).
They are deliberately conservative: a clause is only evaluated where the log determines it without ambiguity, so a
monitor never fires on a behaviour the property allows. They are not the proof (the theorems are in lean/CimbaModel/Props).

analyze(scenario_lines, log_lines) -> {property id: [messages]}
"""
import collections
import re

BLOCKING = {"hold", "yield", "waitp", "waite", "acq", "pre", "pacq", "ppre", "bget", "bput", "oget", "oput", "kget", "kput", "cwait"}


def parse_scenario(lines):
    objs = {"res": 0, "pool": [], "buf": [], "oq": [], "pq": [], "cond": 0, "subs": []}
    prio, i = [], 0
    while i < len(lines):
        w = lines[i].split()
        if w[0] == "res":
            objs["res"] += 1
        elif w[0] in ("pool", "buf", "oq", "pq"):
            objs[w[0]].append(2 ** 64 - 1 if w[1].startswith("U") else int(w[1]))
        elif w[0] == "cond":
            objs["cond"] += 1
        elif w[0] == "sub":
            objs["subs"].append(tuple(int(x) for x in w[1:5]))
        elif w[0] == "proc":
            prio.append(int(w[1]))
            i += int(w[3])
        i += 1
    return objs, prio


def analyze(scenario, log):
    objs, prio = parse_scenario(scenario)
    np_ = len(prio)
    V = collections.defaultdict(list)

    def bad(prop, msg):
        if len(V[prop]) < 5:
            V[prop].append(msg)

    open_call = {}                     # pid -> (pc, t0, words)
    ended = {}                         # pid -> (time, how)
    exit_val = {}
    holder = [None] * objs["res"]      # tracked resource holders
    res_changes = [[] for _ in range(objs["res"])]   # (time, inuse) after each change
    rec = {}                           # (kind, idx) -> list of [tstart, tstop or None]
    oq_puts = [[] for _ in objs["oq"]]
    oq_gets = [[] for _ in objs["oq"]]
    oq_changes = [[] for _ in objs["oq"]]
    pq_entries = [dict() for _ in objs["pq"]]
    pq_changes = [[] for _ in objs["pq"]]
    pq_unknown = [False for _ in objs["pq"]]
    pool_exp = [collections.defaultdict(int) for _ in objs["pool"]]     # expected holdings by the property's accounting
    pool_exp_unknown = [set() for _ in objs["pool"]]
    ppre_times = [set() for _ in objs["pool"]]
    pool_held = [collections.defaultdict(int) for _ in objs["pool"]]
    pool_changes = [[] for _ in objs["pool"]]
    pool_unknown = [False for _ in objs["pool"]]
    buf_traj_unknown = [False for _ in objs["buf"]]
    buf_changes = [[] for _ in objs["buf"]]
    buf_unknown = [False for _ in objs["buf"]]
    buf_put = [0 for _ in objs["buf"]]
    buf_got = [0 for _ in objs["buf"]]
    timers = collections.defaultdict(list)   # pid -> list of dict(due, sig, alive)
    notif = collections.defaultdict(list)    # pid -> list of (time, sig, kind)
    believes = collections.defaultdict(set)   # pid -> resources it acquired and was never told it lost (every return since was SUCCESS)
    pqvar = {}                                # (pid, variable) -> priority-queue handle last stored there
    ev_time, ev_wait = {}, {}                 # (owner, variable) -> time of the user event whose handle is there; pid -> awaited time
    ended_holding_pool = [False] * 64
    wsums = {}
    any_res_preempt = any(l.startswith("c ") and len(l.split()) > 4 and l.split()[4] == "pre" for l in log)
    intr_used = set()                         # (pid, index into notif[pid]) of interrupts already matched to a return
    dump = {}
    hist = {}
    now_final = None
    events_final = None
    waitp_calls = []                   # (waiter, target, t0, ret or None)
    prio_hist = {q: [(-1, prio[q])] for q in range(np_)}     # pid -> [(log index, priority)]
    instant_start = [0]
    ppre_active = {}                   # pid -> (pool, call log index, return log index or None)
    res_waits = []                     # [pid, r, t0, call_idx, ret_idx or None, ret_time or None, ret_val, immediate]
    prio_changed = set()
    end_times = collections.defaultdict(list)
    end_events = []                    # (pid, time, log index)
    cur_li = [0]
    csigs = []                         # (cond, time, log index, [(waiter pid, predicate true?, determinable)])
    fwd_expect = []                    # (cond, waiter, time, log index, what): a forwarded signal must wake this waiter
    flags_now = collections.defaultdict(int)
    dequeued = set()
    prev_call = [None]                 # pid whose call line was the previous log line (an immediate return follows directly)
    varh = {}                          # (pid or -1 for shared, var) -> handle string
    started = set()
    pc_expect = {}                     # pid -> (time, log index) of a pattern cancel of the user events that ran while pid was in waite
    capped = [False]
    hold_cleared = set()               # processes whose timers were cleared by ANOTHER process (tclearo) while they were in hold: the
                                       # hold's own wake-up is a timer of the process (cmb_process_hold arms it with timer_add), so it is gone

    def cond_pred(qcmd):
        """(predicate true?, determinable from the log?) of a waiter's `cwait c kind a b`, in the state the log has reached"""
        kd, xa, xb = int(qcmd[2]), int(qcmd[3]), int(qcmd[4])
        if kd == 0:
            return flags_now[xa] != 0, True
        if kd == 1 and xa < len(holder):
            return holder[xa] is None, True
        if kd == 2 and xa < len(pool_held):
            busy = any(oc[2][0] in ("pacq", "ppre") and int(oc[2][1]) == xa for oc in open_call.values())
            if pool_unknown[xa] or busy:
                return False, False
            return objs["pool"][xa] - sum(pool_held[xa].values()) >= xb, True
        if kd == 3 and xa < len(buf_put):
            busy = any(oc[2][0] in ("bget", "bput") and int(oc[2][1]) == xa for oc in open_call.values())
            if buf_unknown[xa] or busy:
                return False, False
            return buf_put[xa] - buf_got[xa] >= xb, True
        if kd == 4 and xa < len(oq_puts):
            return len(oq_puts[xa]) - len(oq_gets[xa]) >= xb, True
        return False, False

    def guard_signalled(kind, idx, which, t, what):
        # C13: every condition observing this guard is signalled (cmb_condition_signal semantics): EVERY waiter whose predicate is
        # true now (and determinable from the log) is woken in this instant, wherever it stands in the condition's list
        direct = [c for (c, kd, ix, wh) in objs["subs"] if kd == kind and ix == idx and (wh == which or kind in (0, 1))]
        reach, todo = [], list(direct)
        while todo:                                  # a condition observing a condition (kind 5) gets the signal passed on
            c = todo.pop()
            if c in reach:
                continue
            reach.append(c)
            todo += [c2 for (c2, kd, ix, wh) in objs["subs"] if kd == 5 and ix == c and c2 != c]
        for c in reach:
            if True:
                for q, oc in open_call.items():
                    if oc[2][0] == "cwait" and int(oc[2][1]) == c and q not in dequeued and q not in ended:
                        sat, known = cond_pred(oc[2])
                        if known and sat:
                            fwd_expect.append((c, q, t, cur_li[0], what))

    def on_res_freed(r, t):
        guard_signalled(0, r, 0, t, "resource %d was released" % r)

    def proc_ended(q, t, how):
        if q in ended:
            return
        ended[q] = (t, how)
        pe_ = pc_expect.pop(q, None)
        if pe_ is not None and pe_[0] != t:
            bad("C04", "process %d was waiting (waite) for a user event when all user events were cancelled by pattern at t=%d; it was "
                "not resumed then (it ended at t=%d without having returned)" % (q, pe_[0], t))
        believes[q].clear()
        end_times[q].append(t)
        end_events.append((q, t, cur_li[0]))
        for rw in res_waits:
            if rw[0] == q and rw[4] is None:
                rw[4], rw[5], rw[6] = 10 ** 9, t, -99
        # a process that ends drops its holdings one after the other (newest first), signalling each guard in turn; the log does
        # not show the intermediate states, so the forwarded-signal clause is applied only when there is a single holding
        n_hold = sum(1 for r in range(len(holder)) if holder[r] == q) + \
            sum(1 for pl in range(len(pool_exp)) if pool_exp[pl][q] != 0 or q in pool_exp_unknown[pl])
        for r in range(len(holder)):
            if holder[r] == q:
                holder[r] = None
                res_changes[r].append((t, 0))
                if n_hold == 1:
                    on_res_freed(r, t)
        for pl in range(len(pool_exp)):
            if pool_exp[pl][q] != 0 or q in pool_exp_unknown[pl]:
                ended_holding_pool[pl] = True        # a process ended while (possibly) holding units of this pool
            pool_exp[pl][q] = 0
            pool_exp_unknown[pl].discard(q)
        for pl in range(len(pool_held)):
            if pool_held[pl].get(q, 0) > 0:
                pool_held[pl][q] = 0
                pool_changes[pl].append((t, sum(pool_held[pl].values())))
            if q in open_call and open_call[q][2][0] in ("pacq", "ppre") and int(open_call[q][2][1]) == pl:
                pool_unknown[pl] = True
        timers[q] = []
        hold_cleared.discard(q)
        oc_ = open_call.pop(q, None)
        if oc_ is not None and oc_[2][0] in ("bget", "bput") and int(oc_[2][1]) < len(buf_unknown):
            buf_unknown[int(oc_[2][1])] = True   # partial transfers of a call that never returns are not in the log
            buf_traj_unknown[int(oc_[2][1])] = True

    instant = [-10 ** 18]
    freed_mark = [0] * objs["res"]
    freed_at = [-1] * objs["res"]         # log index at which the resource last became free
    call_idx = {}
    for li, line in enumerate(log):
        for r_ in range(len(holder)):
            if holder[r_] is None and res_changes[r_] and freed_mark[r_] != len(res_changes[r_]):
                freed_mark[r_] = len(res_changes[r_])
                if res_changes[r_][-1][1] == 0:
                    freed_at[r_] = li
        cur_li[0] = li
        w = line.split()
        if not w:
            continue
        k = w[0]
        # ---- C08: end of an instant — a resource freed during it is not left free while somebody who was already waiting still waits
        if k in ("c", "r", "s", "e", "x"):
            tline = int(w[3]) if k in ("c", "r", "s") else int(w[2])
            # ---- C01: the clock never runs backwards
            if tline < instant[0]:
                bad("C01", "the clock went backwards: an action at log line %d ran at t=%d after one at t=%d" % (li, tline, instant[0]))
            if tline > instant[0]:
                for r_ in range(len(holder)):
                    if holder[r_] is None and freed_at[r_] >= 0:
                        for q_, (qpc_, qt0_, qcmd_) in open_call.items():
                            if qcmd_[0] in ("acq", "pre") and int(qcmd_[1]) == r_ and call_idx.get(q_, 10 ** 9) < freed_at[r_] \
                                    and q_ not in ended:
                                bad("C08", "resource %d became free at t=%d while process %d was waiting for it (since t=%d); the instant "
                                    "ended with the resource free and the process still blocked" % (r_, instant[0], q_, qt0_))
                instant[0] = tline
                instant_start[0] = li
        elif k == "Q":
            pass
        if k == "c":
            call_idx[int(w[1])] = li
        immediate = (k == "r" and prev_call[0] == int(w[1]))
        prev_call[0] = int(w[1]) if k == "c" else None
        if k == "c":
            pid, pc, t = int(w[1]), int(w[2]), int(w[3])
            cmd = w[4:]
            if cmd[0] == "waite":
                ev_wait[pid] = ev_time.get((pid if int(cmd[1]) < 8 else -1, int(cmd[1])))
            if pid in ended and pc == 0:
                del ended[pid]         # restarted
            started.add(pid)
            open_call[pid] = (pc, t, cmd)
            if cmd[0] == "waitp":
                waitp_calls.append([pid, int(cmd[1]), t, None, li])
            if cmd[0] in ("acq", "pre") and int(cmd[1]) < len(holder):
                res_waits.append([pid, int(cmd[1]), t, li, None, None, None, False])
            if cmd[0] == "ppre" and int(cmd[1]) < len(ppre_times):
                ppre_active[pid] = (int(cmd[1]), li, None)
                ppre_times[int(cmd[1])].add(t)
                # victims are not named in the log: every other process's holding of this pool becomes undetermined
                for q in range(np_):
                    if q != pid:
                        pool_exp_unknown[int(cmd[1])].add(q)
            if cmd[0] == "stop" and int(cmd[1]) != pid and 0 <= int(cmd[1]) < np_:
                q = int(cmd[1])
                # stop of a running process ends it at once (recorded when the call returns)
            continue
        if k == "s":
            oc_s = open_call.pop(int(w[1]), None)
            if oc_s is not None and oc_s[2][0] == "rel" and int(oc_s[2][1]) in believes[int(w[1])]:
                # the driver skips a release when the library says the caller is not the holder
                bad("C05", "process %d acquired resource %d, every call of it since returned SUCCESS (no PREEMPTED, interrupt or other "
                    "signal told it otherwise), yet at t=%s the library says it does not hold the resource: a program releasing what it "
                    "was granted would release somebody else's holding" % (int(w[1]), int(oc_s[2][1]), w[3]))
            res_waits[:] = [rw for rw in res_waits if not (rw[0] == int(w[1]) and rw[4] is None)]
            continue
        if k == "e":
            pid, t = int(w[1]), int(w[2])
            started.add(pid)
            if pid in ended:
                del ended[pid]
            open_call.pop(pid, None)
            exit_val[pid] = 0
            proc_ended(pid, t, "return")
            continue
        if k == "x":
            pid, t = int(w[1]), int(w[2])
            oc = open_call.pop(pid, None)
            if w[3] != "stop":
                exit_val[pid] = int(w[3])
            elif oc is not None and oc[2][0] == "stop":
                exit_val[pid] = int(oc[2][2])
            proc_ended(pid, t, "exit" if w[3] != "stop" else "stop-self")
            continue
        if k == "r":
            pid, pc, t, val = int(w[1]), int(w[2]), int(w[3]), int(w[4])
            extra = dict(x.split("=") for x in w[5:] if "=" in x)
            oc = open_call.pop(pid, None)
            if oc is None or oc[0] != pc:
                continue
            t0, cmd = oc[1], oc[2]
            immediate = immediate and t == t0
            op = cmd[0]
            if op in BLOCKING:
                hold_cleared.discard(pid)
            a = [int(x) for x in cmd[1:]]
            if val != 0:
                believes[pid].clear()          # any other signal is the cue to look at one's holdings again
            elif op in ("acq", "pre") and a[0] < len(holder):
                believes[pid].add(a[0])
            elif op == "rel":
                believes[pid].discard(a[0])
            if op in ("acq", "pre"):
                for rw in res_waits:
                    if rw[0] == pid and rw[4] is None and rw[2] == t0 and rw[1] == a[0]:
                        rw[4], rw[5], rw[6], rw[7] = li, t, val, immediate
            if op == "prio":
                prio_changed.add(a[0])
                if 0 <= a[0] < np_:
                    prio_hist[a[0]].append((li, a[1]))
            if op == "ppre" and pid in ppre_active:
                ppre_active[pid] = (ppre_active[pid][0], ppre_active[pid][1], li)
            # ---------------- C07: pool preemption only takes from strictly lower priority ----------------
            if val == -1 and op in BLOCKING and (objs["res"] == 0 or not any_res_preempt):
                def pr_range(q, lo):
                    vals = [v for (i, v) in prio_hist[q] if i >= lo]
                    before = [v for (i, v) in prio_hist[q] if i < lo]
                    return set(vals + before[-1:])
                muggers = [m for m, (pl_, ci_, ri_) in ppre_active.items()
                           if m != pid and ci_ < li and (ri_ is None or ri_ >= instant_start[0])]
                if muggers:
                    mine = pr_range(pid, instant_start[0])
                    if all(max(pr_range(m, instant_start[0])) <= min(mine) for m in muggers):
                        bad("C07", "process %d (priority %s) received the preempted signal at t=%d although every process that was "
                            "preempting from the pool then has a priority that is not higher (%s)" %
                            (pid, sorted(mine), t, {m: sorted(pr_range(m, instant_start[0])) for m in muggers}))
            # ---------------- C04 ----------------
            if op == "hold" and val == 0 and t != t0 + a[0]:
                bad("C04", "hold %d issued by process %d at t=%d returned SUCCESS at t=%d (expected t=%d)" % (a[0], pid, t0, t, t0 + a[0]))
            if op == "yield" and val == 0:
                bad("C04", "yield of process %d returned SUCCESS at t=%d although nothing addressed to it carries that value (stale wake-up)" % (pid, t))
            if op in BLOCKING and val != 0 and op not in ("kpos",):
                ok = any(tt == t and s == val for (tt, s, _) in notif[pid])
                ok = ok or any(tm["due"] == t and tm["sig"] == val for tm in timers[pid])
                if val == -1:
                    ok = True    # preemption: attributed below by the resource / pool clauses
                if val == -3 and op == "waitp":
                    ok = True
                if val == -4:
                    ok = ok or any(tt == t and kind in ("ccancel", "ucancel", "upcancel") for (tt, s, kind) in notif[pid])
                if not ok:
                    bad("C04", "%s of process %d returned %d at t=%d but no interrupt, resume, timer, preemption, cancellation or stop "
                        "with that value was addressed to it at that time" % (op, pid, val, t))
            if op in BLOCKING:
                for tm in timers[pid]:
                    if tm.get("sure") and t0 <= tm["due"] < t:
                        bad("C04", "process %d stayed in %s from t=%d to t=%d although its armed timer (signal %d) was due at t=%d: the timer "
                            "never fired" % (pid, op, t0, t, tm["sig"], tm["due"]))
            if val != 0 and op in BLOCKING:
                # an interrupt clears the timers of the process; a fired timer is consumed
                fired = [tm for tm in timers[pid] if tm["due"] == t and tm["sig"] == val]
                intrs = [ix for ix, (tt, s, kind) in enumerate(notif[pid])
                         if tt == t and kind == "intr" and s == val and (pid, ix) not in intr_used]
                if val == -1:
                    # a preemption clears every timer of the process: a pool preemption when its interrupt is dispatched (now), a
                    # resource preemption already inside the preemptor's call (handled there) - so a timer that ANOTHER process armed
                    # for this one since (taddo) may or may not have survived: kept as a possible cause, no longer as an obligation
                    timers[pid] = [dict(tm, sure=False) for tm in timers[pid] if tm.get("other")]
                elif intrs and fired:
                    # an interrupt and a timer with this value are both due now: which one this return consumed is not
                    # determined by the log (an interrupt would have cleared the timers): keep both explanations open
                    for tm in timers[pid]:
                        tm["sure"] = False
                elif intrs:
                    intr_used.add((pid, intrs[0]))    # one interrupt explains one return
                    timers[pid] = []          # an interrupt clears every timer of the process
                elif fired:
                    timers[pid].remove(fired[0])
                else:
                    for tm in timers[pid]:
                        tm["sure"] = False
            if op == "waite":
                pe_ = pc_expect.pop(pid, None)
                if pe_ is not None and pe_[0] != t:
                    bad("C04", "process %d was waiting (waite) for a user event when all user events were cancelled by pattern at t=%d "
                        "(cmb_event_pattern_cancel notifies the waiters of every event it cancels, like cmb_event_cancel); it was resumed "
                        "only at t=%d (value %d)" % (pid, pe_[0], t, val))
            if op == "usched":
                ev_time[(pid if a[0] < 8 else -1, a[0])] = t + a[1]
            if op == "waite" and val == 0:
                due = ev_wait.pop(pid, None)
                if due is not None and due != t:
                    bad("C01", "process %d waited for an event scheduled for t=%d and was resumed with SUCCESS at t=%d" % (pid, due, t))
            if op == "waitp":
                for wc in waitp_calls:
                    if wc[0] == pid and wc[3] is None and wc[2] == t0:
                        wc[3] = (t, val, li)
                q = a[0]
                if val == 0 and 0 <= q < np_:
                    if not end_times[q]:
                        bad("C04", "wait_process(%d) by process %d returned SUCCESS at t=%d but process %d has not ended" % (q, pid, t, q))
                    elif not any(te == t or (te <= t0 and t == t0) for te in end_times[q]):
                        bad("C04", "wait_process(%d) by process %d returned SUCCESS at t=%d but process %d ended at t=%s" % (q, pid, t, q, end_times[q]))
            if op in BLOCKING:
                dequeued.discard(pid)
            if op in ("ccancel", "cremove") and val == 1:
                dequeued.add(a[1])        # taken out of the condition's queue (its wake-up, if any, is pending)
            if op == "flag":
                flags_now[a[0]] = a[1]
            if op == "cwait" and val == 0 and not any(c == a[0] for (c, kd, ix, wh) in objs["subs"]):
                # a condition that observes nothing is only ever signalled explicitly
                if not any(c == a[0] and tt == t and ci_ > call_idx.get(pid, -1) for (c, tt, ci_, ri_, ws_, v_) in csigs):
                    bad("C13", "process %d returned from its wait on condition %d with SUCCESS at t=%d although the condition was not "
                        "signalled at that time after the wait began (it observes nothing)" % (pid, a[0], t))
            if op == "csig":
                ws = []
                for q, (qpc, qt0, qcmd) in open_call.items():
                    if qcmd[0] == "cwait" and int(qcmd[1]) == a[0] and q not in dequeued:
                        kd, xa, xb = int(qcmd[2]), int(qcmd[3]), int(qcmd[4])
                        if kd == 0:
                            ws.append((q, flags_now[xa] != 0, True))
                        elif kd == 1 and xa < len(holder):
                            ws.append((q, holder[xa] is None, True))
                        elif kd == 4 and xa < len(oq_puts):
                            ws.append((q, len(oq_puts[xa]) - len(oq_gets[xa]) >= xb, True))
                        else:
                            ws.append((q, False, False))
                csigs.append((a[0], t, call_idx.get(pid, li), li, ws, val))
            # ---------------- bookkeeping of notifications ----------------
            if op == "intr":
                notif[a[0]].append((t, a[1], "intr"))
            elif op == "resume":
                notif[a[0]].append((t, a[1], "resume"))
            elif op == "ccancel" and val == 1:
                notif[a[1]].append((t, -4, "ccancel"))
            elif op == "ucancel" and val == 1:
                for q in range(np_):
                    notif[q].append((t, -4, "ucancel"))
            elif op == "upcancel":
                if val >= 1:
                    for q in range(np_):
                        notif[q].append((t, -4, "upcancel"))
                # whoever is suspended in waite now waits for a pending user event (the driver skips waite on anything else), or its
                # wake-up is already pending at this time: either way it is resumed (or ended) in this very instant
                for q, (qpc, qt0, qcmd) in open_call.items():
                    if q != pid and qcmd[0] == "waite" and int(qcmd[1]) >= 8 and q not in ended and q not in pc_expect:
                        pc_expect[q] = (t, li)
            elif op in ("tadd", "tset"):
                if op == "tset":
                    timers[pid] = []
                timers[pid].append({"due": t + a[1], "sig": a[2], "h": extra.get("h"), "sure": True, "var": a[0]})
                varh[(pid if a[0] < 8 else -1, a[0])] = extra.get("h")
            elif op == "tclear":
                timers[pid] = []
            elif op == "taddo" and 0 <= a[0] < np_:
                # cmb_process_timer_add on ANOTHER process (returned, i.e. not skipped: the target is started and unfinished)
                timers[a[0]].append({"due": t + a[1], "sig": a[2], "h": extra.get("h"), "sure": True, "var": None, "other": a[0] != pid})
            elif op == "tclearo" and 0 <= a[0] < np_:
                timers[a[0]] = []
                if a[0] != pid and a[0] in open_call and open_call[a[0]][2][0] == "hold":
                    hold_cleared.add(a[0])
            elif op == "tcancel":
                # cancels the timer whose handle is in the variable (= the most recent handle stored there)
                hv = varh.get((pid if a[0] < 8 else -1, a[0]))
                timers[pid] = [tm for tm in timers[pid] if tm["h"] != hv]
            elif op == "stop" and 0 <= a[0] < np_ and a[0] != pid:
                if a[0] in started and a[0] not in ended:
                    exit_val[a[0]] = a[1]
                    proc_ended(a[0], t, "stopped")
            elif op == "start":
                pass
            # ---------------- C05 ----------------
            if op in ("acq", "pre") and val == 0 and a[0] < len(holder):
                r = a[0]
                h = holder[r]
                if h is not None and h != pid and h not in ended:
                    if op == "acq" or (op == "pre" and t != t0):
                        bad("C05", "process %d acquired resource %d at t=%d while process %d still holds it (two holders)" % (pid, r, t, h))
                    else:
                        timers[h] = []      # the victim of a preemption loses its timers (cancel_awaiteds)
                        notif[h].append((t, -1, "preempt"))
                        dequeued.add(h)     # ... and is taken out of any waiting list it is in (its PREEMPTED wake-up is pending)
                if h is None:
                    res_changes[r].append((t, 1))
                holder[r] = pid
            elif op == "rel" and a[0] < len(holder):
                if holder[a[0]] == pid:
                    holder[a[0]] = None
                    res_changes[a[0]].append((t, 0))
                    on_res_freed(a[0], t)
            # ---------------- C07 accounting ----------------
            if op in ("pacq", "ppre") and a[0] < len(pool_exp):
                if val == 0:
                    pool_exp[a[0]][pid] += a[1]          # success: exactly n more
                    if pid not in pool_exp_unknown[a[0]] and pool_exp[a[0]][pid] > objs["pool"][a[0]]:
                        bad("C07", "pool %d: %s of %d units by process %d returned SUCCESS at t=%d although the process then holds %d "
                            "units by its own successful acquisitions and releases, more than the capacity %d"
                            % (a[0], op, a[1], pid, t, pool_exp[a[0]][pid], objs["pool"][a[0]]))
                # any other signal: holds exactly what it held before the call (unchanged) ...
                if val == -1 and t in ppre_times[a[0]]:
                    # ... unless it was itself mugged by a preempting pool acquisition in this instant: then it holds nothing
                    pool_exp_unknown[a[0]].add(pid)
            if op == "ppre" and a[0] < len(pool_exp):
                # victims are not named in the log: every other process's holding of this pool becomes undetermined
                for q in range(np_):
                    if q != pid:
                        pool_exp_unknown[a[0]].add(q)
            if op == "prel" and a[0] < len(pool_exp):
                pool_exp[a[0]][pid] -= a[1]
            if val == -1 and op in BLOCKING and op not in ("pacq", "ppre"):
                pass
            # ---------------- pools (for C14; only while the log determines the trajectory) ----------------
            if op in ("pacq", "ppre") and a[0] < len(pool_held):
                if op == "ppre" or not immediate or val != 0:
                    pool_unknown[a[0]] = True
                else:
                    pool_held[a[0]][pid] += a[1]
                    pool_changes[a[0]].append((t, sum(pool_held[a[0]].values())))
            if op == "prel" and a[0] < len(pool_held):
                pool_held[a[0]][pid] -= a[1]
                pool_changes[a[0]].append((t, sum(pool_held[a[0]].values())))
            # ---------------- C11 ----------------
            if op in ("bput", "bget") and a[0] < len(buf_put):
                if not immediate:
                    buf_traj_unknown[a[0]] = True     # partial transfers inside a blocked call happen at times the log does not show
            if op == "bput" and a[0] < len(buf_put):
                left = int(extra.get("amt", 0))
                buf_put[a[0]] += a[1] - left
                if a[1] - left > 0:
                    buf_changes[a[0]].append((t, buf_put[a[0]] - buf_got[a[0]]))
                if val == 0 and left != 0:
                    bad("C11", "buffer put of %d by process %d returned SUCCESS with %d not transferred" % (a[1], pid, left))
            if op == "bget" and a[0] < len(buf_got):
                got = int(extra.get("amt", 0))
                buf_got[a[0]] += got
                if got > 0:
                    buf_changes[a[0]].append((t, buf_put[a[0]] - buf_got[a[0]]))
                if val == 0 and got != a[1]:
                    bad("C11", "buffer get of %d by process %d returned SUCCESS with amount %d" % (a[1], pid, got))
                if got > a[1]:
                    bad("C11", "buffer get of %d by process %d reports %d" % (a[1], pid, got))
            # ---------------- C12 ----------------
            if op == "oput" and val == 0 and a[0] < len(oq_puts):
                oq_puts[a[0]].append(a[1])
                oq_changes[a[0]].append((t, len(oq_puts[a[0]]) - len(oq_gets[a[0]])))
            if op == "oget" and a[0] < len(oq_gets):
                obj = int(extra.get("obj", 0))
                if val == 0:
                    q = a[0]
                    n = len(oq_gets[q])
                    if n >= len(oq_puts[q]):
                        bad("C12", "object queue %d delivered object %d to process %d at t=%d but nothing undelivered had been put" % (q, obj, pid, t))
                    elif oq_puts[q][n] != obj:
                        bad("C12", "object queue %d delivered %d to process %d at t=%d, FIFO order requires %d" % (q, obj, pid, t, oq_puts[q][n]))
                    oq_gets[q].append(obj)
                    oq_changes[q].append((t, len(oq_puts[q]) - len(oq_gets[q])))
                elif obj != 0:
                    bad("C12", "object queue get by process %d returned %d but delivered object %d" % (pid, val, obj))
            if op == "kput" and val == 0 and a[0] < len(pq_entries):
                h = int(extra.get("h", 0))
                if h in pq_entries[a[0]] or h == 0:
                    bad("C12", "priority queue %d issued handle %d twice (or zero)" % (a[0], h))
                pq_entries[a[0]][h] = (a[1], a[2])
                pq_changes[a[0]].append((t, len(pq_entries[a[0]])))
                pqvar[(pid, a[3])] = h
            if op == "kget" and a[0] < len(pq_entries):
                obj = int(extra.get("obj", 0))
                q = a[0]
                if val == 0 and not pq_unknown[q]:
                    if not pq_entries[q]:
                        bad("C12", "priority queue %d delivered object %d at t=%d but is empty" % (q, obj, t))
                    else:
                        best = min(pq_entries[q], key=lambda hh: (-pq_entries[q][hh][1], hh))
                        if pq_entries[q][best][0] != obj:
                            bad("C12", "priority queue %d delivered object %d at t=%d; highest priority / earliest put is object %d (handle %d)"
                                % (q, obj, t, pq_entries[q][best][0], best))
                        cands = [hh for hh in pq_entries[q] if pq_entries[q][hh] == pq_entries[q][best]]
                        del pq_entries[q][best if pq_entries[q][best][0] == obj else cands[0]]
                    pq_changes[q].append((t, len(pq_entries[q])))
                elif val != 0 and obj != 0:
                    bad("C12", "priority queue get by process %d returned %d but delivered object %d" % (pid, val, obj))
            if op in ("kcancel", "kreprio", "kpos") and a[0] < len(pq_entries):
                # the handle is in a (process-local) variable, written by this process's latest successful kput into it
                q = a[0]
                h = pqvar.get((pid, a[1])) if a[1] < 8 else None
                if h is None or pq_unknown[q]:
                    pq_unknown[q] = True
                elif op == "kreprio":
                    if h in pq_entries[q]:
                        pq_entries[q][h] = (pq_entries[q][h][0], a[2])
                    else:
                        pq_unknown[q] = True      # the driver skips it when the object is gone: cannot get here
                elif op == "kcancel":
                    if (val == 1) != (h in pq_entries[q]):
                        bad("C12", "priority queue %d: cancel of handle %d returned %d but the object is %s" %
                            (q, h, val, "queued" if h in pq_entries[q] else "not queued (delivered or cancelled before)"))
                        pq_unknown[q] = True
                    elif val == 1:
                        del pq_entries[q][h]
                        pq_changes[q].append((t, len(pq_entries[q])))
                elif op == "kpos":
                    order = sorted(pq_entries[q], key=lambda hh: (-pq_entries[q][hh][1], hh))
                    want = order.index(h) + 1 if h in pq_entries[q] else 0
                    if val != want:
                        bad("C12", "priority queue %d: position of handle %d reported as %d at t=%d; by priority (as last changed), then "
                            "order of arrival, it is %d (queue, best first: %s)" %
                            (q, h, val, t, want, [(hh, pq_entries[q][hh][1]) for hh in order]))
            # ---------------- C13: calls that signal a guard (state as left by the call) ----------------
            if op == "prel" and a[0] < len(pool_held):
                guard_signalled(1, a[0], 0, t, "units of pool %d were released" % a[0])
            if op == "oput" and val == 0 and a[0] < len(oq_puts):
                guard_signalled(3, a[0], 0, t, "an object was put into object queue %d" % a[0])
            if op == "oget" and val == 0 and a[0] < len(oq_puts):
                guard_signalled(3, a[0], 1, t, "an object was taken from object queue %d" % a[0])
            if op == "bput" and val == 0 and a[0] < len(buf_put):
                guard_signalled(2, a[0], 0, t, "buffer %d was filled" % a[0])
            if op == "bget" and val == 0 and a[0] < len(buf_put):
                guard_signalled(2, a[0], 1, t, "buffer %d was drained" % a[0])
            # ---------------- recording ----------------
            if op == "rstart":
                rec.setdefault((a[0], a[1]), []).append([t, None])
            if op == "rstop":
                lst = rec.setdefault((a[0], a[1]), [])
                if lst and lst[-1][1] is None:
                    lst[-1][1] = t
            continue
        if k == "Q":
            m = re.match(r"Q now=(-?\d+) events=(\d+)", line)
            now_final, events_final = int(m.group(1)), int(m.group(2))
        elif k in "PRLBOKC" and len(k) == 1:
            dump.setdefault(k, {})[int(w[1])] = dict(x.split("=") for x in w[2:] if "=" in x)
        elif k == "H":
            n = int(w[3])
            hist[(w[1], int(w[2]))] = [tuple(int(y) for y in x.split(",")) for x in w[5:5 + n]]
        elif k == "W":
            wsums[(w[1], int(w[2]))] = dict(x.split("=") for x in w[3:] if "=" in x)
        elif k == "Z" and len(w) > 3 and w[2].isdigit():
            # second life: the object was terminated and initialised again after the run had been ended
            z = dict(x.split("=") for x in w[3:] if "=" in x)
            prop_ = {"res": "C05", "pool": "C07", "buf": "C11", "oq": "C12", "pq": "C12"}.get(w[1])
            for fld in ("inuse", "level", "len"):
                if fld in z and int(z[fld]) != 0 and prop_:
                    bad(prop_, "%s %s, terminated and initialised again after the run, reports %s=%s instead of 0: the new life starts "
                        "with what the old one left behind" % (w[1], w[2], fld, z[fld]))
            if int(z.get("hist", 0)) != 0:
                bad("C14", "%s %s, terminated and initialised again, starts with %s samples in its history" % (w[1], w[2], z["hist"]))
            capz = {"pool": ("avail", objs["pool"]), "buf": ("space", objs["buf"])}.get(w[1])
            if capz and int(w[2]) < len(capz[1]) and capz[0] in z and int(z[capz[0]]) != capz[1][int(w[2])] and prop_:
                bad(prop_, "%s %s, terminated and initialised again, reports %s=%s; its capacity is %d"
                    % (w[1], w[2], capz[0], z[capz[0]], capz[1][int(w[2])]))
        elif k == "cap":
            events_final = None
            capped[0] = True
    if not capped[0] and dump:
        for q, (te_, li_) in sorted(pc_expect.items()):
            bad("C04", "process %d was waiting (waite) for a user event when all user events were cancelled by pattern at t=%d "
                "(cmb_event_pattern_cancel notifies the waiters of every event it cancels, like cmb_event_cancel); it was never resumed" % (q, te_))

    quiescent = events_final == 0
    # ---------------- at quiescence ----------------
    if quiescent and dump:
        P = dump.get("P", {})
        for pid, (pc, t0, cmd) in open_call.items():
            if P.get(pid, {}).get("st") != "1":
                continue
            op = cmd[0]
            a = [int(x) for x in cmd[1:]]
            if op == "hold" and pid not in hold_cleared:
                bad("C04", "process %d is still suspended in hold at quiescence (t=%s)" % (pid, now_final))
            if op == "waitp" and P.get(a[0], {}).get("st") == "2":
                bad("C09", "process %d is still waiting for process %d, which has ended" % (pid, a[0]))
            if op in ("acq", "pre") and dump.get("R", {}).get(a[0], {}).get("holder") == "-1":
                bad("C08", "process %d is blocked on resource %d, which is free, and no event is pending" % (pid, a[0]))
            if op in ("pacq", "ppre") and a[0] < len(objs["pool"]):
                if int(dump["L"][a[0]]["inuse"]) < objs["pool"][a[0]]:
                    bad("C08", "process %d is blocked on pool %d with %d of %d units in use, and no event is pending"
                        % (pid, a[0], int(dump["L"][a[0]]["inuse"]), objs["pool"][a[0]]))
            if op == "bget" and a[0] < len(objs["buf"]) and int(dump["B"][a[0]]["level"]) > 0:
                bad("C08", "process %d is blocked getting from buffer %d, which has content" % (pid, a[0]))
            if op == "bput" and a[0] < len(objs["buf"]) and int(dump["B"][a[0]]["level"]) < objs["buf"][a[0]]:
                bad("C08", "process %d is blocked putting into buffer %d, which has space" % (pid, a[0]))
            if op == "oget" and a[0] < len(objs["oq"]) and int(dump["O"][a[0]]["len"]) > 0:
                bad("C08", "process %d is blocked getting from object queue %d, which has content" % (pid, a[0]))
            if op == "oput" and a[0] < len(objs["oq"]) and int(dump["O"][a[0]]["len"]) < objs["oq"][a[0]]:
                bad("C08", "process %d is blocked putting into object queue %d, which has space" % (pid, a[0]))
            if op == "kget" and a[0] < len(objs["pq"]) and int(dump["K"][a[0]]["len"]) > 0:
                bad("C08", "process %d is blocked getting from priority queue %d, which has content" % (pid, a[0]))
            if op == "kput" and a[0] < len(objs["pq"]) and int(dump["K"][a[0]]["len"]) < objs["pq"][a[0]]:
                bad("C08", "process %d is blocked putting into priority queue %d, which has space" % (pid, a[0]))
            if op == "cwait" and a[1] == 1 and a[2] < len(holder):
                observed = any(c == a[0] and kd == 0 and ix == a[2] for (c, kd, ix, wh) in objs["subs"])
                if observed and pid not in dequeued and dump.get("R", {}).get(a[2], {}).get("holder") == "-1" \
                        and freed_at[a[2]] > call_idx.get(pid, 10 ** 9):
                    bad("C13", "process %d waits on condition %d for resource %d to be free; the condition observes that resource, which was "
                        "released after the wait began and is free, yet the waiter was not resumed" % (pid, a[0], a[2]))
            # armed timer that should have fired
            for tm in timers[pid]:
                if tm.get("sure") and tm["due"] <= now_final and op in BLOCKING:
                    bad("C04", "process %d is suspended in %s although its timer (signal %d) was due at t=%d" % (pid, op, tm["sig"], tm["due"]))
        # C05 / C09: holders
        for r, d in dump.get("R", {}).items():
            h = int(d["holder"])
            if r < len(holder) and (holder[r] if holder[r] is not None else -1) != h:
                bad("C05", "resource %d: the holder query says %d at the end, the acquire/release history says %s" % (r, h, holder[r]))
            if h >= 0 and P.get(h, {}).get("st") == "2":
                bad("C09", "resource %d is still held by process %d, which has ended" % (r, h))
            if (h >= 0) != (d.get("inuse") == "1"):
                bad("C05", "resource %d: in-use query %s disagrees with holder %d" % (r, d.get("inuse"), h))
        # C07
        for p, d in dump.get("L", {}).items():
            held = [int(x) for x in d["held"].split(",")] if d.get("held") else []
            if sum(held) != int(d["inuse"]):
                bad("C07", "pool %d: %d units in use but the processes hold %s (sum %d)" % (p, int(d["inuse"]), held, sum(held)))
                if p < len(ended_holding_pool) and ended_holding_pool[p]:
                    bad("C09", "pool %d: a process ended while holding units of it, and afterwards %d units are in use although the "
                        "processes hold %s (sum %d): the pool did not get back exactly what the ended process held"
                        % (p, int(d["inuse"]), held, sum(held)))
            if p < len(objs["pool"]) and int(d["inuse"]) > objs["pool"][p]:
                bad("C07", "pool %d: %d units in use exceed the capacity %d" % (p, int(d["inuse"]), objs["pool"][p]))
            for q, hq in enumerate(held):
                blocked_in_pool = q in open_call and open_call[q][2][0] in ("pacq", "ppre") and int(open_call[q][2][1]) == p
                if p < len(pool_exp) and q not in pool_exp_unknown[p] and not blocked_in_pool and hq != pool_exp[p][q]:
                    bad("C07", "pool %d: process %d holds %d units, but its acquisitions (+n on success, unchanged on any other signal) and "
                        "releases (-n) add up to %d" % (p, q, hq, pool_exp[p][q]))
                if hq > 0 and P.get(q, {}).get("st") == "2":
                    bad("C09", "pool %d: process %d has ended but still holds %d units" % (p, q, hq))
        # C09 exit values
        for q, d in P.items():
            if d.get("st") == "2" and q in exit_val and int(d["exit"]) != exit_val[q]:
                bad("C09", "process %d: exit value %s, expected %d" % (q, d["exit"], exit_val[q]))
        # C09: waiters are resumed at the instant the awaited process ends
        for (wp, q, t0, ret, ci) in waitp_calls:
            if q in ended and wp != q:
                te = ended[q][0]
                if ret is None:
                    if P.get(wp, {}).get("st") == "1" and te >= t0:
                        bad("C09", "process %d waited for process %d since t=%d; it ended at t=%d but the waiter was never resumed" % (wp, q, t0, te))
    # C09: a waiter registered before the end is resumed in the very instant of the end
    for (wp, q, t0, ret, ci) in waitp_calls:
        for (eq, te, ei) in end_events:
            if eq == q and wp != q and ci < ei and ret is not None and ret[2] > ei and ret[0] > te:
                bad("C09", "process %d was waiting for process %d, which ended at t=%d, but was resumed only at t=%d" % (wp, q, te, ret[0]))
    if True:
        for _ in ():
            pass
        # C11
        for b, d in dump.get("B", {}).items():
            lvl = int(d["level"])
            if b < len(objs["buf"]):
                if lvl > objs["buf"][b]:
                    bad("C11", "buffer %d: level %d exceeds capacity %d" % (b, lvl, objs["buf"][b]))
                blocked_here = any(c[2][0] in ("bget", "bput") and int(c[2][1]) == b for c in open_call.values())
                if not blocked_here and not buf_unknown[b] and lvl != buf_put[b] - buf_got[b]:
                    bad("C11", "buffer %d: level %d but %d were put and %d were got in total" % (b, lvl, buf_put[b], buf_got[b]))
        # C12 lengths
        for q, d in dump.get("O", {}).items():
            if q < len(oq_puts) and int(d["len"]) != len(oq_puts[q]) - len(oq_gets[q]):
                bad("C12", "object queue %d: length %s but %d objects were put and %d delivered" % (q, d["len"], len(oq_puts[q]), len(oq_gets[q])))
            if q < len(objs["oq"]) and int(d["len"]) > objs["oq"][q]:
                bad("C12", "object queue %d: length %s exceeds capacity" % (q, d["len"]))
        for q, d in dump.get("K", {}).items():
            if q < len(pq_entries) and not pq_unknown[q] and int(d["len"]) != len(pq_entries[q]):
                bad("C12", "priority queue %d: length %s but %d objects are undelivered" % (q, d["len"], len(pq_entries[q])))
    # ---------------- C13: an explicit signal wakes exactly the satisfied waiters ----------------
    rets = collections.defaultdict(list)      # pid -> [(log index, time, value, op)]
    for li2, line in enumerate(log):
        w2 = line.split()
        if w2 and w2[0] == "r" and len(w2) > 4:
            rets[int(w2[1])].append((li2, int(w2[3]), int(w2[4])))
    per_instant = collections.Counter((c, t) for (c, t, ci, ri, ws, v) in csigs)
    observed = {c for (c, kd, ix, wh) in objs["subs"]}
    for (c, t, ci, ri, ws, v) in csigs:
        for (q, sat, known) in ws:
            if not known:
                continue
            nxt = [r for r in rets[q] if r[0] > ci]
            first = nxt[0] if nxt else None
            if sat:
                # a waiter that is stopped in the signal's instant, before its wake-up runs, never returns
                ended_first = any(eq == q and et == t and eli > ci and (first is None or eli < first[0])
                                  for (eq, et, eli) in end_events)
                if (first is None or first[1] != t) and not ended_first and not (first is None and capped[0]):
                    bad("C13", "condition %d was signalled at t=%d while process %d was waiting with a true predicate, but it was not "
                        "resumed at that time" % (c, t, q))
            elif per_instant[(c, t)] == 1 and c not in observed:
                # (a forwarded signal of the same instant may have woken the waiter while its predicate was true)
                if first is not None and first[1] == t and first[2] == 0:
                    bad("C13", "condition %d was signalled at t=%d; process %d's predicate was false but it was resumed with SUCCESS" % (c, t, q))
        if all(k for (_, _, k) in ws) and ws and per_instant[(c, t)] == 1 and c not in observed:
            # (waiters already woken by a forwarded signal of this instant are off the list but still inside their call)
            if (v == 1) != any(sat for (_, sat, _) in ws):
                bad("C13", "condition %d signal at t=%d returned %d but %d waiters had a true predicate" % (c, t, v, sum(1 for x in ws if x[1])))
    for (c, q, t, li0, what) in fwd_expect:
        nxt = [x for x in rets[q] if x[0] > li0]
        ended_first = any(eq == q and et == t and eli > li0 and (not nxt or eli < nxt[0][0]) for (eq, et, eli) in end_events)
        if (not nxt or nxt[0][1] != t) and not ended_first and not (not nxt and capped[0]):
            bad("C13", "%s at t=%d; condition %d observes that guard and process %d was waiting on it with a true predicate, but it was "
                "not resumed at that time (a signal forwarded from an observed guard must evaluate every waiter of the condition)"
                % (what, t, c, q))
    # ---------------- C06: full service order on resources without barging (priority, then entry time, then process) ----------------
    barged = set()
    for g in res_waits:
        if g[7] and g[6] == 0:       # an immediate successful acquire ...
            for q in res_waits:
                if q[1] == g[1] and q[0] != g[0] and not q[7] and q[3] < g[3] and (q[4] is None or q[4] > g[3]):
                    barged.add(g[1])  # ... while somebody else was waiting: a granted waiter may lose the race and start a new wait
    pre_used = {int(l.split()[5]) for l in log if l.startswith("c ") and len(l.split()) > 5 and l.split()[4] == "pre"}

    def prio_at(q, idx):
        v = prio[q]
        for (i, x) in prio_hist[q]:
            if i <= idx:
                v = x
        return v

    def prio_changed_at_time(q, tt):
        for (i, x) in prio_hist[q]:
            if i >= 0:
                w_ = log[i].split()
                if int(w_[3]) == tt:
                    return True
        return False
    for g in res_waits:
        pid, r, t0, ci, ri, rt, val, imm = g
        if ri is None or ri >= 10 ** 9 or val != 0 or imm or r in barged or r in pre_used:
            continue
        if prio_changed_at_time(pid, rt):
            continue
        for q in res_waits:
            qp, qr, qt0, qci, qri, qrt, qval, qimm = q
            if qp == pid or qr != r or qimm or prio_changed_at_time(qp, rt):
                continue
            if not (qt0 < rt and qci < ri and (qri is None or (qrt is not None and qrt > rt))):
                continue
            pp_, pq_ = prio_at(pid, ri), prio_at(qp, ri)
            if pq_ == pp_ and (qt0, qp) < (t0, pid):
                bad("C06", "resource %d was granted at t=%d to process %d (priority %d, waiting since t=%d) while process %d of the same "
                    "priority had been waiting longer (since t=%d) and kept waiting" % (r, rt, pid, pp_, t0, qp, qt0))
    # ---------------- C06: no overtaking on a resource's waiting list (static priorities only) ----------------
    for g in res_waits:
        pid, r, t0, ci, ri, rt, val, imm = g
        if ri is None or val != 0 or imm or pid in prio_changed:
            continue
        for q in res_waits:
            qp, qr, qt0, qci, qri, qrt, qval, qimm = q
            if qp == pid or qr != r or qp in prio_changed or qimm:
                continue
            waiting_before = qt0 < rt and qci < ri
            still_waiting_after = qri is None or (qrt is not None and qrt > rt)
            if waiting_before and still_waiting_after and prio[qp] > prio[pid]:
                bad("C06", "resource %d was granted to process %d (priority %d) at t=%d while process %d (priority %d) had been waiting "
                    "since t=%d and kept waiting" % (r, pid, prio[pid], rt, qp, prio[qp], qt0))
    # ---------------- C14: the library's own time-weighted summary of each history is the exact one ----------------
    for (kind, idx), ws_ in wsums.items():
        h = hist.get((kind, idx))
        if h is None or ws_.get("wsum") == "big" or len(h) < 2:
            continue
        wsum = h[-1][1] - h[0][1]
        wx = sum(h[i][0] * (h[i + 1][1] - h[i][1]) for i in range(len(h) - 1))
        if wsum == 0:
            wx = 0
        if int(ws_.get("wsum", 0)) != wsum or int(ws_.get("wx", 0)) != wx:
            bad("C14", "history of %s %d (%d samples from t=%d to t=%d): the library's time-weighted summary has total weight %s and "
                "weighted sum %s (time average %s); the recorded step function has %d and %d (time average %s)"
                % (kind, idx, len(h), h[0][1], h[-1][1], ws_.get("wsum"), ws_.get("wx"),
                   "%.6f" % (int(ws_["wx"]) / int(ws_["wsum"])) if int(ws_.get("wsum", 0)) else "-", wsum, wx,
                   "%.6f" % (wx / wsum) if wsum else "-"))
    # ---------------- C14 histories ----------------
    for (kind, idx), h in hist.items():
        ts = [t for (_, t) in h]
        if any(ts[i] > ts[i + 1] for i in range(len(ts) - 1)):
            bad("C14", "history of %s %d: sample times decrease: %s" % (kind, idx, h))
        changes = {"res": res_changes, "oq": oq_changes, "pq": pq_changes, "pool": pool_changes, "buf": buf_changes}.get(kind)
        kcode = {"res": 0, "pool": 1, "buf": 2, "oq": 3, "pq": 4}[kind]
        # while recording is on every change of the level is sampled, so the newest sample shows the current level
        # (needs no knowledge of the trajectory: holds for blocked and preempted calls too)
        wins = rec.get((kcode, idx), [])
        dk, field = {"res": ("R", "inuse"), "pool": ("L", "inuse"), "buf": ("B", "level"), "oq": ("O", "len"), "pq": ("K", "len")}[kind]
        if wins and wins[-1][1] is None and all(w_[1] is not None for w_ in wins[:-1]) and idx in dump.get(dk, {}):
            cur = int(dump[dk][idx][field])
            if not h:
                bad("C14", "history of %s %d is empty although recording is on" % (kind, idx))
            elif h[-1][0] != cur:
                bad("C14", "history of %s %d: recording is on and the newest sample says %d at t=%d, but the level is %d"
                    % (kind, idx, h[-1][0], h[-1][1], cur))
        if changes is None or idx >= len(changes):
            continue
        if kind == "pq" and pq_unknown[idx]:
            continue
        if kind == "pool" and (pool_unknown[idx] or any(c[2][0] in ("pacq", "ppre") and int(c[2][1]) == idx for c in open_call.values())):
            continue
        if kind == "buf" and (buf_traj_unknown[idx] or any(c[2][0] in ("bget", "bput") and int(c[2][1]) == idx for c in open_call.values())):
            continue

        def state_before(t):
            v = 0
            for (tc, x) in changes[idx]:
                if tc < t:
                    v = x
            return v
        windows = rec.get((kcode, idx), [])
        if not windows:
            continue
        toggles = [w_[0] for w_ in windows] + [w_[1] for w_ in windows if w_[1] is not None]
        if len(set(toggles)) != len(toggles) or any(tc in toggles for (tc, x) in changes[idx]):
            continue        # state changes or several toggles in the very instant recording is toggled: order not determined by the log
        if any(windows[i][1] is None for i in range(len(windows) - 1)):
            continue        # a start while already recording
        exp = []
        for (t1, t2) in windows:
            exp.append((state_before(t1), t1))
            for (tc, x) in changes[idx]:
                if tc > t1 and (t2 is None or tc < t2):
                    exp.append((x, tc))
            if t2 is not None:
                exp.append((state_before(t2), t2))
        if windows[-1][1] is not None and h and h[-1][1] != windows[-1][1]:
            bad("C14", "history of %s %d ends at t=%d but recording was stopped at t=%d" % (kind, idx, h[-1][1], windows[-1][1]))

        def step_fn(samples):
            # the step function a history defines: samples that repeat the previous value add nothing (a get of 0 units
            # records one); the last sample fixes the end of the recorded interval
            out_ = []
            for i_, (x_, t_) in enumerate(samples):
                if out_ and out_[-1][0] == x_:
                    continue
                out_.append((x_, t_))
            return out_
        if step_fn(h) != step_fn(exp):
            bad("C14", "history of %s %d is %s but the true trajectory while recording was %s" % (kind, idx, h, exp))
    return dict(V)
