"""Operation-sequence generator for the hashheap correspondence (C02, also used by C10).

Keeps an abstract state (live keys, counter, count, exp) so that only *valid* operations are sent to the
implementation (no release-assert preconditions violated) and so that generation can be steered:
hash collisions, probe wrap-around, tombstone saturation, key re-insertion, growth.
"""
import random

FIB = 11400714819323198485
ANY = "*"
ORDERS = ["default", "event", "guard", "holder", "pq"]
I64MAX, I64MIN = 2 ** 63 - 1, -2 ** 63


def hash_key(exp, key):
    return ((key * FIB) % 2 ** 64) >> (64 - (exp + 1))


class Abs:
    def __init__(self, exp):
        self.exp = exp
        self.exp_init = exp
        self.live = {}        # key -> (items, d, i)
        self.removed = []     # keys that were live once
        self.counter = 0
        self.growths = 0
        self.reinserts = 0
        self.collisions = 0


def gen_sequence(rng, max_ops, model, profile=None):
    """Returns (lines, stats). `model` is a ModelSession: the Lean model is the generator's state oracle
    (it knows which key a dequeue removes under the current ordering function, whatever that function does)."""
    profile = profile or rng.choice(["mixed", "grow", "churn", "collide", "ties", "pattern", "extreme"])
    exp = rng.choice([1, 1, 2, 2, 3, 3, 4, 5, 6]) if profile != "grow" else rng.choice([1, 2, 3])
    order = rng.choice(ORDERS)
    st = Abs(exp)
    lines = ["init %d %s" % (exp, order)]
    model.post(lines[0])
    n = rng.randint(max(5, max_ops // 4), max_ops)
    small = rng.random() < 0.6

    def rand_d():
        if profile == "ties" or small:
            return rng.randint(-2, 4)
        if profile == "extreme":
            return rng.choice([0, 1, -1, 2 ** 52, -2 ** 52, 2 ** 53 - 1, rng.randint(-10 ** 6, 10 ** 6)])
        return rng.randint(-1000, 1000)

    def rand_i():
        if profile == "ties" or small:
            return rng.randint(-2, 3)
        if profile == "extreme":
            return rng.choice([0, 1, -1, I64MAX, I64MIN, I64MAX - 1, I64MIN + 1, rng.randint(-100, 100)])
        return rng.randint(-50, 50)

    def rand_item():
        return tuple(rng.randint(0, 3) for _ in range(4))

    def new_key():
        r = rng.random()
        if profile in ("collide", "churn") or r < 0.25:
            # caller-supplied key, steered to collide with a live key in the current map
            if st.live and rng.random() < 0.8:
                tgt = hash_key(st.exp, rng.choice(list(st.live)))
                # probe wrap-around: aim at the last slots of the map now and then
                if rng.random() < 0.2:
                    tgt = 2 ** (st.exp + 1) - 1
                for _ in range(400):
                    k = rng.randint(2 ** 32, 2 ** 40)
                    if hash_key(st.exp, k) == tgt and k not in st.live:
                        st.collisions += 1
                        return k
            k = rng.choice([rng.randint(2 ** 32, 2 ** 40), rng.randint(2 ** 63, 2 ** 64 - 2), 2 ** 64 - 2])
            if k not in st.live:
                return k
            return 0
        if r < 0.45 and st.removed:
            k = rng.choice(st.removed)
            if k not in st.live:
                st.reinserts += 1
                return k
        return 0

    weights = {
        "mixed":   dict(enq=30, deq=12, peek=4, rm=10, rep=10, item=4, dk=2, ik=2, isq=5, pf=3, pc=3, px=2, clear=1, reset=1, count=2),
        "grow":    dict(enq=60, deq=6, peek=1, rm=6, rep=8, item=2, dk=1, ik=1, isq=2, pf=1, pc=1, px=1, clear=0, reset=1, count=1),
        "churn":   dict(enq=30, deq=15, peek=2, rm=25, rep=5, item=2, dk=1, ik=1, isq=6, pf=1, pc=1, px=2, clear=1, reset=0, count=1),
        "collide": dict(enq=35, deq=10, peek=2, rm=20, rep=8, item=4, dk=1, ik=1, isq=8, pf=1, pc=1, px=1, clear=0, reset=0, count=1),
        "ties":    dict(enq=30, deq=20, peek=5, rm=8, rep=15, item=2, dk=1, ik=1, isq=2, pf=2, pc=2, px=2, clear=0, reset=0, count=1),
        "pattern": dict(enq=30, deq=5, peek=2, rm=5, rep=5, item=2, dk=1, ik=1, isq=2, pf=15, pc=15, px=12, clear=1, reset=0, count=2),
        "extreme": dict(enq=30, deq=15, peek=5, rm=8, rep=15, item=2, dk=2, ik=2, isq=2, pf=1, pc=1, px=1, clear=0, reset=0, count=1),
    }[profile]
    ops, wts = list(weights), list(weights.values())
    sent = [1]

    def match(items, pat):
        return all(p == ANY or p == it for p, it in zip(pat, items))

    for _ in range(n):
        if len(lines) > sent[0]:
            for l in lines[sent[0]:]:
                if l != "deq":
                    model.post(l)
            sent[0] = len(lines)
        op = rng.choices(ops, wts)[0]
        if op == "enq":
            k = new_key()
            it, d, i = rand_item(), rand_d(), rand_i()
            if len(st.live) == 2 ** st.exp:
                if st.exp >= 14:
                    continue
                st.exp += 1
                st.growths += 1
            st.counter += 1
            key = k if k else st.counter
            st.live[key] = (it, d, i)
            lines.append("enq %d %d %d %d %d %d %d" % ((k,) + it + (d, i)))
        elif op == "deq":
            lines.append("deq")
            r = model.send("deq").split()
            if r[0] == "ok":
                k = int(r[1])
                st.live.pop(k, None)
                st.removed.append(k)
            continue
        elif op in ("rm", "isq"):
            k = _pick_key(rng, st)
            lines.append("%s %d" % (op, k))
            if op == "rm" and k in st.live:
                del st.live[k]
                st.removed.append(k)
        elif op in ("item", "dk", "ik"):
            if not st.live:
                continue
            lines.append("%s %d" % (op, rng.choice(list(st.live))))
        elif op == "rep":
            if not st.live:
                continue
            k = rng.choice(list(st.live))
            d, i = rand_d(), rand_i()
            st.live[k] = (st.live[k][0], d, i)
            lines.append("rep %d %d %d" % (k, d, i))
        elif op in ("pf", "pc", "px"):
            pat = tuple(ANY if rng.random() < 0.6 else rng.randint(0, 3) for _ in range(4))
            lines.append("%s %s %s %s %s" % ((op,) + pat))
            if op == "px":
                for k in [k for k, v in st.live.items() if match(v[0], pat)]:
                    del st.live[k]
                    st.removed.append(k)
        elif op == "clear":
            lines.append("clear")
            st.removed += list(st.live)
            st.live = {}
        elif op == "reset":
            lines.append("reset")
            st.removed += list(st.live)
            st.live = {}
            st.exp = st.exp_init
        else:
            lines.append(op)
    return lines, _stats(st, profile, order, lines)


def _pick_key(rng, st):
    r = rng.random()
    if st.live and r < 0.7:
        return rng.choice(list(st.live))
    if st.removed and r < 0.9:
        return rng.choice(st.removed)
    return rng.randint(1, max(2, st.counter + 3))


def _stats(st, profile, order, lines):
    return {"profile": profile, "order": order, "ops": len(lines), "growths": st.growths,
            "reinserts": st.reinserts, "collisions": st.collisions, "exp_final": st.exp}


class ModelSession:
    """A running Lean model driver used interactively (one line in, one line out)."""

    def __init__(self, exe):
        import subprocess
        self.p = subprocess.Popen([exe], stdin=subprocess.PIPE, stdout=subprocess.PIPE)

        self.pending = 0
        self.buf = []

    def post(self, line):
        """queue a line whose answer is not needed"""
        self.buf.append(line)
        if len(self.buf) >= 400:
            self.drain()

    def drain(self):
        if self.buf:
            self.p.stdin.write(("\n".join(self.buf) + "\n").encode())
            self.p.stdin.flush()
            for _ in self.buf:
                self.p.stdout.readline()
            self.buf = []

    def send(self, line):
        self.drain()
        self.p.stdin.write((line + "\n").encode())
        self.p.stdin.flush()
        out = self.p.stdout.readline().decode()
        return out.strip()

    def close(self):
        try:
            self.p.stdin.close()
            self.p.wait(timeout=10)
        except Exception:
            self.p.kill()
