"""T-gen for the integer / index logic of the samplers of src/cmb_random.c and include/cmb_random.h (property C16).

A C function becomes a Lean definition over a number type `K` (see lean/CimbaModel/Rng/DistBase.lean); the SAME text is
emitted twice by tools/gen_rngdist.py: with `K := Rat` (exact arithmetic, what the theorems are about) and `K := Float`
(IEEE binary64, executed by the driver against the library, bit for bit).

Subset (anything else raises c2lean.Untranslatable = the tie is broken, never silently skipped):
  * locals with or without initialiser, assignment and compound assignment, ++ / -- (also inside a subscript: a[i++] = v,
    a[--i]), arrays reached through pointer parameters / cmi_calloc'ed locals, fields of one struct reached through a
    pointer (p->f, p->f[i]); function-static locals become parameters (their incoming value);
  * if / else (with or without break / return inside), ?:, return, break;
  * for (v = e0; v < bound; v++) with a loop-invariant bound and a body that does not assign v -> `forLoop`;
    while (c) body -> `whileFuel fuel_` (the function then takes a fuel parameter and returns an Option);
  * unsigned / uint64_t as Nat and long as Int with explicit wrap-around, double as K, comparisons keep their C shape;
  * calls: cmb_random_sfc64() draws `raw_ k_` and advances the draw counter `k_`; calls of translated functions (the
    counter is threaded through); floor / ceil / fabs / ldexp(·, literal); log / sqrt / exp / pow become abstract function
    parameters; calls of the floating-point samplers listed in EXTERNAL become abstract inputs (one per call site, not in loops);
    cmi_calloc -> the all-zero array, cmi_malloc -> a default record, cmi_free -> nothing;
  * release asserts (cmb_assert_release) are not translated: their conditions are collected as the documented
    preconditions of the function (info["preconditions"]); debug asserts are no-ops under NDEBUG.
  * (double)INTEGER-LITERAL is folded with IEEE rounding ((double)UINT64_MAX = 2^64); other int -> double conversions
    are exact in the model (assumption: the values are below 2^53).
  * PARTIAL functions (gen_rngdist.PARTIAL: cmb_random_std_gamma): the leading statements (asserts, guards with early return)
    are translated; from the first declaration of a function-static or the first loop on, the rest of the body is ONE abstract
    input `x_rest` (the Marsaglia-Tsang rejection loop is not modelled).  A call of the function itself is an abstract input
    `x_self<i>` together with the number of raw words it consumed, `n_self<i>` (the draw counter advances by it).
  * FRAGMENTS (gen_rngdist.FRAGMENTS: the tail branch of cmi_random_nor_not_hot): of a function that is otherwise outside the
    subset, the one `do { body } while (cond);` loop and the `return` that follows it are translated on their own:
    `<fn>_tail_iter` = ONE iteration (the straight-line body with the calls of untranslated samplers as abstract inputs, then the
    loop condition: `true` = go round again) returning the assigned locals and the condition; `<fn>_tail_result` = the returned
    expression as a function of the locals it reads.  Locals read before they are assigned become parameters.
  * a full expression with two side effects on the same variable, or a side effect on a variable it also reads elsewhere,
    is rejected (unsequenced in C).
"""
from fractions import Fraction

import c2lean
from c2lean import Untranslatable, qt, norm_type

TYPES = {"double": "K", "unsigned int": "U32", "unsigned": "U32", "uint32_t": "U32", "unsigned long": "U64", "uint64_t": "U64",
         "unsigned long long": "U64", "long": "I64", "long long": "I64", "int64_t": "I64", "int": "I32", "_Bool": "Bool",
         "bool": "Bool", "unsigned char": "U8", "uint8_t": "U8", "void": "void"}
PTR = {"K": "PK", "U32": "PU", "U64": "PU", "U8": "PU"}
LEAN_T = {"K": "K", "U32": "Nat", "U64": "Nat", "U8": "Nat", "I64": "Int", "I32": "Int", "Bool": "Bool", "PK": "Nat → K",
          "PU": "Nat → Nat"}
MOD = {"U32": 2 ** 32, "U64": 2 ** 64, "U8": 2 ** 8}
WRAPFN = {"U32": "u32", "U64": "u64"}
LIBM_ABSTRACT = {"log": "flog", "sqrt": "fsqrt", "exp": "fexp", "pow": "fpow"}
EXTERNAL = {"cmb_random_std_exponential", "cmb_random_std_beta", "cmb_random_std_gamma", "cmb_random_std_normal",
            "cmb_random_exponential", "cmb_random_gamma"}
RESERVED = {"at", "from", "end", "fun", "in", "if", "then", "else", "let", "have", "show", "by", "do", "match", "with", "open",
            "local", "prefix", "instance", "where", "deriving", "structure", "class", "def", "theorem", "example", "section",
            "namespace", "variable", "universe", "import", "mutual", "private", "protected", "macro", "syntax", "notation"}


def lname(c):
    return c + "'" if c in RESERVED else c


def strip(n):
    """through parentheses and value-preserving implicit casts"""
    while n.get("kind") in ("ParenExpr", "ConstantExpr") or (
            n.get("kind") == "ImplicitCastExpr" and n.get("castKind") in ("LValueToRValue", "NoOp", "FunctionToPointerDecay",
                                                                           "ArrayToPointerDecay")):
        n = n["inner"][0]
    return n


def kids(n):
    return [c for c in n.get("inner", []) if isinstance(c, dict)]


class FnInfo:
    def __init__(self, name):
        self.name = name
        self.params = []          # (lean name, lean type)
        self.ret = None           # rep
        self.draws = False
        self.libm = []            # abstract libm functions it (transitively) needs, in order
        self.statics = []         # (lean name, lean type)
        self.ext = []             # (lean name, what)
        self.ext_nat = []         # (lean name, what): numbers of raw words consumed by abstract self calls
        self.fuel = False
        self.pre = []             # texts of release asserts
        self.struct_ret = None


class DistTranslator:
    def __init__(self, tu, consts):
        """consts: name -> Fraction, the never-written file-scope doubles (checked by the caller)."""
        self.tu = tu
        self.consts = consts
        self.fns = {}
        self.structs = {}         # name -> [(field, rep)]
        self.uid = 0
        for d in tu.get("inner", []):
            if d.get("kind") == "RecordDecl" and d.get("name") and d.get("completeDefinition"):
                fs = []
                for f in kids(d):
                    if f.get("kind") == "FieldDecl":
                        fs.append((f["name"], self.rep_of_type(qt(f), soft=True)))
                self.structs[d["name"]] = fs

    # ---- types ----------------------------------------------------------------------------------
    def rep_of_type(self, t, soft=False):
        t = norm_type(t)
        if t.endswith("*") or t.endswith("*const") or t.endswith("* const"):
            base = norm_type(t.rstrip("const").rstrip().rstrip("*").strip())
            base = norm_type(base)
            if base.startswith("struct "):
                return "S:" + base[7:].strip()
            b = TYPES.get(base)
            if b in PTR:
                return PTR[b]
            if soft:
                return None
            raise Untranslatable("pointer type %r outside the subset" % t)
        if t in TYPES:
            return TYPES[t]
        if soft:
            return None
        raise Untranslatable("type %r outside the subset" % t)

    def rep(self, n):
        return self.rep_of_type(qt(n))

    def lean_type(self, rep):
        if rep.startswith("S:"):
            return rep[2:]
        return LEAN_T[rep]

    def fresh(self, stem):
        self.uid += 1
        return "%s%d" % (stem, self.uid)

    # ---- asserts ----------------------------------------------------------------------------------
    @staticmethod
    def release_assert(s):
        """((x) ? (void)0 : cmi_assert_failed(...)) -> the condition node, else None"""
        e = s
        while e.get("kind") == "ParenExpr":
            e = e["inner"][0]
        if e.get("kind") == "ConditionalOperator" and norm_type(qt(e)) == "void":
            c, a, b = kids(e)
            bb = strip(b)
            if bb.get("kind") == "CallExpr" and strip(kids(bb)[0]).get("referencedDecl", {}).get("name") == "cmi_assert_failed":
                txt = None
                for a_ in kids(bb)[1:]:
                    x = strip(a_)
                    if x.get("kind") == "StringLiteral":
                        txt = x.get("value", "").strip('"')
                return c, txt
        return None

    @staticmethod
    def debug_assert_noop(s):
        if s.get("kind") != "DoStmt":
            return False
        body = kids(s)[0]
        for c in kids(body):
            if not (c.get("kind") == "CStyleCastExpr" and c.get("castKind") == "ToVoid"):
                return False
        return True

    # ---- analysis ----------------------------------------------------------------------------------
    def base_var(self, n):
        n = strip(n)
        k = n.get("kind")
        if k == "DeclRefExpr":
            return n["referencedDecl"]["name"]
        if k == "ArraySubscriptExpr":
            return self.base_var(kids(n)[0])
        if k == "MemberExpr":
            return self.base_var(kids(n)[0])
        if k == "ImplicitCastExpr":
            return self.base_var(kids(n)[0])
        raise Untranslatable("assignment target outside the subset: %s" % k)

    def assigned(self, n, acc=None):
        """C variables assigned (or ++/--) somewhere below n; 'k_' when a draw happens"""
        if acc is None:
            acc = []
        if not isinstance(n, dict):
            return acc
        k = n.get("kind")
        if k in ("BinaryOperator", "CompoundAssignOperator") and (n.get("opcode") == "=" or k == "CompoundAssignOperator"):
            v = self.base_var(kids(n)[0])
            if v not in acc:
                acc.append(v)
        if k == "UnaryOperator" and n.get("opcode") in ("++", "--"):
            v = self.base_var(kids(n)[0])
            if v not in acc:
                acc.append(v)
        if k == "CallExpr":
            callee = strip(kids(n)[0]).get("referencedDecl", {}).get("name")
            if callee == "cmb_random_sfc64" or (callee in self.fns and self.fns[callee].draws and callee not in EXTERNAL):
                if "k_" not in acc:
                    acc.append("k_")
        if k == "UnaryExprOrTypeTraitExpr":
            return acc
        if k == "AbstractRest":
            return acc
        for c in kids(n):
            self.assigned(c, acc)
        return acc

    def mentions(self, n, names):
        if not isinstance(n, dict):
            return False
        if n.get("kind") == "DeclRefExpr" and n.get("referencedDecl", {}).get("name") in names:
            return True
        return any(self.mentions(c, names) for c in kids(n))

    def count_refs(self, n, name):
        if not isinstance(n, dict):
            return 0
        if n.get("kind") == "UnaryExprOrTypeTraitExpr":
            return 0
        c = 1 if (n.get("kind") == "DeclRefExpr" and n.get("referencedDecl", {}).get("name") == name) else 0
        return c + sum(self.count_refs(x, name) for x in kids(n))

    def escapes(self, n, in_loop=False):
        """contains a break (of the enclosing loop) or a return"""
        if not isinstance(n, dict):
            return False
        k = n.get("kind")
        if k == "ReturnStmt":
            return True
        if k == "BreakStmt":
            return not in_loop
        if k in ("ForStmt", "WhileStmt", "DoStmt"):
            return any(self.escapes(c, True) for c in kids(n))
        return any(self.escapes(c, in_loop) for c in kids(n))

    def check_full_expression(self, n):
        """side effects inside one full expression must not conflict"""
        muts = []

        def rec(x):
            if not isinstance(x, dict):
                return
            if x.get("kind") == "UnaryOperator" and x.get("opcode") in ("++", "--"):
                muts.append(self.base_var(kids(x)[0]))
            if x.get("kind") == "UnaryExprOrTypeTraitExpr":
                return
            for c in kids(x):
                rec(c)
        rec(n)
        for v in muts:
            if muts.count(v) > 1 or self.count_refs(n, v) > 1:
                raise Untranslatable("unsequenced side effect on %s inside one expression" % v)
        draws = [0]

        def rec2(x):
            if not isinstance(x, dict):
                return
            if x.get("kind") == "CallExpr":
                callee = strip(kids(x)[0]).get("referencedDecl", {}).get("name")
                if callee == "cmb_random_sfc64" or (callee in self.fns and self.fns[callee].draws) or callee in EXTERNAL:
                    draws[0] += 1
            for c in kids(x):
                rec2(c)
        rec2(n)
        if draws[0] > 1:
            raise Untranslatable("more than one random draw inside one expression (evaluation order unspecified)")

    # ---- expressions -----------------------------------------------------------------------------------
    def klit(self, fr):
        fr = Fraction(fr)
        if fr.denominator == 1 and fr >= 0:
            return "(%d : K)" % fr.numerator
        if fr.denominator == 1:
            return "(-(%d : K))" % (-fr.numerator)
        s = "((%d : K) / (%d : K))" % (abs(fr.numerator), fr.denominator)
        return s if fr > 0 else "(-%s)" % s

    def int_lit(self, v, rep):
        if rep == "K":
            return self.klit(Fraction(float(v)))
        if rep in MOD:
            return "(%d : Nat)" % (v % MOD[rep])
        if rep in ("I64", "I32"):
            return "(%d : Int)" % v if v >= 0 else "(-%d : Int)" % (-v)
        if rep == "Bool":
            return "true" if v else "false"
        raise Untranslatable("integer literal at type %s" % rep)

    def const_int(self, n):
        """value of an integer constant expression (literal, -literal), else None"""
        n = strip(n)
        if n.get("kind") == "IntegerLiteral":
            return int(n["value"])
        if n.get("kind") == "UnaryOperator" and n.get("opcode") == "-":
            v = self.const_int(kids(n)[0])
            return None if v is None else -v
        if n.get("kind") in ("ImplicitCastExpr", "CStyleCastExpr") and n.get("castKind") == "IntegralCast":
            return self.const_int(kids(n)[0])
        return None

    def is_cmp(self, n):
        n = strip(n)
        if n.get("kind") == "BinaryOperator" and n.get("opcode") in ("<", "<=", ">", ">=", "==", "!=", "&&", "||"):
            return True
        if n.get("kind") == "UnaryOperator" and n.get("opcode") == "!":
            return True
        return False

    def cond(self, n, f, pre):
        """a decidable Prop"""
        n0 = n
        n = strip(n)
        k = n.get("kind")
        if k in ("ImplicitCastExpr", "CStyleCastExpr") and n.get("castKind") in ("IntegralCast", "IntegralToBoolean"):
            return self.cond(kids(n)[0], f, pre)
        if k == "BinaryOperator" and n.get("opcode") in ("<", "<=", ">", ">=", "==", "!="):
            a, b = kids(n)
            ra, rb = self.rep(a), self.rep(b)
            if ra != rb and not ({ra, rb} <= {"I32", "I64"}):
                raise Untranslatable("comparison of %s with %s" % (ra, rb))
            if ra.startswith("S:") or ra in ("PK", "PU"):
                raise Untranslatable("pointer comparison outside an assert")
            ea, eb = self.expr(a, f, pre), self.expr(b, f, pre)
            op = {"<": "<", "<=": "≤", ">": ">", ">=": "≥", "==": "=", "!=": "≠"}[n["opcode"]]
            if ra == "K" and op in ("=", "≠"):
                # IEEE == on Float is BEq; keep one text for both instantiations
                return "((%s %s %s) = true)" % (ea, "==" if op == "=" else "!=", eb)
            return "(%s %s %s)" % (ea, op, eb)
        if k == "BinaryOperator" and n.get("opcode") in ("&&", "||"):
            a, b = kids(n)
            pa, pb = [], []
            ea, eb = self.cond(a, f, pa), self.cond(b, f, pb)
            if pb:
                raise Untranslatable("side effect on the right of && / ||")
            pre += pa
            return "(%s %s %s)" % (ea, "∧" if n["opcode"] == "&&" else "∨", eb)
        if k == "UnaryOperator" and n.get("opcode") == "!":
            return "(¬ %s)" % self.cond(kids(n)[0], f, pre)
        if k == "ConditionalOperator":
            c_, a_, b_ = kids(n)
            va, vb = self.const_int(a_), self.const_int(b_)
            if va is not None and vb is not None and va != 0 and vb == 0:
                return self.cond(c_, f, pre)
            if va is not None and vb is not None and va == 0 and vb != 0:
                return "(¬ %s)" % self.cond(c_, f, pre)
        r = self.rep(n)
        e = self.expr(n0, f, pre)
        if r == "Bool":
            return "(%s = true)" % e
        if r in MOD or r in ("I32", "I64"):
            return "(%s ≠ 0)" % e
        raise Untranslatable("condition of type %s" % r)

    def lvalue_read(self, n, f, pre):
        n = strip(n)
        k = n.get("kind")
        if k == "DeclRefExpr":
            name = n["referencedDecl"]["name"]
            if name in f.env:
                return lname(name)
            if name in self.consts:
                return name
            raise Untranslatable("reference to %s, which is neither a local, a parameter nor a known constant" % name)
        if k == "ArraySubscriptExpr":
            a, i = kids(n)
            return "(%s %s)" % (self.lvalue_read(a, f, pre), self.expr(i, f, pre))
        if k == "MemberExpr":
            if not n.get("isArrow"):
                raise Untranslatable("member access without ->")
            return "%s.%s" % (self.lvalue_read(kids(n)[0], f, pre), lname(n["name"]))
        raise Untranslatable("lvalue %s outside the subset" % k)

    def expr(self, n, f, pre):
        k = n.get("kind")
        if k in ("ParenExpr", "ConstantExpr"):
            return self.expr(kids(n)[0], f, pre)
        if k in ("ImplicitCastExpr", "CStyleCastExpr"):
            ck = n.get("castKind")
            inner = kids(n)[0]
            if ck in ("LValueToRValue", "NoOp", "ArrayToPointerDecay", "FunctionToPointerDecay"):
                return self.expr(inner, f, pre)
            to = self.rep(n)
            ci = self.const_int(inner)
            if ck in ("IntegralCast", "IntegralToFloating") and ci is not None:
                return self.int_lit(ci, to)
            if ck == "IntegralToBoolean":
                return "(decide %s)" % self.cond(inner, f, pre)
            si = strip(inner)
            if ck == "IntegralCast" and si.get("kind") == "ConditionalOperator":
                # (T)(c ? a : b)  ==  c ? (T)a : (T)b
                c_, a_, b_ = kids(si)
                wrap = lambda x: {"kind": "ImplicitCastExpr", "castKind": "IntegralCast", "type": n["type"], "inner": [x]}
                return self.expr({"kind": "ConditionalOperator", "type": n["type"], "inner": [c_, wrap(a_), wrap(b_)]}, f, pre)
            fr = self.rep(inner)
            e = self.expr(inner, f, pre)
            if ck == "IntegralToFloating":
                return "(CNum.ofNat %s : K)" % e if fr in MOD else "(CNum.ofInt %s : K)" % e
            if ck == "FloatingToIntegral":
                if to in WRAPFN:
                    return "(%s (Int.toNat (CNum.trunc %s)))" % (WRAPFN[to], e)
                if to == "I64":
                    return "(i64 (CNum.trunc %s))" % e
                raise Untranslatable("double -> %s" % to)
            if ck == "IntegralCast":
                if fr == to:
                    return e
                if fr in MOD and to in MOD:
                    return e if MOD[fr] <= MOD[to] else "(%s %% %d)" % (e, MOD[to])
                if fr in MOD and to in ("I64",) and MOD[fr] <= 2 ** 32:
                    return "(%s : Int)" % e
                if fr == "I32" and to == "I64":
                    return e
                if fr == "Bool" and to in ("I32",):
                    return "(if %s then (1 : Int) else 0)" % e
                if fr == "Bool" and to in MOD:
                    return "(if %s then (1 : Nat) else 0)" % e
                if fr in ("I32", "I64") and to in MOD:
                    return "(Int.toNat (%s %% %d))" % (e, MOD[to])
                raise Untranslatable("integral cast %s -> %s" % (fr, to))
            if ck == "FloatingCast" and fr == to:
                return e
            raise Untranslatable("cast %s" % ck)
        if k == "IntegerLiteral":
            return self.int_lit(int(n["value"]), self.rep(n))
        if k == "FloatingLiteral":
            return self.klit(Fraction(float(n["value"])))
        if k in ("DeclRefExpr", "ArraySubscriptExpr", "MemberExpr"):
            return self.lvalue_read(n, f, pre)
        if k == "ConditionalOperator":
            c, a, b = kids(n)
            pa, pb = [], []
            ec = self.cond(c, f, pre)
            ea, eb = self.expr(a, f, pa), self.expr(b, f, pb)
            if pa or pb:
                raise Untranslatable("side effect inside a branch of ?:")
            return "(if %s then %s else %s)" % (ec, ea, eb)
        if k == "UnaryOperator":
            op = n.get("opcode")
            a = kids(n)[0]
            if op == "-":
                r = self.rep(n)
                e = self.expr(a, f, pre)
                if r == "K":
                    return "(-%s)" % e
                if r in ("I32", "I64"):
                    return "(-%s)" % e if r == "I32" else "(i64 (-%s))" % e
                raise Untranslatable("unary minus at %s" % r)
            if op in ("++", "--"):
                return self.incdec(n, f, pre, value=True)
            raise Untranslatable("unary operator %s" % op)
        if k == "BinaryOperator":
            op = n.get("opcode")
            if op in ("<", "<=", ">", ">=", "==", "!=", "&&", "||"):
                c = self.cond(n, f, pre)
                return "(if %s then (1 : Int) else 0)" % c
            if op == "=":
                raise Untranslatable("assignment used as a value")
            a, b = kids(n)
            r = self.rep(n)
            ea, eb = self.expr(a, f, pre), self.expr(b, f, pre)
            if r == "K":
                if op in "+-*/":
                    return "(%s %s %s)" % (ea, op, eb)
            elif r in WRAPFN:
                w, m = WRAPFN[r], MOD[r]
                if op == "+" or op == "*":
                    return "(%s (%s %s %s))" % (w, ea, op, eb)
                if op == "-":
                    return "(%s (%s + %d - %s))" % (w, ea, m, eb)
                if op == ">>":
                    sh = self.const_int(b)
                    if sh is None or not (0 <= sh < (64 if r == "U64" else 32)):
                        raise Untranslatable("shift by a non-literal or out-of-range amount")
                    return "(%s >>> %d)" % (ea, sh)
                if op == "&":
                    return "(%s &&& %s)" % (ea, eb)
                if op in ("/", "%"):
                    return "(%s %s %s)" % (ea, op, eb)
            elif r == "I64":
                if op in "+-*":
                    return "(i64 (%s %s %s))" % (ea, op, eb)
            elif r == "I32":
                if op in "+-*":
                    return "(%s %s %s)" % (ea, op, eb)
            raise Untranslatable("binary operator %s at type %s" % (op, r))
        if k == "CallExpr":
            return self.call(n, f, pre)
        raise Untranslatable("expression kind %s outside the subset" % k)

    def incdec(self, n, f, pre, value):
        """x++ / ++x / x-- / --x on a scalar local; returns the value of the expression"""
        a = strip(kids(n)[0])
        if a.get("kind") != "DeclRefExpr":
            raise Untranslatable("++/-- on something that is not a plain variable")
        name = a["referencedDecl"]["name"]
        if name not in f.env:
            raise Untranslatable("++/-- on %s" % name)
        r = self.rep(a)
        v = lname(name)
        if r in WRAPFN:
            new = "%s (%s + 1)" % (WRAPFN[r], v) if n["opcode"] == "++" else "%s (%s + %d - 1)" % (WRAPFN[r], v, MOD[r])
        elif r in ("I32", "I64"):
            new = ("%s + 1" if n["opcode"] == "++" else "%s - 1") % v
            if r == "I64":
                new = "i64 (%s)" % new
        else:
            raise Untranslatable("++/-- at type %s" % r)
        if n.get("isPostfix") and value:
            old = self.fresh("t")
            pre.append("let %s := %s" % (old, v))
            pre.append("let %s := %s" % (v, new))
            return old
        pre.append("let %s := %s" % (v, new))
        return v

    def call(self, n, f, pre):
        ks = kids(n)
        callee = strip(ks[0]).get("referencedDecl", {}).get("name")
        args = ks[1:]
        if callee in ("floor", "ceil", "fabs"):
            return "(CNum.%s %s)" % ({"floor": "floor", "ceil": "ceil", "fabs": "abs"}[callee], self.expr(args[0], f, pre))
        if callee == "ldexp":
            e = self.const_int(args[1])
            if e is None:
                raise Untranslatable("ldexp with a non-literal exponent")
            x = self.expr(args[0], f, pre)
            return "(%s * (%d : K))" % (x, 2 ** e) if e >= 0 else "(%s / (%d : K))" % (x, 2 ** (-e))
        if callee in LIBM_ABSTRACT:
            nm = LIBM_ABSTRACT[callee]
            if nm not in f.info.libm:
                f.info.libm.append(nm)
            return "(%s %s)" % (nm, " ".join(self.expr(a, f, pre) for a in args))
        if callee == "cmb_random_sfc64":
            f.info.draws = True
            c = self.fresh("c")
            pre.append("let %s := raw_ k_" % c)
            pre.append("let k_ := k_ + 1")
            return c
        if callee == f.info.name:
            if f.loop_depth:
                raise Untranslatable("recursive call inside a loop")
            i = len(f.info.ext_nat) + 1
            what = "%s(%s)" % (callee, ", ".join(self.expr(a, f, []) for a in args))
            f.info.ext.append(("x_self%d" % i, "the value of the recursive call " + what))
            f.info.ext_nat.append(("n_self%d" % i, "the number of raw words the recursive call " + what + " consumed"))
            f.info.draws = True
            pre.append("let k_ := k_ + n_self%d" % i)
            return "x_self%d" % i
        if callee in EXTERNAL:
            if f.loop_depth:
                raise Untranslatable("call of the untranslated sampler %s inside a loop" % callee)
            nm = "x_%s%d" % (callee.replace("cmb_random_", ""), len(f.info.ext) + 1)
            f.info.ext.append((nm, "%s(%s)" % (callee, ", ".join(self.expr(a, f, []) for a in args))))
            return nm
        if callee in self.fns:
            g = self.fns[callee]
            if g.fuel or g.statics or g.ext:
                raise Untranslatable("call of %s (has fuel / static / external inputs) from another translated function" % callee)
            for m in g.libm:
                if m not in f.info.libm:
                    f.info.libm.append(m)
            a = " ".join([self.expr(x, f, pre) for x in args] + g.libm)
            if g.draws:
                f.info.draws = True
                c = self.fresh("c")
                pre.append(("let %s := %s %s raw_ k_" % (c, callee, a)).replace("  ", " "))
                pre.append("let k_ := %s.2" % c)
                return "%s.1" % c
            return "(%s %s)" % (callee, a)
        raise Untranslatable("call of %s outside the subset" % callee)

    # ---- statements -----------------------------------------------------------------------------------
    def pack(self, vs):
        vs = [lname(v) for v in vs]
        if not vs:
            return "()"
        return vs[0] if len(vs) == 1 else "(" + ", ".join(vs) + ")"

    def unpack(self, vs, src):
        vs = [lname(v) for v in vs]
        if not vs:
            return []
        if len(vs) == 1:
            return ["let %s := %s" % (vs[0], src)]
        out = []
        for i, v in enumerate(vs):
            path = ".2" * i + (".1" if i < len(vs) - 1 else "")
            out.append("let %s := %s%s" % (v, src, path))
        return out

    def state_type(self, vs, f):
        ts = []
        for v in vs:
            ts.append("Nat" if v == "k_" else self.lean_type(f.env[v]))
        if not ts:
            return "Unit"
        return " × ".join("(%s)" % t if "→" in t else t for t in ts)

    def ret_term(self, e, f):
        if f.info.draws:
            e = "(%s, k_)" % e
        if f.info.fuel:
            e = "some %s" % e
        return e

    def fall(self, ctx, f):
        kind = ctx[0]
        if kind == "fn":
            if f.info.ret == "void":
                return self.ret_term("()", f)
            raise Untranslatable("control reaches the end of a non-void function")
        if kind == "loop":
            return "(false, %s)" % self.pack(ctx[1])
        return self.pack(ctx[1])

    def assign_to(self, lhs, val, f, pre):
        """lines performing  lhs = val"""
        l = strip(lhs)
        k = l.get("kind")
        if k == "DeclRefExpr":
            name = l["referencedDecl"]["name"]
            if name not in f.env:
                raise Untranslatable("assignment to %s, which is not a local or parameter" % name)
            return ["let %s := %s" % (lname(name), val)]
        if k == "ArraySubscriptExpr":
            a, i = kids(l)
            idx = self.expr(i, f, pre)
            a = strip(a)
            if a.get("kind") == "DeclRefExpr":
                name = a["referencedDecl"]["name"]
                return ["let %s := upd %s %s %s" % (lname(name), lname(name), idx, val)]
            if a.get("kind") == "MemberExpr" and a.get("isArrow"):
                s = strip(kids(a)[0])
                if s.get("kind") == "DeclRefExpr":
                    sv, fld = lname(s["referencedDecl"]["name"]), lname(a["name"])
                    return ["let %s := { %s with %s := upd %s.%s %s %s }" % (sv, sv, fld, sv, fld, idx, val)]
            raise Untranslatable("subscripted assignment target outside the subset")
        if k == "MemberExpr" and l.get("isArrow"):
            s = strip(kids(l)[0])
            if s.get("kind") == "DeclRefExpr":
                sv = lname(s["referencedDecl"]["name"])
                return ["let %s := { %s with %s := %s }" % (sv, sv, lname(l["name"]), val)]
        raise Untranslatable("assignment target %s outside the subset" % k)

    def alloc_value(self, n, target_rep):
        """cmi_calloc / cmi_malloc / NULL on the right of an initialisation or assignment of a pointer, else None"""
        x = strip(n)
        while x.get("kind") in ("ImplicitCastExpr", "CStyleCastExpr") and x.get("castKind") in ("BitCast", "NullToPointer", "NoOp"):
            if x.get("castKind") == "NullToPointer":
                x = {"kind": "NULL"}
                break
            x = strip(kids(x)[0])
        if x.get("kind") == "NULL" or (x.get("kind") == "CallExpr" and strip(kids(x)[0]).get("referencedDecl", {}).get("name") == "cmi_malloc"):
            if target_rep.startswith("S:"):
                fs = self.structs.get(target_rep[2:])
                if fs is None or any(r is None for _, r in fs):
                    raise Untranslatable("struct %s has fields outside the subset" % target_rep[2:])
                dflt = {"K": "(0 : K)", "PK": "(fun _ => (0 : K))", "PU": "(fun _ => (0 : Nat))", "Bool": "false"}
                return "({ " + ", ".join("%s := %s" % (lname(fn), dflt.get(r, "(0 : Nat)" if r in MOD else "(0 : Int)")) for fn, r in fs) + " } : %s)" % target_rep[2:]
            if x.get("kind") == "NULL":
                return "(fun _ => 0)"
        if x.get("kind") == "CallExpr" and strip(kids(x)[0]).get("referencedDecl", {}).get("name") == "cmi_calloc":
            if target_rep == "PK":
                return "(fun _ => (0 : K))"
            if target_rep == "PU":
                return "(fun _ => (0 : Nat))"
        return None

    def simple_stmt(self, s, f):
        """lines for a statement without control flow, or None"""
        k = s.get("kind")
        pre = []
        if k == "DeclStmt":
            out = []
            for v in kids(s):
                if v.get("kind") != "VarDecl":
                    raise Untranslatable("declaration %s" % v.get("kind"))
                r = self.rep_of_type(qt(v))
                name = v["name"]
                init = [c for c in kids(v) if not c.get("kind", "").endswith("Attr") and c.get("kind") != "FullComment"]
                if v.get("storageClass") == "static":
                    f.env[name] = r
                    f.info.statics.append((lname(name), self.lean_type(r)))
                    continue
                if name in f.env:
                    raise Untranslatable("local %s shadows another variable" % name)
                f.env[name] = r
                if init:
                    self.check_full_expression(init[0])
                    av = self.alloc_value(init[0], r) if (r.startswith("S:") or r in ("PK", "PU")) else None
                    val = av if av is not None else self.expr(init[0], f, pre)
                    out += pre + ["let %s : %s := %s" % (lname(name), self.lean_type(r), val)]
                    pre = []
            return out
        if k == "NullStmt":
            return []
        if self.release_assert(s) is not None:
            f.info.pre.append(self.release_assert(s)[1])
            return []
        if self.debug_assert_noop(s):
            return []
        if k == "CStyleCastExpr" and s.get("castKind") == "ToVoid":
            return []
        if k == "ParenExpr":
            return self.simple_stmt(kids(s)[0], f)
        if k == "CallExpr":
            callee = strip(kids(s)[0]).get("referencedDecl", {}).get("name")
            if callee == "cmi_free":
                return []
            raise Untranslatable("call statement %s" % callee)
        if k in ("BinaryOperator", "CompoundAssignOperator") and (n_op(s) == "=" or k == "CompoundAssignOperator"):
            self.check_full_expression(s)
            lhs, rhs = kids(s)
            tr = self.rep(lhs)
            if k == "CompoundAssignOperator":
                op = s["opcode"][:-1]
                cur = self.lvalue_read(lhs, f, pre)
                rv = self.expr(rhs, f, pre)
                if tr == "K":
                    val = "(%s %s %s)" % (cur, op, rv)
                elif tr in WRAPFN and op in "+*":
                    val = "(%s (%s %s %s))" % (WRAPFN[tr], cur, op, rv)
                elif tr in WRAPFN and op == "-":
                    val = "(%s (%s + %d - %s))" % (WRAPFN[tr], cur, MOD[tr], rv)
                else:
                    raise Untranslatable("compound assignment %s at %s" % (s["opcode"], tr))
            else:
                av = self.alloc_value(rhs, tr) if (tr.startswith("S:") or tr in ("PK", "PU")) else None
                val = av if av is not None else self.expr(rhs, f, pre)
            # side effects of the right-hand side and of the subscript come first (they are sequenced before the store)
            lines = self.assign_to(lhs, val, f, pre)
            return pre + lines
        if k == "UnaryOperator" and s.get("opcode") in ("++", "--"):
            self.incdec(s, f, pre, value=False)
            return pre
        return None

    def blk(self, ss, ctx, f):
        """lines of the value of the statement list `ss` followed by falling off into ctx"""
        if not ss:
            return [self.fall(ctx, f)]
        s, rest = ss[0], ss[1:]
        k = s.get("kind")
        if k == "CompoundStmt":
            return self.blk(kids(s) + rest, ctx, f)
        simple = self.simple_stmt(s, f)
        if simple is not None:
            return simple + self.blk(rest, ctx, f)
        if k == "AbstractRest":
            f.info.ext.append(("x_rest", s["what"]))
            return [self.ret_term("x_rest", f)]
        if k == "ReturnStmt":
            if f.loop_depth:
                raise Untranslatable("return inside a loop")
            if not kids(s):
                return [self.ret_term("()", f)]
            pre = []
            self.check_full_expression(kids(s)[0])
            e = self.expr(kids(s)[0], f, pre)
            return pre + [self.ret_term(e, f)]
        if k == "BreakStmt":
            if ctx[0] != "loop":
                raise Untranslatable("break outside a for loop (or inside a while loop)")
            return ["(true, %s)" % self.pack(ctx[1])]
        if k == "IfStmt":
            ks = kids(s)
            c, th = ks[0], ks[1]
            el = ks[2] if len(ks) > 2 else None
            pre = []
            self.check_full_expression(c)
            ec = self.cond(c, f, pre)
            envs = dict(f.env)
            if self.escapes(th) or (el is not None and self.escapes(el)):
                a = self.blk([th] + rest, ctx, f)
                f.env = dict(envs)
                b = self.blk(([el] if el is not None else []) + rest, ctx, f)
                f.env = envs
                return pre + ["if %s then" % ec] + ind(a) + ["else"] + ind(b)
            A = [v for v in self.assigned(s) if v in envs or v == "k_"]
            jc = ("join", A)
            a = self.blk([th], jc, f)
            f.env = dict(envs)
            b = self.blk([el] if el is not None else [], jc, f)
            f.env = envs
            if not A:
                return pre + self.blk(rest, ctx, f)
            j = self.fresh("j")
            lines = pre + ["let %s :=" % j, "  if %s then" % ec] + ind(a, 2) + ["  else"] + ind(b, 2)
            return lines + self.unpack(A, j) + self.blk(rest, ctx, f)
        if k == "ForStmt":
            parts = s.get("inner", [])
            if len(parts) != 5:
                raise Untranslatable("for statement of unexpected shape")
            init, _cv, cnd, inc, body = parts
            envs = dict(f.env)
            pre = []
            declared_here = False
            if init.get("kind") == "DeclStmt":
                vd = kids(init)[0]
                v = vd["name"]
                r = self.rep_of_type(qt(vd))
                i0 = self.expr([c for c in kids(vd)][0], f, pre)
                declared_here = True
                if v in f.env:
                    raise Untranslatable("loop variable %s shadows another variable" % v)
            elif init.get("kind") == "BinaryOperator" and init.get("opcode") == "=":
                v = self.base_var(kids(init)[0])
                r = f.env.get(v)
                i0 = self.expr(kids(init)[1], f, pre)
            else:
                raise Untranslatable("for-init outside the subset")
            if r not in MOD:
                raise Untranslatable("loop variable of type %s" % r)
            cn = strip(cnd) if cnd else {}
            if not (cn.get("kind") == "BinaryOperator" and cn.get("opcode") == "<" and
                    strip(kids(cn)[0]).get("referencedDecl", {}).get("name") == v):
                raise Untranslatable("for-condition is not `%s < bound`" % v)
            inc_ = strip(inc) if inc else {}
            if not (inc_.get("kind") == "UnaryOperator" and inc_.get("opcode") == "++" and
                    strip(kids(inc_)[0]).get("referencedDecl", {}).get("name") == v):
                raise Untranslatable("for-increment is not `%s++`" % v)
            A_all = self.assigned(body)
            if v in A_all:
                raise Untranslatable("the loop body assigns the loop variable %s" % v)
            bound_node = kids(cn)[1]
            if self.mentions(bound_node, set(A_all)):
                raise Untranslatable("the loop bound is modified by the loop body")
            if self.rep(bound_node) != r:
                raise Untranslatable("loop bound of another type than the loop variable")
            bound = self.expr(bound_node, f, pre)
            A = [x for x in A_all if x in envs or x == "k_"]
            f.env[v] = r
            st = self.fresh("st")
            f.loop_depth += 1
            b = self.blk([body], ("loop", A), f)
            f.loop_depth -= 1
            f.env = envs
            rr = self.fresh("r")
            lines = pre + ["let %s := forLoop %s (fun %s (%s : %s) =>" % (rr, bound, lname(v), st, self.state_type(A, f))]
            lines += ind(self.unpack(A, st) + b, 2)
            lines += ["  ) %s %s" % (i0, self.pack(A))]
            if not declared_here:
                lines.append("let %s := %s.1" % (lname(v), rr))
            lines += self.unpack(A, rr + ".2")
            return lines + self.blk(rest, ctx, f)
        if k == "WhileStmt":
            c, body = kids(s)
            if not f.info.fuel:
                raise Untranslatable("internal: while loop in a function not marked as needing fuel")
            if f.loop_depth:
                raise Untranslatable("while loop inside another loop")
            if self.escapes(body):
                raise Untranslatable("break / return inside a while loop")
            envs = dict(f.env)
            A = [x for x in self.assigned(s) if x in envs or x == "k_"]
            st = self.fresh("st")
            pc = []
            ec = self.cond(c, f, pc)
            if pc:
                raise Untranslatable("side effect in a while condition")
            f.loop_depth += 1
            b = self.blk([body], ("while", A), f)
            f.loop_depth -= 1
            f.env = envs
            st2 = self.fresh("st")
            T = self.state_type(A, f)
            lines = ["match whileFuel fuel_ (fun (%s : %s) =>" % (st, T)]
            lines += ind(self.unpack(A, st) + ["decide %s" % ec], 2)
            lines += ["  ) (fun (%s : %s) =>" % (st, T)]
            lines += ind(self.unpack(A, st) + b, 2)
            lines += ["  ) %s with" % self.pack(A), "| none => none", "| some %s =>" % st2]
            return lines + ind(self.unpack(A, st2) + self.blk(rest, ctx, f))
        raise Untranslatable("statement kind %s outside the subset" % k)

    # ---- functions ---------------------------------------------------------------------------------------
    @staticmethod
    def cut_body(body):
        """PARTIAL functions: keep the leading statements, replace the rest by one abstract input"""
        ss = kids(body)
        for i, st in enumerate(ss):
            k = st.get("kind")
            static_decl = k == "DeclStmt" and any(v.get("storageClass") == "static" for v in kids(st))
            loop = k in ("ForStmt", "WhileStmt") or (k == "DoStmt" and not DistTranslator.debug_assert_noop(st))
            if static_decl or loop:
                what = "statements %d..%d of the body (%s ...): not modelled" % (i + 1, len(ss), "function-static cache" if static_decl else "loop")
                return {"kind": "CompoundStmt", "inner": ss[:i] + [{"kind": "AbstractRest", "what": what}]}
        return body

    def function(self, fn, partial=False):
        name = fn["name"]
        info = FnInfo(name)
        f = type("F", (), {})()
        f.info, f.env, f.loop_depth = info, {}, 0
        body = None
        for c in kids(fn):
            if c.get("kind") == "ParmVarDecl":
                r = self.rep_of_type(qt(c))
                f.env[c["name"]] = r
                info.params.append((lname(c["name"]), self.lean_type(r)))
            elif c.get("kind") == "CompoundStmt":
                body = c
        rt = qt(fn).split("(")[0].strip()
        info.ret = self.rep_of_type(rt)
        if partial:
            body = self.cut_body(body)

        def has(n, kind):
            return isinstance(n, dict) and (n.get("kind") == kind or any(has(c, kind) for c in kids(n)))
        info.fuel = has(body, "WhileStmt")
        # does it draw (directly or through a callee)?  needed before translating `return`
        self.fns[name] = info
        info.draws = "k_" in self.assigned(body) or self.calls_self(body, name)          # (recursion is not supported: a self call would see incomplete info)
        lines = self.blk([body], ("fn",), f)
        sig = ["(%s : %s)" % p for p in info.params]
        sig += ["(%s : K → K)" % m if m != "fpow" else "(fpow : K → K → K)" for m in info.libm]
        sig += ["(%s : K)" % nm for nm, _ in info.ext]
        sig += ["(%s : Nat)" % nm for nm, _ in info.ext_nat]
        sig += ["(%s : %s)" % p for p in info.statics]
        if info.draws:
            sig += ["(raw_ : Nat → Nat) (k_ : Nat)"]
        if info.fuel:
            sig += ["(fuel_ : Nat)"]
        rt_l = "Unit" if info.ret == "void" else self.lean_type(info.ret)
        if info.draws:
            rt_l = "%s × Nat" % rt_l
        if info.fuel:
            rt_l = "Option (%s)" % rt_l
        text = "def %s %s : %s :=\n%s\n" % (name, " ".join(sig), rt_l, "\n".join(ind(lines)))
        return text, info

    # ---- fragments ------------------------------------------------------------------------------------------
    def find_do_while(self, fn):
        """the one do-while loop of `fn` that is not an assert, and the statement that follows it in its block"""
        found = []

        def rec(n):
            if not isinstance(n, dict):
                return
            if n.get("kind") == "CompoundStmt":
                ks = kids(n)
                for i, st in enumerate(ks):
                    if st.get("kind") == "DoStmt" and not self.debug_assert_noop(st):
                        found.append((st, ks[i + 1] if i + 1 < len(ks) else None))
            for c in kids(n):
                rec(c)
        rec(fn)
        if len(found) != 1:
            raise Untranslatable("%s: expected exactly one do-while loop, found %d" % (fn.get("name"), len(found)))
        return found[0]

    def local_types(self, fn):
        env = {}

        def rec(n):
            if isinstance(n, dict):
                if n.get("kind") in ("VarDecl", "ParmVarDecl") and n.get("storageClass") != "static":
                    r = self.rep_of_type(qt(n), soft=True)
                    if r is not None:
                        env[n["name"]] = r
                for c in kids(n):
                    rec(c)
        rec(fn)
        return env

    def local_reads(self, n, env, acc):
        """locals whose VALUE is used below n (the plain left side of an assignment is not a read)"""
        if not isinstance(n, dict):
            return acc
        if n.get("kind") == "BinaryOperator" and n.get("opcode") == "=":
            l, r_ = kids(n)
            if strip(l).get("kind") != "DeclRefExpr":
                self.local_reads(l, env, acc)
            return self.local_reads(r_, env, acc)
        if n.get("kind") == "DeclRefExpr":
            nm = n.get("referencedDecl", {}).get("name")
            if nm in env and nm not in acc:
                acc.append(nm)
            return acc
        for c in kids(n):
            self.local_reads(c, env, acc)
        return acc

    def do_while_fragment(self, fn, stem):
        """-> (lean text of <stem>_iter and <stem>_result, info)"""
        do, after = self.find_do_while(fn)
        body, cnd = kids(do)
        if after is None or after.get("kind") != "ReturnStmt":
            raise Untranslatable("%s: the do-while loop is not followed by a return" % fn["name"])
        env_all = self.local_types(fn)
        out = []
        infos = []
        # ---- one iteration
        info = FnInfo(stem + "_iter")
        f = type("F", (), {})()
        f.info, f.env, f.loop_depth = info, dict(env_all), 0
        stmts = kids(body) if body.get("kind") == "CompoundStmt" else [body]
        assigned, params, lines = [], [], []
        for st in stmts:
            for v in self.local_reads(st, env_all, []):
                if v not in assigned and v not in params:
                    params.append(v)
            ls = self.simple_stmt(st, f)
            if ls is None:
                raise Untranslatable("%s: statement %s inside the do-while body is outside the subset" % (fn["name"], st.get("kind")))
            lines += ls
            for v in self.assigned(st):
                if v in env_all and v not in assigned:
                    assigned.append(v)
        for v in self.local_reads(cnd, env_all, []):
            if v not in assigned and v not in params:
                params.append(v)
        pre = []
        self.check_full_expression(cnd)
        ec = self.cond(cnd, f, pre)
        if pre or info.draws or info.statics or info.fuel:
            raise Untranslatable("%s: side effect in the do-while condition / draw in the fragment" % fn["name"])
        sig = ["(%s : %s)" % (lname(v), self.lean_type(env_all[v])) for v in params]
        sig += ["(%s : K → K)" % m if m != "fpow" else "(fpow : K → K → K)" for m in info.libm]
        sig += ["(%s : K)" % nm for nm, _ in info.ext]
        rt = " × ".join([self.lean_type(env_all[v]) for v in assigned] + ["Bool"])
        res = "(" + ", ".join([lname(v) for v in assigned] + ["decide %s" % ec]) + ")"
        out.append("def %s_iter %s : %s :=\n%s\n" % (stem, " ".join(sig), rt, "\n".join(ind(lines + [res]))))
        infos.append({"name": stem + "_iter", "parameters": params, "assigned": assigned, "abstract_inputs": [e[1] for e in info.ext]})
        # ---- the value returned after the loop
        info2 = FnInfo(stem + "_result")
        f2 = type("F", (), {})()
        f2.info, f2.env, f2.loop_depth = info2, dict(env_all), 0
        rexpr = kids(after)[0]
        rparams = self.local_reads(rexpr, env_all, [])
        pre = []
        e = self.expr(rexpr, f2, pre)
        if pre or info2.ext:
            raise Untranslatable("%s: side effect / draw in the return after the do-while" % fn["name"])
        sig = ["(%s : %s)" % (lname(v), self.lean_type(env_all[v])) for v in rparams]
        sig += ["(%s : K → K)" % m for m in info2.libm]
        out.append("def %s_result %s : %s :=\n  %s\n" % (stem, " ".join(sig), self.lean_type(self.rep(rexpr)), e))
        infos.append({"name": stem + "_result", "parameters": rparams})
        return "\n".join(out), infos

    def update_fragment(self, fn, var, lean_name):
        """the ONE statement of `fn` (outside declarations) that assigns the local `var`, as a function of the local's value
        (and of whatever other locals it reads): `x_offset += T` -> `def <lean_name> (x_offset : K) : K := x_offset + T`.
        Also returns the initial value given in the declaration of `var`."""
        hits, init = [], []

        def rec(n):
            if not isinstance(n, dict):
                return
            k = n.get("kind")
            if k in ("BinaryOperator", "CompoundAssignOperator") and (n.get("opcode") == "=" or k == "CompoundAssignOperator"):
                l = strip(kids(n)[0])
                if l.get("kind") == "DeclRefExpr" and l["referencedDecl"].get("name") == var:
                    hits.append(n)
            if k == "UnaryOperator" and n.get("opcode") in ("++", "--") and self.base_var(kids(n)[0]) == var:
                hits.append(n)
            if k == "VarDecl" and n.get("name") == var:
                init.extend(c for c in kids(n) if not c.get("kind", "").endswith("Attr") and c.get("kind") != "FullComment")
            for c in kids(n):
                rec(c)
        rec(fn)
        if len(hits) != 1 or len(init) != 1:
            raise Untranslatable("%s: expected one initialiser and exactly one assignment of %s, found %d / %d" % (
                fn.get("name"), var, len(init), len(hits)))
        env_all = self.local_types(fn)
        info = FnInfo(lean_name)
        f = type("F", (), {})()
        f.info, f.env, f.loop_depth = info, dict(env_all), 0
        params = [var] + [v for v in self.local_reads(hits[0], env_all, []) if v != var]
        lines = self.simple_stmt(hits[0], f)
        if lines is None or info.draws or info.ext or info.libm:
            raise Untranslatable("%s: the assignment of %s is outside the subset" % (fn.get("name"), var))
        sig = " ".join("(%s : %s)" % (lname(v), self.lean_type(env_all[v])) for v in params)
        text = "def %s %s : %s :=\n%s\n" % (lean_name, sig, self.lean_type(env_all[var]), "\n".join(ind(lines + [lname(var)])))
        pre = []
        i0 = self.expr(init[0], f, pre)
        text += "\ndef %s_init : %s := %s\n" % (lean_name, self.lean_type(env_all[var]), i0)
        return text, {"name": lean_name, "variable": var, "parameters": params}

    def calls_self(self, n, name):
        if not isinstance(n, dict):
            return False
        if n.get("kind") == "CallExpr" and strip(kids(n)[0]).get("referencedDecl", {}).get("name") == name:
            return True
        return any(self.calls_self(c, name) for c in kids(n))

    def struct_decl(self, name):
        fs = self.structs.get(name)
        if fs is None or any(r is None for _, r in fs):
            raise Untranslatable("struct %s not found or has fields outside the subset" % name)
        return "structure %s where\n%s\n" % (name, "\n".join("  %s : %s" % (lname(fn), self.lean_type(r)) for fn, r in fs))


def n_op(s):
    return s.get("opcode")


def ind(lines, n=1):
    return [("  " * n) + l for l in lines]
