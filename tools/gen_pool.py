"""T-gen for the size arithmetic of cmi_mempool_initialize -> lean/CimbaModel/Generated/Mempool.lean

What is regenerated from the C AST of the current src/cmi_mempool.c on every run:
  * `initialize_sizes page mp obj_sz obj_num : MP` — the assignments to obj_sz, incr_sz, incr_num, chunk_list_len,
    chunk_list_cnt with their locals (page rounding, objects per chunk), in 64-bit wrap-around arithmetic;
    `cmi_pagesize()` becomes the parameter `page`, `CHUNK_LIST_SIZE` arrives macro-expanded as a literal;
  * `initialize_asserts obj_sz obj_num : Bool` — the conjunction of the conditions of its cmb_assert_release lines;
  * `chunk_list_size : Nat` — CHUNK_LIST_SIZE as the preprocessor sees it (the value handed to the model driver);
  * `expand_links mp`, `expand_stride mp` — from cmi_mempool_expand: the trip count of the loop that threads the objects
    of a fresh chunk (for / while / do-while counting loops whose body is exactly `*vp = vp + stride; vp = *vp;` and that
    are followed by `*vp = NULL`) and its stride; Props/C20 proves them equal to what the model's addChunk passes to
    threadLoop (incr_num - 1 steps of obj_sz / 8 words) for every incr_num >= 1.
Statements that are deliberately NOT translated (hand-modelled, tied by correspondence only): the stores to the
pointer / tag fields `cookie`, `chunk_list` (= cmi_malloc(...)), `next_obj`.  Any other statement kind is
Untranslatable = broken tie.
Props/C20.lean proves that the hand-written `initPool` computes exactly these sizes and fails exactly these asserts.
"""
import hashlib
import os

import c2lean
import poolcorr
import vlib

MPOOL = {"lean": "MP", "fields": {"obj_sz": ("objSz", "u64"), "incr_sz": ("incrSz", "u64"), "incr_num": ("incrNum", "u64"),
                                  "chunk_list_len": ("listLen", "u64"), "chunk_list_cnt": ("listCnt", "u64")}}
SKIPPED_FIELDS = {"cookie", "chunk_list", "next_obj"}


def _strip(n):
    while n.get("kind") in ("ParenExpr", "ImplicitCastExpr"):
        n = n["inner"][0]
    return n


def release_assert_cond(s):
    """cmb_assert_release(x) expands to ((x) ? (void)(0) : <call>): returns the AST of x, or None."""
    n = _strip(s)
    if n.get("kind") != "ConditionalOperator" or len(n.get("inner", [])) != 3:
        return None
    c, a, b = n["inner"]
    if _strip(a).get("kind") != "CStyleCastExpr" or _strip(a).get("castKind") != "ToVoid":
        return None
    if _strip(b).get("kind") != "CallExpr":
        return None
    return c


def skipped_store(s):
    if s.get("kind") == "BinaryOperator" and s.get("opcode") == "=":
        lhs = _strip(s["inner"][0])
        if lhs.get("kind") == "MemberExpr" and lhs.get("name") in SKIPPED_FIELDS:
            return lhs["name"]
    return None


# ---------------------------------------------------------------------------
# the loop of cmi_mempool_expand that threads the objects of a fresh chunk
# ---------------------------------------------------------------------------

def _core(n):
    while n.get("kind") in ("ParenExpr", "ImplicitCastExpr", "CStyleCastExpr") and n.get("castKind") != "ToVoid":
        n = n["inner"][0]
    return n


def _ref(n):
    n = _core(n)
    return n["referencedDecl"]["name"] if n.get("kind") == "DeclRefExpr" else None


def _deref(n):
    n = _core(n)
    return _ref(n["inner"][0]) if n.get("kind") == "UnaryOperator" and n.get("opcode") == "*" else None


def _assign(s):
    s = _core(s)
    return (s["inner"][0], s["inner"][1]) if s.get("kind") == "BinaryOperator" and s.get("opcode") == "=" else None


def _literal(n):
    n = _core(n)
    return int(n["value"]) if n.get("kind") == "IntegerLiteral" else None


def _incr(n, var):
    """'pre' / 'post' if n is ++var"""
    n = _core(n)
    if n.get("kind") == "UnaryOperator" and n.get("opcode") == "++" and _ref(n["inner"][0]) == var:
        return "post" if n.get("isPostfix") else "pre"
    return None


def _is_next_obj_store(s):
    a = _assign(s)
    if not a:
        return False
    l = _core(a[0])
    return l.get("kind") == "MemberExpr" and l.get("name") == "next_obj"


def expand_loop(tr, fn):
    """Recognise the loop of cmi_mempool_expand that threads the objects of a fresh chunk, up to spelling:

        <locals>  [for | while | do-while counting loop]  { one step }  *P = NULL;

    * P, the chain pointer, is the `void **` local declared (with a value) in the run of declarations before the loop;
      the other locals of that run are scalars (stride, hoisted loop bound, counter) in any order and under any name:
      reads of them are replaced by their initialisers.  Only declarations, asserts and the store `mp->next_obj = …`
      may stand between the last other statement and the loop, so a hoisted bound reads the same pool fields as the
      loop would.
    * one step is evaluated symbolically (pointer values of the form cur / cur + S with cur = P at the start of the
      step): whatever the statements are called and however they are ordered, the step must store cur + S into *cur
      exactly once, store nowhere else, and leave P = cur + S, for one loop-invariant scalar S.  Accepted spellings include
      `*vp = vp + s; vp = *vp;`,  `next = link + s; *link = next; link = next;`,  `*vp = vp + s; vp += s;`.
    * the loop must count: `for (c = a; c < E; ++c)`, `c = a; while (c < E) { step; ++c; }`,
      `c = a; do { step } while (++c < E)` (or `c++ < E`), a literal a, E a loop-invariant scalar; the trip count is
      E - a, resp. max 1 (E - a) / max 1 (E + 1 - a) for do-while.  Address-bounded walks are rejected.
    Returns (lean expr of the number of steps, lean expr of S, loop form); raises Untranslatable otherwise.
    Whether the count and the stride are the right ones is NOT decided here: Props/C20 proves it (or fails to)."""
    U = c2lean.Untranslatable
    body = [c for c in fn["inner"] if c.get("kind") == "CompoundStmt"][0]
    stmts = [s for s in body["inner"] if not tr.is_assert_noop(s)]
    env0 = {p["name"]: p["name"] for p in fn["inner"] if p.get("kind") == "ParmVarDecl"}
    loops = [i for i, s in enumerate(stmts) if s.get("kind") in ("ForStmt", "WhileStmt") or
             (s.get("kind") == "DoStmt")]
    if len(loops) != 1:
        raise U("cmi_mempool_expand: expected exactly one loop, found %d" % len(loops))
    li = loops[0]
    loop = stmts[li]
    # the run of declarations (and the next_obj store) right before the loop
    start = li
    while start > 0 and (stmts[start - 1].get("kind") == "DeclStmt" or _is_next_obj_store(stmts[start - 1])):
        start -= 1
    env = dict(env0)       # scalar locals -> lean expression of their value
    lits = {}              # scalar locals initialised with a literal
    ptrs = {}              # pointer locals -> symbolic value
    chain = None

    def is_ptr(v):
        return c2lean.qt(v).replace("const", "").replace(" ", "").endswith("*")

    def declare(v, pstate):
        nonlocal chain
        init = [c for c in v.get("inner", []) if c.get("kind") != "FullComment"]
        if v.get("kind") != "VarDecl":
            raise U("cmi_mempool_expand: declaration kind %s next to the chaining loop" % v.get("kind"))
        if is_ptr(v):
            if pstate is None:
                if c2lean.norm_type(c2lean.qt(v)).replace("const", "").replace(" ", "") == "void**" and init:
                    if chain is not None:
                        raise U("cmi_mempool_expand: two candidate chain pointers (%s, %s)" % (chain, v["name"]))
                    chain = v["name"]
                return
            if not init:
                raise U("pointer local %s declared without a value in the loop body" % v["name"])
            pstate["vars"][v["name"]] = peval(init[0], pstate)
            return
        if not init:
            raise U("scalar local %s declared without a value next to the chaining loop" % v["name"])
        if _literal(init[0]) is not None:
            lits[v["name"]] = _literal(init[0])
        env[v["name"]] = "(%s)" % tr.expr(init[0], env)

    for s in stmts[start:li]:
        if s.get("kind") == "DeclStmt":
            for v in s["inner"]:
                declare(v, None)
    if chain is None:
        raise U("cmi_mempool_expand: no `void **` chain pointer declared in the declarations before the loop")

    # ---- symbolic evaluation of one step -------------------------------------------------------------------
    def scalar(n):
        return tr.expr(n, env)

    def peval(n, st):
        n = _core(n)
        k = n.get("kind")
        if k == "DeclRefExpr":
            name = n["referencedDecl"]["name"]
            if name in st["vars"]:
                return st["vars"][name]
            raise U("chaining loop: pointer expression reads %s" % name)
        if k == "UnaryOperator" and n.get("opcode") == "*":
            tgt = peval(n["inner"][0], st)
            if tgt == ("cur", None) and st["stored"] is not None:
                return st["stored"]
            raise U("chaining loop: reads through a pointer other than the link just written")
        if k == "BinaryOperator" and n.get("opcode") == "+":
            l, r = n["inner"]
            base = peval(l, st)
            if base != ("cur", None):
                raise U("chaining loop: pointer arithmetic on something other than the current object")
            return ("cur", scalar(r))
        raise U("chaining loop: pointer expression kind %s" % k)

    def step(b, counter=None):
        st = {"vars": {chain: ("cur", None)}, "stored": None}
        counted = False
        ss = [x for x in (b["inner"] if b.get("kind") == "CompoundStmt" else [b]) if not tr.is_assert_noop(x)]
        for x in ss:
            if x.get("kind") == "DeclStmt":
                for v in x["inner"]:
                    if not is_ptr(v):
                        raise U("chaining loop: scalar declaration inside the loop body")
                    declare(v, st)
                continue
            if counter and _incr(x, counter):
                if counted:
                    raise U("chaining loop: counter incremented twice")
                counted = True
                continue
            c = _core(x)
            if c.get("kind") == "CompoundAssignOperator" and c.get("opcode") == "+=" and _ref(c["inner"][0]) in st["vars"]:
                name = _ref(c["inner"][0])
                if st["vars"][name] != ("cur", None):
                    raise U("chaining loop: += on a pointer that has already moved")
                st["vars"][name] = ("cur", scalar(c["inner"][1]))
                continue
            a = _assign(x)
            if not a:
                raise U("chaining loop: statement kind %s in the loop body" % c.get("kind"))
            lhs = _core(a[0])
            if lhs.get("kind") == "UnaryOperator" and lhs.get("opcode") == "*":
                if peval(lhs["inner"][0], st) != ("cur", None) or st["stored"] is not None:
                    raise U("chaining loop: a store other than the one link of the current object")
                st["stored"] = peval(a[1], st)
            elif _ref(lhs) in st["vars"]:
                st["vars"][_ref(lhs)] = peval(a[1], st)
            else:
                raise U("chaining loop: assignment to %s in the loop body" % (_ref(lhs) or lhs.get("kind")))
        if counter and not counted:
            raise U("chaining while-loop does not increment its counter")
        nxt = st["vars"][chain]
        if st["stored"] is None or nxt[0] != "cur" or nxt[1] is None or st["stored"] != nxt:
            raise U("chaining loop: one step must store cur + S into *cur and advance the chain pointer to cur + S")
        return nxt[1]

    def counter_start(name):
        if name not in lits:
            raise U("chaining loop counter %s does not start from a literal" % name)
        return lits[name]

    def bound(cond, lhs_ok):
        c = _core(cond)
        if c.get("kind") != "BinaryOperator" or c.get("opcode") != "<" or not lhs_ok(c["inner"][0]):
            raise U("chaining loop condition is not `counter < bound` (address-bounded walks are not counting loops)")
        return tr.expr(c["inner"][1], env)

    k = loop["kind"]
    if k == "ForStmt":
        init, _, cond, inc, b = loop["inner"]
        ui = None
        if init.get("kind") == "DeclStmt" and len(init["inner"]) == 1 and init["inner"][0].get("kind") == "VarDecl":
            ui = init["inner"][0]["name"]
            declare(init["inner"][0], None)
        elif _assign(init) and _ref(_assign(init)[0]) and _literal(_assign(init)[1]) is not None:
            ui = _ref(_assign(init)[0])
            lits[ui] = _literal(_assign(init)[1])
        if ui is None or not _incr(inc, ui):
            raise U("chaining for-loop: counter declaration / increment not recognised")
        a0 = counter_start(ui)
        env.pop(ui, None)
        E = bound(cond, lambda l: _ref(l) == ui)
        stride = step(b)
        count = "(%s - %d)" % (E, a0)
    elif k == "WhileStmt":
        cond, b = loop["inner"]
        c = _core(cond)
        ui = _ref(c["inner"][0]) if c.get("kind") == "BinaryOperator" else None
        if ui is None or ui not in lits:
            raise U("chaining while-loop without a counter (address-bounded walks are not counting loops)")
        a0 = counter_start(ui)
        env.pop(ui, None)
        E = bound(cond, lambda l: _ref(l) == ui)
        stride = step(b, counter=ui)
        count = "(%s - %d)" % (E, a0)
    else:
        b, cond = loop["inner"]
        c = _core(cond)
        lhs = c["inner"][0] if c.get("kind") == "BinaryOperator" else None
        ui = _ref(_core(lhs)["inner"][0]) if lhs is not None and _core(lhs).get("kind") == "UnaryOperator" else None
        mode = _incr(lhs, ui) if ui else None
        if not mode:
            raise U("chaining do-while-loop: condition is not `++counter < bound`")
        a0 = counter_start(ui)
        env.pop(ui, None)
        E = bound(cond, lambda l: _incr(l, ui) is not None)
        stride = step(b)
        # the body runs once before the first test
        count = "(Nat.max 1 (%s - %d))" % (E, a0) if mode == "pre" else "(Nat.max 1 (%s + 1 - %d))" % (E, a0)
    # after the loop: exactly `*P = NULL`
    rest = stmts[li + 1:]
    a = _assign(rest[0]) if rest else None
    if not a or _deref(a[0]) != chain or _literal(a[1]) != 0:
        raise U("cmi_mempool_expand: the chaining loop is not followed by `*%s = NULL`" % chain)
    if len(rest) != 1:
        raise U("cmi_mempool_expand: statements after the NULL terminator")
    return count, stride, {"ForStmt": "for", "WhileStmt": "while", "DoStmt": "do-while"}[k]


def generate(impl):
    incs = [os.path.join(vlib.REPO, "include"), os.path.join(vlib.REPO, "src"), impl["dir"]]
    path = os.path.join(vlib.REPO, "src", "cmi_mempool.c")
    docs = c2lean.clang_ast(path, "cmi_mempool_initialize", incs)
    fn = c2lean.find_function(docs, "cmi_mempool_initialize")
    tr = c2lean.Translator(
        types={"size_t": "u64", "unsigned long": "u64", "uint64_t": "u64", "unsigned int": "u32", "int": "int"},
        structs={"struct cmi_mempool *": MPOOL}, funcs={"cmi_pagesize": "page"})
    body = [c for c in fn["inner"] if c.get("kind") == "CompoundStmt"][0]
    kept, conds, skipped = [], [], []
    env = {p["name"]: p["name"] for p in fn["inner"] if p.get("kind") == "ParmVarDecl"}
    for s in body.get("inner", []):
        c = release_assert_cond(s)
        if c is not None:
            conds.append(tr.boolify(c, env))
            continue
        f = skipped_store(s)
        if f:
            skipped.append(f)
            continue
        kept.append(s)
    if sorted(skipped) != sorted(SKIPPED_FIELDS):
        raise c2lean.Untranslatable("cmi_mempool_initialize: expected exactly one store to each of %s, found %s"
                                    % (sorted(SKIPPED_FIELDS), sorted(skipped)))
    fn2 = dict(fn)
    fn2["inner"] = [c for c in fn["inner"] if c.get("kind") == "ParmVarDecl"] + [dict(body, inner=kept)]
    text = tr.function(fn2, "initialize_sizes", written_params=("mp",))
    # the chaining loop of cmi_mempool_expand
    docs_e = c2lean.clang_ast(path, "cmi_mempool_expand", incs)
    fn_e = c2lean.find_function(docs_e, "cmi_mempool_expand")
    count, stride, form = expand_loop(tr, fn_e)
    cls = poolcorr.chunk_list_size(impl)
    if cls is None:
        raise c2lean.Untranslatable("CHUNK_LIST_SIZE not found by the preprocessor in src/cmi_mempool.c")
    # c2lean.ast_hash is not stable on this function (clang emits pointer-valued keys besides id); hash the translation
    h = hashlib.sha256((text + repr(conds) + count + stride).encode()).hexdigest()[:16]
    out = ["/- GENERATED by tools/gen_pool.py from /repo's current sources on every run. Do not edit. -/",
           "import CimbaModel.Mempool.Model", "", "namespace CimbaModel.Generated.Mempool", "open CimbaModel.Mempool", "",
           "/-- CHUNK_LIST_SIZE of src/cmi_mempool.c as the preprocessor sees it -/",
           "def chunk_list_size : Nat := %d" % cls, "",
           "section", "variable (page : Nat)", "",
           "/-- src/cmi_mempool.c:cmi_mempool_initialize, size arithmetic only (translation %s); `page` = cmi_pagesize() -/" % h,
           text, "end", "",
           "/-- the conditions of the cmb_assert_release lines of cmi_mempool_initialize -/",
           "def initialize_asserts (obj_sz : Nat) (obj_num : Nat) : Bool :=\n  %s" % (" && ".join(conds) if conds else "true"), "",
           "/-- src/cmi_mempool.c:cmi_mempool_expand: how many times the %s loop that threads a fresh chunk executes" % form,
           "    `*vp = vp + stride; vp = *vp;` before the final `*vp = NULL` (64-bit arithmetic of the loop bound) -/",
           "def expand_links (mp : MP) : Nat :=\n  %s" % count, "",
           "/-- the stride of that loop in 8-byte words -/",
           "def expand_stride (mp : MP) : Nat :=\n  %s" % stride, "",
           "end CimbaModel.Generated.Mempool"]
    info = {"file": "src/cmi_mempool.c", "function": "cmi_mempool_initialize", "translation_hash": h, "CHUNK_LIST_SIZE": cls,
            "release_asserts": len(conds), "not_translated": sorted(skipped),
            "expand_loop_form": form}
    return "\n".join(out) + "\n", info


def run(impl):
    text, info = generate(impl)
    changed = vlib.write_if_changed(os.path.join(vlib.GEN, "Mempool.lean"), text)
    return info, changed


if __name__ == "__main__":
    impl = vlib.build_impl("rel")
    print(generate(impl)[0])
