"""T-gen for the size arithmetic of cmi_mempool_initialize -> lean/CimbaModel/Generated/Mempool.lean

What is regenerated from the C AST of the current src/cmi_mempool.c on every run:
  * `initialize_sizes page mp obj_sz obj_num : MP` — the assignments to obj_sz, incr_sz, incr_num, chunk_list_len,
    chunk_list_cnt with their locals (page rounding, objects per chunk), in 64-bit wrap-around arithmetic;
    `cmi_pagesize()` becomes the parameter `page`, `CHUNK_LIST_SIZE` arrives macro-expanded as a literal;
  * `initialize_asserts obj_sz obj_num : Bool` — the conjunction of the conditions of its cmb_assert_release lines;
  * `chunk_list_size : Nat` — CHUNK_LIST_SIZE as the preprocessor sees it (the value handed to the model driver);
  * `expand_links mp`, `expand_stride mp` — from cmi_mempool_expand: the trip count of the loop that threads the objects
    of a fresh chunk (for / while / do-while counting loops whose body is exactly `*vp = vp + stride; vp = *vp;` and that
    are followed by `*vp = NULL`) and its stride; Props/C20 proves them equal to what the model's addChunk passes to
    threadLoop (incr_num - 1 steps of obj_sz / 8 words) for every incr_num >= 1.
Statements that are deliberately NOT translated (hand-modelled, tied by correspondence only): the stores to the
pointer / tag fields `cookie`, `chunk_list` (= cmi_malloc(...)), `next_obj`.  Any other statement kind is
Untranslatable = broken tie.
Props/C20.lean proves that the hand-written `initPool` computes exactly these sizes and fails exactly these asserts.
"""
import hashlib
import os

import c2lean
import poolcorr
import vlib

MPOOL = {"lean": "MP", "fields": {"obj_sz": ("objSz", "u64"), "incr_sz": ("incrSz", "u64"), "incr_num": ("incrNum", "u64"),
                                  "chunk_list_len": ("listLen", "u64"), "chunk_list_cnt": ("listCnt", "u64")}}
SKIPPED_FIELDS = {"cookie", "chunk_list", "next_obj"}


def _strip(n):
    while n.get("kind") in ("ParenExpr", "ImplicitCastExpr"):
        n = n["inner"][0]
    return n


def release_assert_cond(s):
    """cmb_assert_release(x) expands to ((x) ? (void)(0) : <call>): returns the AST of x, or None."""
    n = _strip(s)
    if n.get("kind") != "ConditionalOperator" or len(n.get("inner", [])) != 3:
        return None
    c, a, b = n["inner"]
    if _strip(a).get("kind") != "CStyleCastExpr" or _strip(a).get("castKind") != "ToVoid":
        return None
    if _strip(b).get("kind") != "CallExpr":
        return None
    return c


def skipped_store(s):
    if s.get("kind") == "BinaryOperator" and s.get("opcode") == "=":
        lhs = _strip(s["inner"][0])
        if lhs.get("kind") == "MemberExpr" and lhs.get("name") in SKIPPED_FIELDS:
            return lhs["name"]
    return None


# ---------------------------------------------------------------------------
# the loop of cmi_mempool_expand that threads the objects of a fresh chunk
# ---------------------------------------------------------------------------

def _core(n):
    while n.get("kind") in ("ParenExpr", "ImplicitCastExpr", "CStyleCastExpr") and n.get("castKind") != "ToVoid":
        n = n["inner"][0]
    return n


def _ref(n):
    n = _core(n)
    return n["referencedDecl"]["name"] if n.get("kind") == "DeclRefExpr" else None


def _deref(n):
    n = _core(n)
    return _ref(n["inner"][0]) if n.get("kind") == "UnaryOperator" and n.get("opcode") == "*" else None


def _assign(s):
    s = _core(s)
    return (s["inner"][0], s["inner"][1]) if s.get("kind") == "BinaryOperator" and s.get("opcode") == "=" else None


def _literal(n):
    n = _core(n)
    return int(n["value"]) if n.get("kind") == "IntegerLiteral" else None


def _incr(n, var):
    """'pre' / 'post' if n is ++var"""
    n = _core(n)
    if n.get("kind") == "UnaryOperator" and n.get("opcode") == "++" and _ref(n["inner"][0]) == var:
        return "post" if n.get("isPostfix") else "pre"
    return None


def expand_loop(tr, fn):
    """Recognise  `vp = ap; [for|while|do-while counting loop] { *vp = vp + stride; vp = *vp; }  *vp = NULL;`  in
    cmi_mempool_expand and return (lean expr of the number of link steps, lean expr of the stride, loop form).
    Raises Untranslatable for any other shape (the loop is then tied by correspondence only and the check says so)."""
    U = c2lean.Untranslatable
    body = [c for c in fn["inner"] if c.get("kind") == "CompoundStmt"][0]
    stmts = [s for s in body["inner"] if not tr.is_assert_noop(s)]
    env = {p["name"]: p["name"] for p in fn["inner"] if p.get("kind") == "ParmVarDecl"}
    # chain pointer: the local of type void ** ; everything of interest comes after its declaration
    start, vp = None, None
    for i, s in enumerate(stmts):
        if s.get("kind") == "DeclStmt":
            for v in s["inner"]:
                if v.get("kind") == "VarDecl" and c2lean.norm_type(c2lean.qt(v)) == "void **":
                    start, vp = i, v["name"]
    if vp is None:
        raise U("cmi_mempool_expand: no local of type void ** (chain pointer) found")
    locs = {}          # scalar locals declared with an initialiser: name -> init AST
    loop, loop_i = None, None
    for i in range(start + 1, len(stmts)):
        s = stmts[i]
        if s.get("kind") == "DeclStmt":
            for v in s["inner"]:
                init = [c for c in v.get("inner", []) if c.get("kind") != "FullComment"]
                if v.get("kind") != "VarDecl" or not init:
                    raise U("cmi_mempool_expand: declaration without initialiser before the chaining loop")
                locs[v["name"]] = init[0]
        elif s.get("kind") in ("ForStmt", "WhileStmt", "DoStmt"):
            loop, loop_i = s, i
            break
        else:
            raise U("cmi_mempool_expand: statement kind %s between the chain pointer and the chaining loop" % s.get("kind"))
    if loop is None:
        raise U("cmi_mempool_expand: no chaining loop found")
    term = stmts[loop_i + 1] if loop_i + 1 < len(stmts) else None
    a = _assign(term) if term else None
    if not a or _deref(a[0]) != vp or _literal(a[1]) != 0:
        raise U("cmi_mempool_expand: the chaining loop is not followed by `*%s = NULL`" % vp)
    if len(stmts) != loop_i + 2:
        raise U("cmi_mempool_expand: statements after the NULL terminator")

    def link_body(b, extra=None):
        """checks `*vp = vp + S; vp = *vp;` (+ optionally the counter increment); returns the AST of S"""
        ss = [x for x in (b["inner"] if b.get("kind") == "CompoundStmt" else [b]) if not tr.is_assert_noop(x)]
        if extra:
            if len(ss) != 3 or not _incr(ss[2], extra):
                raise U("chaining loop body: expected link, advance, ++%s" % extra)
            ss = ss[:2]
        if len(ss) != 2:
            raise U("chaining loop body: expected exactly `*vp = vp + stride; vp = *vp;`")
        a1, a2 = _assign(ss[0]), _assign(ss[1])
        if not a1 or not a2 or _deref(a1[0]) != vp or _ref(a2[0]) != vp or _deref(a2[1]) != vp:
            raise U("chaining loop body: not of the form `*vp = vp + stride; vp = *vp;`")
        add = _core(a1[1])
        if add.get("kind") != "BinaryOperator" or add.get("opcode") != "+" or _ref(add["inner"][0]) != vp:
            raise U("chaining loop body: link is not `vp + stride`")
        return add["inner"][1]

    def counter_start(name):
        if name not in locs or _literal(locs[name]) is None:
            raise U("chaining loop counter %s does not start from a literal" % name)
        return _literal(locs[name])

    def bound(cond, lhs_ok):
        c = _core(cond)
        if c.get("kind") != "BinaryOperator" or c.get("opcode") != "<" or not lhs_ok(c["inner"][0]):
            raise U("chaining loop condition is not `counter < bound`")
        return tr.expr(c["inner"][1], env)

    k = loop["kind"]
    if k == "ForStmt":
        init, _, cond, inc, b = loop["inner"]
        ui = None
        if init.get("kind") == "DeclStmt" and len(init["inner"]) == 1 and init["inner"][0].get("kind") == "VarDecl":
            v = init["inner"][0]
            ui = v["name"]
            locs[ui] = [c for c in v.get("inner", []) if c.get("kind") != "FullComment"][0]
        if ui is None or not _incr(inc, ui):
            raise U("chaining for-loop: counter declaration / increment not recognised")
        a0 = counter_start(ui)
        E = bound(cond, lambda l: _ref(l) == ui)
        stride = link_body(b)
        count = "(%s - %d)" % (E, a0)
    elif k == "WhileStmt":
        cond, b = loop["inner"]
        c = _core(cond)
        ui = _ref(c["inner"][0]) if c.get("kind") == "BinaryOperator" else None
        if ui is None:
            raise U("chaining while-loop without a counter")
        a0 = counter_start(ui)
        E = bound(cond, lambda l: _ref(l) == ui)
        stride = link_body(b, extra=ui)
        count = "(%s - %d)" % (E, a0)
    else:
        b, cond = loop["inner"]
        c = _core(cond)
        lhs = c["inner"][0] if c.get("kind") == "BinaryOperator" else None
        ui = _ref(_core(lhs)["inner"][0]) if lhs is not None and _core(lhs).get("kind") == "UnaryOperator" else None
        mode = _incr(lhs, ui) if ui else None
        if not mode:
            raise U("chaining do-while-loop: condition is not `++counter < bound`")
        a0 = counter_start(ui)
        E = bound(cond, lambda l: _incr(l, ui) is not None)
        stride = link_body(b)
        # the body runs once before the first test
        count = "(Nat.max 1 (%s - %d))" % (E, a0) if mode == "pre" else "(Nat.max 1 (%s + 1 - %d))" % (E, a0)
    sname = _ref(stride)
    s_ast = locs[sname] if sname in locs else stride
    return count, tr.expr(s_ast, env), {"ForStmt": "for", "WhileStmt": "while", "DoStmt": "do-while"}[k]


def generate(impl):
    incs = [os.path.join(vlib.REPO, "include"), os.path.join(vlib.REPO, "src"), impl["dir"]]
    path = os.path.join(vlib.REPO, "src", "cmi_mempool.c")
    docs = c2lean.clang_ast(path, "cmi_mempool_initialize", incs)
    fn = c2lean.find_function(docs, "cmi_mempool_initialize")
    tr = c2lean.Translator(
        types={"size_t": "u64", "unsigned long": "u64", "uint64_t": "u64", "unsigned int": "u32", "int": "int"},
        structs={"struct cmi_mempool *": MPOOL}, funcs={"cmi_pagesize": "page"})
    body = [c for c in fn["inner"] if c.get("kind") == "CompoundStmt"][0]
    kept, conds, skipped = [], [], []
    env = {p["name"]: p["name"] for p in fn["inner"] if p.get("kind") == "ParmVarDecl"}
    for s in body.get("inner", []):
        c = release_assert_cond(s)
        if c is not None:
            conds.append(tr.boolify(c, env))
            continue
        f = skipped_store(s)
        if f:
            skipped.append(f)
            continue
        kept.append(s)
    if sorted(skipped) != sorted(SKIPPED_FIELDS):
        raise c2lean.Untranslatable("cmi_mempool_initialize: expected exactly one store to each of %s, found %s"
                                    % (sorted(SKIPPED_FIELDS), sorted(skipped)))
    fn2 = dict(fn)
    fn2["inner"] = [c for c in fn["inner"] if c.get("kind") == "ParmVarDecl"] + [dict(body, inner=kept)]
    text = tr.function(fn2, "initialize_sizes", written_params=("mp",))
    # the chaining loop of cmi_mempool_expand
    docs_e = c2lean.clang_ast(path, "cmi_mempool_expand", incs)
    fn_e = c2lean.find_function(docs_e, "cmi_mempool_expand")
    count, stride, form = expand_loop(tr, fn_e)
    cls = poolcorr.chunk_list_size(impl)
    if cls is None:
        raise c2lean.Untranslatable("CHUNK_LIST_SIZE not found by the preprocessor in src/cmi_mempool.c")
    # c2lean.ast_hash is not stable on this function (clang emits pointer-valued keys besides id); hash the translation
    h = hashlib.sha256((text + repr(conds) + count + stride).encode()).hexdigest()[:16]
    out = ["/- GENERATED by tools/gen_pool.py from /repo's current sources on every run. Do not edit. -/",
           "import CimbaModel.Mempool.Model", "", "namespace CimbaModel.Generated.Mempool", "open CimbaModel.Mempool", "",
           "/-- CHUNK_LIST_SIZE of src/cmi_mempool.c as the preprocessor sees it -/",
           "def chunk_list_size : Nat := %d" % cls, "",
           "section", "variable (page : Nat)", "",
           "/-- src/cmi_mempool.c:cmi_mempool_initialize, size arithmetic only (translation %s); `page` = cmi_pagesize() -/" % h,
           text, "end", "",
           "/-- the conditions of the cmb_assert_release lines of cmi_mempool_initialize -/",
           "def initialize_asserts (obj_sz : Nat) (obj_num : Nat) : Bool :=\n  %s" % (" && ".join(conds) if conds else "true"), "",
           "/-- src/cmi_mempool.c:cmi_mempool_expand: how many times the %s loop that threads a fresh chunk executes" % form,
           "    `*vp = vp + stride; vp = *vp;` before the final `*vp = NULL` (64-bit arithmetic of the loop bound) -/",
           "def expand_links (mp : MP) : Nat :=\n  %s" % count, "",
           "/-- the stride of that loop in 8-byte words -/",
           "def expand_stride (mp : MP) : Nat :=\n  %s" % stride, "",
           "end CimbaModel.Generated.Mempool"]
    info = {"file": "src/cmi_mempool.c", "function": "cmi_mempool_initialize", "translation_hash": h, "CHUNK_LIST_SIZE": cls,
            "release_asserts": len(conds), "not_translated": sorted(skipped),
            "expand_loop_form": form}
    return "\n".join(out) + "\n", info


def run(impl):
    text, info = generate(impl)
    changed = vlib.write_if_changed(os.path.join(vlib.GEN, "Mempool.lean"), text)
    return info, changed


if __name__ == "__main__":
    impl = vlib.build_impl("rel")
    print(generate(impl)[0])
