"""Parameter grid of property C16 (no third-party imports: used by tools/props/C16.py under the system python and by
tools/diststat.py under python3-vt).

Every entry: (distribution name as understood by harness/distdrv.c, [parameters], (lo, hi, flags)) with the mathematical support
of the distribution for these parameters; flags: i = integer valued, o = lo excluded, c = hi excluded, k = no Kolmogorov-Smirnov
test (a noticeable part of the probability mass lies below the smallest positive double and is rounded to exactly 0.0 — correctly —
which a comparison with a continuous CDF would count as a jump; support and moments are still tested).
Boundary values on purpose: p = 1, p = 0, probability vectors that sum to one only within the accepted tolerance, shape < 1,
min = mode, n = 1, one-point ranges, large and tiny scales.
`known` names the known finding (known_findings.json id) whose trigger the entry is: such entries are NOT part of the generated
grid; they are reproduced from corpus/rngdist/ and reported as KNOWN-FINDING.
"""
INF = float("inf")

# the documented preconditions as far as the triggers of the listed known findings go
KNOWN_TRIGGERS = {
    # (none at present.  Earlier entries: "std-gamma-shape-below-one" and "dice-large-offset"; both are repaired, their former
    #  triggers are part of the grid below and their corpus scenarios are regression replays.)
}


def trigger_of(name, params):
    for k, f in KNOWN_TRIGGERS.items():
        if f(name, params):
            return k
    return None


def grid():
    g = []

    def add(name, params, lo, hi, flags=""):
        g.append((name, list(params), (lo, hi, flags)))
    add("random", [], 0.0, 1.0, "c")
    add("uniform", [-2.5, 7.25], -2.5, 7.25)
    add("uniform", [0.0, 1e-300], 0.0, 1e-300)
    add("uniform", [-1e6, 1e6], -1e6, 1e6)
    add("triangular", [1.0, 2.0, 5.0], 1.0, 5.0)
    add("triangular", [1.0, 1.0, 3.0], 1.0, 3.0)          # min = mode
    add("triangular", [1.0, 3.0, 3.0], 1.0, 3.0)          # mode = max
    add("std_normal", [], -INF, INF)
    add("normal", [10.0, 2.5], -INF, INF)
    add("normal", [0.0, 1e-3], -INF, INF)
    add("lognormal", [0.5, 0.75], 0.0, INF)
    add("lognormal", [0.0, 0.1], 0.0, INF)
    add("logistic", [1.0, 2.0], -INF, INF)
    add("cauchy", [0.0, 1.5], -INF, INF)
    add("std_exponential", [], 0.0, INF)
    add("exponential", [3.5], 0.0, INF)
    add("exponential", [1e-6], 0.0, INF)
    add("erlang", [1, 1.5], 0.0, INF)
    add("erlang", [5, 1.5], 0.0, INF)
    add("hypoexponential", [1.0, 2.0, 0.5], 0.0, INF)
    add("hypoexponential", [3.0], 0.0, INF)
    add("hyperexponential", [1.0, 2.0, 4.0, 0.25, 0.25, 0.5], 0.0, INF)
    add("hyperexponential", [1.0, 2.0, 4.0, 0.3333, 0.3333, 0.3333], 0.0, INF)   # sum 0.9999: inside the tolerance
    add("std_gamma", [0.05], 0.0, INF)                    # shape < 1: boosted inside cmb_random_std_gamma (repaired)
    add("std_gamma", [0.2], 0.0, INF)
    add("std_gamma", [1.0 / 3.0], 0.0, INF)               # d = shape - 1/3 = 0 in the unrepaired code
    add("std_gamma", [0.4], 0.0, INF)                     # finite but off the gamma distribution in the unrepaired code
    add("std_gamma", [0.999], 0.0, INF)
    add("std_gamma", [1.0], 0.0, INF)
    add("std_gamma", [2.5], 0.0, INF)
    add("std_gamma", [30.0], 0.0, INF)
    add("gamma", [0.05, 2.0], 0.0, INF)                   # shape < 1: boosted in cmb_random_gamma
    add("gamma", [0.001, 1.0], 0.0, INF, "k")             # documented on [0, oo): exactly 0.0 (47 % of the draws) is inside
    add("gamma", [0.5, 2.0], 0.0, INF)
    add("gamma", [1.0, 1.0], 0.0, INF)
    add("gamma", [7.5, 0.5], 0.0, INF)
    add("std_beta", [0.5, 0.5], 0.0, 1.0)
    add("std_beta", [0.2, 3.0], 0.0, 1.0)
    add("std_beta", [1.0, 1.0], 0.0, 1.0)
    add("std_beta", [2.0, 3.0], 0.0, 1.0)
    add("std_beta", [1.0, 6.0], 0.0, 1.0)
    # tiny shapes: both gamma variates underflow to 0.0 (0.001: 23 % of the draws, 1e-4: 86 %); the ratio is then decided in log space
    add("std_beta", [0.01, 0.01], 0.0, 1.0, "k")
    add("std_beta", [0.001, 0.001], 0.0, 1.0, "k")
    add("std_beta", [0.001, 0.003], 0.0, 1.0, "k")        # asymmetric: mean 0.25
    add("std_beta", [1e-4, 1e-4], 0.0, 1.0, "k")
    add("std_beta", [1e-4, 2.0], 0.0, 1.0, "k")           # one side only underflows
    add("beta", [0.001, 0.001, -1.0, 4.0], -1.0, 4.0, "k")
    add("beta", [2.0, 3.0, -1.0, 4.0], -1.0, 4.0)
    add("beta", [0.25, 3.0, -1.0, 4.0], -1.0, 4.0)
    add("PERT", [1.0, 2.0, 6.0], 1.0, 6.0)
    add("PERT_mod", [1.0, 2.0, 6.0, 2.0], 1.0, 6.0)
    add("PERT_mod", [0.0, 0.5, 10.0, 0.01], 0.0, 10.0)    # lambda -> 0: nearly uniform
    add("weibull", [0.5, 2.0], 0.0, INF)
    add("weibull", [1.0, 2.0], 0.0, INF)
    add("weibull", [4.0, 10.0], 0.0, INF)
    add("pareto", [1.16, 1.0], 1.0, INF)
    add("pareto", [3.0, 2.0], 2.0, INF)
    add("pareto", [0.5, 1.0], 1.0, INF)
    add("chisquared", [0.4], 0.0, INF)                    # k/2 < 1: boosted
    add("chisquared", [0.01], 0.0, INF, "k")
    add("chisquared", [1.0], 0.0, INF)
    add("chisquared", [3.0], 0.0, INF)
    add("chisquared", [8.0], 0.0, INF)
    add("F_dist", [3.0, 5.0], 0.0, INF)
    add("F_dist", [0.8, 6.0], 0.0, INF)
    # degrees of freedom down to 0.1 only: below that a noticeable part of the mass of F(a, b) / t(v) lies beyond DBL_MAX
    # (b = 0.01: P(F > DBL_MAX) is about 3 %), no double-valued sampler can follow the distribution there (notes/C16.md)
    add("F_dist", [3.0, 0.1], 0.0, INF)
    add("F_dist", [0.1, 3.0], 0.0, INF, "k")
    add("std_t_dist", [1.0], -INF, INF)
    add("std_t_dist", [0.5], -INF, INF)
    add("std_t_dist", [0.1], -INF, INF)
    add("std_t_dist", [5.0], -INF, INF)
    add("t_dist", [1.0, 2.0, 6.0], -INF, INF)
    add("rayleigh", [2.0], 0.0, INF)
    add("flip", [], 0, 1, "i")
    add("bernoulli", [0.25], 0, 1, "i")
    add("bernoulli", [0.0], 0, 1, "i")
    add("bernoulli", [1.0], 0, 1, "i")
    add("geometric", [1.0], 1, INF, "i")                  # p = 1
    add("geometric", [0.5], 1, INF, "i")
    add("geometric", [0.125], 1, INF, "i")
    add("geometric", [0.001], 1, INF, "i")
    add("binomial", [1, 1.0], 0, 1, "i")
    add("binomial", [10, 0.4], 0, 10, "i")
    add("binomial", [50, 0.02], 0, 50, "i")
    add("binomial", [7, 1.0], 0, 7, "i")
    add("negative_binomial", [3, 0.4], 0, INF, "i")
    add("negative_binomial", [1, 0.5], 0, INF, "i")
    add("negative_binomial", [3, 1.0], 0, 0, "i")         # p = 1: no failures
    add("pascal", [2, 0.5], 0, INF, "i")
    add("poisson", [0.01], 0, INF, "i")
    add("poisson", [4.0], 0, INF, "i")
    add("poisson", [30.0], 0, INF, "i")
    add("dice", [1, 6], 1, 6, "i")
    add("dice", [-3, 4], -3, 4, "i")
    add("dice", [0, 1], 0, 1, "i")
    add("dice", [1000000, 1000005], 1000000, 1000005, "i")
    add("dice", [-1000, 1000], -1000, 1000, "i")
    add("dice", [2 ** 40, 2 ** 40 + 5], 2 ** 40, 2 ** 40 + 5, "i")   # (double)a + x would round here (repaired)
    for nm in ("loaded_dice", "alias"):
        add(nm, [1.0], 0, 0, "i")
        add(nm, [0.25, 0.25, 0.5], 0, 2, "i")
        add(nm, [0.3333, 0.3333, 0.3333], 0, 2, "i")      # sum 0.9999 < 1, inside the tolerance
        add(nm, [0.3337, 0.3333, 0.3333], 0, 2, "i")      # sum 1.0003 > 1, inside the tolerance
        add(nm, [0.0, 0.5, 0.0, 0.5, 0.0], 0, 4, "i")     # zero entries
        add(nm, [0.0005] * 3 + [0.9976], 0, 3, "i")       # sum 0.9991
        add(nm, [1.0 / 16] * 16, 0, 15, "i")
        add(nm, [0.01 * (i + 1) / 2.1 for i in range(20)], 0, 19, "i")   # sum 1.0 up to rounding
    return [e for e in g if trigger_of(e[0], e[1]) is None]


def fmt(x):
    if isinstance(x, int):
        return str(x)
    if x == INF:
        return "inf"
    if x == -INF:
        return "-inf"
    return repr(float(x))


def supp_line(name, params, support, n, seed):
    lo, hi, flags = support
    return "supp %s %d %d %s %s %s %s" % (name, n, seed, fmt(lo), fmt(hi), flags or "-", " ".join(fmt(p) for p in params))


def stat_line(name, params, n, seed):
    return "stat %s %d %d %s" % (name, n, seed, " ".join(fmt(p) for p in params))
